"""Op tables, part 2: attributes and methods of tensors / ndarrays."""
from fractions import Fraction

from . import terms as T
from .values import (
    VConst, VNum, VTens, VList, VTuple, VDict, VObj, VBound, VUnknown, VSlice, VExt,
    Unsupported, ShapeMismatch, num_term, const_of, UNK, broadcast, dim_mul, dim_cat, norm_axis,
)

ELEMENTWISE = {
    "exp": T.exp, "log": T.log, "sqrt": T.sqrt, "cos": T.cos, "sin": T.sin, "abs": T.absval,
    "sigmoid": T.sigmoid, "neg": lambda t: -t,
    "tanh": lambda t: T.app("tanh", t), "sign": lambda t: T.app("sign", t),
    "round": lambda t: T.app("round", t), "floor": lambda t: T.app("floor", t),
    "ceil": lambda t: T.app("ceil", t), "log1p": lambda t: T.log(1 + t), "conj": None,
    "reciprocal": lambda t: T.inv(t), "square": lambda t: t * t, "relu": lambda t: T.app("relu", t),
    "softplus": T.softplus, "logit": lambda t: T.app("logit", t),
}
BINARY = {"add": "Add", "sub": "Sub", "mul": "Mult", "div": "Div", "true_divide": "Div", "pow": "Pow", "multiply": "Mult", "subtract": "Sub", "divide": "Div"}
IDENTITY = {"to", "detach", "cpu", "cuda", "contiguous", "double", "requires_grad_", "type_as"}
CASTS = {"long": "trunc", "int": "trunc", "bool": "nonzero", "float": None, "half": None, "byte": "trunc"}


def map_stack(fn, t):
    """Apply an elementwise function componentwise when the term is a complex pair."""
    if t is None:
        return None
    c = T.as_stack0(t)
    if c is not None:
        return T.stack0(*[fn(x) for x in c])
    return fn(t)


def tensor_attr(it, tv, attr, node):
    from .ops import shape_val

    if attr == "shape":
        return shape_val(tv.shape)
    if attr == "data":
        return VTens(tv.obj, tv.view, tv._shape)
    if attr == "grad":
        g = tv.obj.grad
        return g if g is not None else VConst(None)
    if attr == "_version":
        if tv.obj.version == 0 and tv.obj.origin == "fresh":
            return VConst(0)  # a tensor made by an out-of-place operation and never written in place: torch's counter is 0
        return VNum("int", T.sym("ver:T%d:%d" % (getattr(tv.obj, "ver_id", tv.obj.id), tv.obj.version)), nonneg=True)
    if attr == "device" and getattr(tv.obj.dtype_root(), "device_val", None) is not None:
        return tv.obj.dtype_root().device_val
    if attr in ("dtype", "device", "layout"):
        u = VUnknown("%s(T%d)" % (attr, tv.obj.dtype_root().id), attr)
        u.not_none = True
        u.of_obj = tv.obj
        return u
    if attr == "ndim":
        return VConst(tv.rank) if tv.rank is not None else VNum("int", T.sym("ndim?"), nonneg=True)
    if attr == "T":
        return tensor_method(it, tv, "t", [], {}, node)
    if attr == "size" and tv.kind == "ndarray":
        s = tv.shape
        if s is not None:
            d = dim_mul(list(s))
            from .ops import val_of_dim

            v = val_of_dim(d)
            if isinstance(v, VNum):
                v.pos = False
                v.nonneg = True
            return v
        v = VNum("int", T.sym("size(T%d)" % tv.obj.id), nonneg=True)
        return v
    if attr in ("real", "imag") and tv.kind == "ndarray":
        t = tv.term
        r = it.fresh(T.app("np" + attr, t) if t is not None else None, tv.shape, "ndarray", node)
        return r
    if attr == "requires_grad":
        return VConst(False)
    return VBound(tv, attr)


def _axis(v, rank, extra=0):
    """Canonical (negative) axis from a value; None if unknown."""
    ok, k = const_of(v)
    if not ok or not isinstance(k, int):
        return None
    if rank is None:
        return k
    if k >= 0:
        return k - (rank + extra)
    return k


def _pos_axis(ax, rank):
    return ax + rank if ax < 0 else ax


def reduce_shape(shape, axes):
    if axes == "all":
        return ()
    if shape is None:
        return None
    rank = len(shape)
    drop = set()
    for a in axes:
        p = a + rank  # canonical axes are negative (counted from the end)
        if a >= 0 or not (0 <= p < rank):
            raise ShapeMismatch("reduction axis %d out of range for rank %d" % (a, rank))
        drop.add(p)
    return tuple(d for i, d in enumerate(shape) if i not in drop)


def _axes_arg(args, kwargs, rank, names=("dim", "axis")):
    v = None
    if args:
        v = args[0]
    for n in names:
        if n in kwargs:
            v = kwargs[n]
    if v is None or (isinstance(v, VConst) and v.value is None):
        return "all"
    if isinstance(v, VTuple):
        out = []
        for x in v.items:
            a = _axis(x, rank)
            if a is None:
                return None
            out.append(a)
        return tuple(sorted(out))
    a = _axis(v, rank)
    if a is None:
        return None
    return (a,)


def _sum_of_squares(t):
    """a^2 + b^2 (+ ...): at least two monomials with positive coefficients, each the square of one atom, or a sum over an axis
    of such a term (the squared norm of a vector)."""
    if not isinstance(t, T.Poly):
        return False
    a = t.single_atom()
    if isinstance(a, T.App) and a.op in ("sum", "dot", "matmul") and a.args:
        if a.op == "sum":
            return _sum_of_squares(a.args[0]) or _is_square(a.args[0])
    if len(t.terms) < 2:
        return False
    return all(c > 0 and (_mono_square(m)) for m, c in t.terms.items())


def _mono_square(m):
    if len(m) == 1 and m[0][1] == 2:
        return True
    # the square of a product of parts none of which scales the others DOWN (every atom with a positive even power): at least as
    # far out of range as the plain square (a part divided by the largest modulus first carries that modulus with a negative power)
    if len(m) >= 2 and all(pw_ > 0 and pw_ % 2 == 0 for _a, pw_ in m):
        return True
    # dot(x, x) / matmul(x, x): the sum of the squares of a vector's entries
    if len(m) == 1 and m[0][1] == 1 and isinstance(m[0][0], T.App) and m[0][0].op in ("dot", "matmul") and len(m[0][0].args) == 2 and m[0][0].args[0] == m[0][0].args[1]:
        return True
    return False


def _is_square(t):
    return isinstance(t, T.Poly) and len(t.terms) == 1 and all(c > 0 and _mono_square(m) for m, c in t.terms.items())


def _piece_lengths(sizes, tv):
    """sizes = [min(n, L - s) for s in range(0, L, n)] with L = len(tv) -> the VNum n; None otherwise"""
    from .ops import val_of_dim

    el, rng = sizes.obj.elem, getattr(sizes.obj, "comp_iter", None)
    lt = num_term(val_of_dim(tv.shape[0])) if tv.shape and tv.shape[0] is not UNK else None
    et = num_term(el) if el is not None else None
    if et is None or lt is None or not (isinstance(rng, tuple) and rng and rng[0] == "range" and rng[1] == T.ZERO and rng[2] == lt):
        return None
    n_t = rng[3]
    a = et.single_atom()
    isy = [s_ for s_ in et.syms() if s_.startswith("i@")]
    if not (isinstance(a, T.App) and a.op == "min" and len(a.args) == 2 and len(isy) == 1):
        return None
    if set(map(repr, a.args)) == {repr(n_t), repr(lt - T.sym(isy[0]))}:
        return VNum("int", n_t, pos=True)
    return None


def split_list(it, tv, size, dim, node):
    """x.split(n) / torch.split(x, n) along axis 0: the views x[i : i + n] for i in range(0, len(x), n) - the same value a
    comprehension over that range builds (one generic element and the range it runs over)."""
    from .ops import val_of_dim, index_tensor
    from .values import VSlice

    if dim is not None and const_of(dim) != (True, 0):
        return None
    if isinstance(size, VList) and size.obj.items is None and tv.shape:
        # a list of piece lengths [min(n, L - s) for s in range(0, L, n)] (L the length of the axis): the pieces of split(n)
        n_ = _piece_lengths(size, tv)
        if n_ is None:
            return None
        size = n_
    nt = num_term(size)
    if nt is None or not isinstance(tv, VTens) or not tv.shape:
        return None
    lt = num_term(val_of_dim(tv.shape[0]))
    if lt is None:
        return None
    i = VNum("int", T.sym("i@%s" % it.site(node)), nonneg=True)
    hi = VNum("int", i.term + nt)
    lv = it.new_list(None)
    lv.obj.elem = index_tensor(it, tv, [VSlice(i, hi, None)], node)
    lv.obj.comp_node = node
    lv.obj.comp_iter = ("range", T.ZERO, lt, nt)
    return lv


def tensor_method(it, tv, name, args, kwargs, node):
    from .ops import tensor_binop, shape_val, val_of_dim, dim_of

    t = tv.term
    shape = tv.shape
    rank = tv.rank
    kind = tv.kind
    inplace = name.endswith("_") and not name.endswith("__")
    base = name[:-1] if inplace else name

    # ---------------- identity / storage
    if name in ("untyped_storage", "storage") and not args:
        # the memory a tensor (or any view of it) lives in: one per storage object
        st = VUnknown("storage(T%d)" % tv.obj.id, "storage")
        st.not_none = True
        st.storage_of = tv.obj
        return st
    if name == "data_ptr" and not args:
        # the address of the first element: that of the base tensor for every view that starts where the base starts (x[:],
        # x.view(...), x.t(), x[0], x[:k]); a window that starts further in (x[1:], x[1]) has an address of its own
        def _zero_offset(step):
            if step[0] == "op":
                return True
            if step[0] == "idx0":
                return step[1] == 0
            if step[0] == "index":
                for item in step[1]:
                    if item in ("none", "ellipsis"):
                        continue
                    if isinstance(item, tuple) and item and item[0] == "slice":
                        if item[1] not in (None, 0) or (item[3] is not None and not (isinstance(item[3], int) and item[3] > 0)):
                            return False
                        continue
                    if item == 0 and isinstance(item, int):
                        continue
                    return False
                return True
            return False
        off = [st_ for st_ in tv.view if not _zero_offset(st_)]
        return VNum("int", T.sym("ptr:T%d%s" % (tv.obj.id, ("+" + repr(off)[:60]) if off else "")), nonneg=True)
    if name == "contiguous":
        # self when the tensor is already dense, otherwise a dense copy: for a caller-supplied tensor (whose layout is not
        # known) the result may or may not share storage with it
        if tv.obj.origin == "fresh" and not tv.view:
            return tv
        r = it.fresh(t, shape, kind, node)
        r.obj.valkind = tv.obj.valkind
        r.obj.dtype_src = tv.obj
        r.obj.may_alias.add(tv.obj)
        r.obj.maybe_copy = True
        return r
    if name in ("to", "double", "float", "type_as", "type") and kind == "tensor":
        # float width: only when both the source's and the target's widths are known and differ is a conversion certain
        from .ops_ext import dtype_width

        src = tv.obj.float_width()
        if src is None and tv.obj.valkind not in ("bool", "index", "perm", "str", "bern"):
            src = 64 if name == "float" else None  # an explicit .float() of a value whose width was not tracked: the library's data are float64
        dst = None
        if name == "double":
            dst = 64
        elif name == "float":
            dst = 32
        else:
            for a in list(args) + [kwargs.get("dtype"), kwargs.get("other")]:
                if isinstance(a, VTens):
                    dst = a.obj.float_width() or (64 if src == 32 and a.obj.valkind not in ("bool", "index", "perm", "str") else None)
                elif a is not None and dtype_width(a) in (32, 64):
                    dst = dtype_width(a)
        tgt = next((a for a in list(args) + [kwargs.get("other")] if isinstance(a, VTens)), None)
        if src == 32 and dst is None and tgt is not None and tv.obj.origin == "fresh" and not tv.view:
            # torch.zeros(...).to(x): the result has x's dtype, whatever that is (followed through dtype_src)
            r = it.fresh(t, shape, kind, node)
            r.obj.valkind = tv.obj.valkind
            r.obj.dtype_src = tgt.obj
            return r
        if src in (32, 64) and dst in (32, 64) and src != dst:
            r = it.fresh(T.app("f32", t) if (dst == 32 and t is not None) else t, shape, kind, node)
            r.obj.valkind = tv.obj.valkind
            r.obj.fw = dst
            if dst == 32:
                it.narrowings.append((it.site(node), "a float64 tensor is converted to float32 (.%s)" % name, tv.obj))
            return r
    if name == "to" and isinstance(kwargs, dict) and kwargs.get("copy") is not None and it.truth(kwargs.get("copy")) is True:
        # .to(..., copy=True) always hands out a new tensor with its own storage
        r = it.fresh(t, shape, kind, node)
        r.obj.valkind = tv.obj.valkind
        r.obj.dtype_src = tv.obj
        return r
    if name in IDENTITY or (name == "float" and kind == "tensor") or name == "type":
        return tv  # torch returns self when no conversion is needed: may be the very same object
    if name == "clone" or name == "copy":
        r = it.fresh(t, shape, kind, node)
        r.obj.valkind = tv.obj.valkind
        r.obj.dtype_src = tv.obj
        # torch's clone keeps the memory layout of its source (preserve_format): the copy of a tensor whose layout is the caller's
        # (or of a transposed view) need not be contiguous
        mf = kwargs.get("memory_format") if isinstance(kwargs, dict) else None
        if name == "clone" and kind == "tensor" and mf is None and (str(tv.obj.origin).startswith("param:") or getattr(tv.obj, "layout_unknown", False)
                                                                   or any(st_[0] == "op" and st_[1] in ("t", "transpose", "transpose_s") for st_ in tv.view)):
            r.obj.layout_unknown = True
        return r
    if name == "numpy":
        r = it.fresh(t, shape, "ndarray", node)
        r.obj.may_alias.add(tv.obj)
        r.obj.valkind = tv.obj.valkind
        r.obj.dtype_src = tv.obj
        return r
    if name == "tobytes" and not args:
        u = VUnknown("bytes", "bytes")
        if t is not None:
            u.fp = ("bytes", t)  # the raw content of the array: equal bytes are equal values
        u.not_none = True
        return u
    if name in ("item", "tolist"):
        if name == "item":
            v = VNum("float", t)
            v.from_tensor = tv
            return v
        return it.new_list(None)
    if name == "dim":
        return VConst(rank) if rank is not None else VNum("int", T.sym("dim(T%d)" % tv.obj.id), nonneg=True)
    if name == "numel":
        if shape is not None:
            return val_of_dim(dim_mul(list(shape)))
        return VNum("int", T.sym("numel(T%d)" % tv.obj.id), nonneg=True)
    if name == "size":
        if args:
            ok, k = const_of(args[0])
            if ok and shape is not None and -len(shape) <= k < len(shape):
                return val_of_dim(shape[k])
            return val_of_dim(UNK)
        return shape_val(shape)
    if name == "astype":
        r = it.fresh(t, shape, kind, node)
        r.obj.valkind = tv.obj.valkind
        return r
    if name in CASTS:
        op = CASTS[name]
        nt = t if (op is None or tv.obj.valkind in ("bern", "bool", "index")) else (T.app(op, t) if t is not None else None)
        r = it.fresh(nt, shape, kind, node)
        r.obj.valkind = tv.obj.valkind
        return r

    # ---------------- shape-changing views
    if base in ("unsqueeze",) or (name == "expand_dims"):
        ax = _axis(args[0] if args else kwargs.get("dim"), rank, extra=1)
        if ax is None:
            raise Unsupported("unsqueeze with unknown axis", node, it.site(node))
        if rank is None and ax == 0:
            ax = "front"  # position 0 is known whatever the rank
        new_shape = None
        if shape is not None:
            p = ax + rank + 1
            if not (0 <= p <= rank):
                raise ShapeMismatch("unsqueeze axis out of range", it.site(node))
            new_shape = shape[:p] + (1,) + shape[p:]
        if inplace:
            it.effect("meta", tv.obj, node, name)
            if tv.view:
                raise Unsupported("in-place unsqueeze on a view", node, it.site(node))
            tv.obj.term = T.app("unsq", t, ax, None if rank is None else rank + 1) if t is not None else None
            tv.obj.shape = new_shape
            return tv
        return VTens(tv.obj, tv.view + (("op", "unsq", ax, None if rank is None else rank + 1),), new_shape)
    if base == "squeeze":
        a0 = args[0] if args else kwargs.get("dim")
        if a0 is None:
            raise Unsupported("squeeze() without axis", node, it.site(node))
        ax = _axis(a0, rank)
        if ax is None:
            raise Unsupported("squeeze with unknown axis", node, it.site(node))
        new_shape = None
        is_one = None
        if shape is not None:
            p = ax + rank
            if not (0 <= p < rank):
                raise ShapeMismatch("squeeze axis out of range", it.site(node))
            d = shape[p]
            is_one = True if d == 1 else (None if d == UNK else False)
            new_shape = shape[:p] + shape[p + 1:] if is_one else (shape if is_one is False else None)
        nt = T.app("sq", t, ax) if (t is not None and is_one is not False) else t
        if inplace:
            it.effect("meta", tv.obj, node, name)
            if tv.view:
                # squeeze_ of a view does not touch the base's data; produce a new view
                return VTens(tv.obj, tv.view + (("op", "sq", ax),), new_shape)
            tv.obj.term = nt
            tv.obj.shape = new_shape
            return tv
        return VTens(tv.obj, tv.view + ((("op", "sq", ax),) if is_one is not False else ()), new_shape)
    if name in ("view", "reshape"):
        dims_v = list(args[0].items) if (len(args) == 1 and isinstance(args[0], VTuple)) else list(args)
        dims = [dim_of(x) if not (isinstance(x, VConst) and x.value == -1) else -1 for x in dims_v]
        if shape is not None and len(shape) == 1 and dims in ([1, -1], [-1, 1]) and (name == "view" or not tv.view or True):
            # a vector reshaped to one row / one column: the same as unsqueeze (one normal form for both spellings)
            return tensor_method(it, tv, "unsqueeze", [VConst(0 if dims == [1, -1] else 1)], {}, node)
        if name == "reshape" and kind == "tensor" and not tv.view and getattr(tv.obj, "layout_unknown", False) and not (shape is not None and len(dims) == len(shape)):
            # reshape returns a view when the layout allows it and a copy otherwise: for a tensor that is not known to be
            # contiguous the result may be either - what is written into it need not reach the tensor
            new_shape, _desc = _view_shape(shape, dims)
            r = it.fresh(T.app("view", t, tuple(str(d) for d in dims)) if t is not None else None, new_shape, kind, node)
            r.obj.valkind = tv.obj.valkind
            r.obj.dtype_src = tv.obj
            r.obj.may_alias.add(tv.obj)
            r.obj.maybe_copy = True
            r.obj.reshape_of = tv.obj
            return r
        if shape is not None and len(dims) == len(shape) and dims.count(-1) == 1 and all(d == -1 or d == s_ for d, s_ in zip(dims, shape)) and all(s_ != UNK for d, s_ in zip(dims, shape) if d != -1):
            # every size but the inferred one is the size the tensor already has: the same tensor (x.view(-1, n) of an (B, n) tensor)
            return VTens(tv.obj, tv.view, shape)
        new_shape, desc = _view_shape(shape, dims)
        step = ("op", desc[0]) + tuple(desc[1:])
        return VTens(tv.obj, tv.view + (step,), new_shape)
    if name == "expand":
        dims_v = list(args[0].items) if (len(args) == 1 and isinstance(args[0], VTuple)) else list(args)
        new_shape = None
        if shape is not None:
            tgt = [dim_of(x) if not (isinstance(x, VConst) and x.value == -1) else -1 for x in dims_v]
            if len(tgt) >= len(shape):
                src = (1,) * (len(tgt) - len(shape)) + tuple(shape)
                out = []
                for s, d in zip(src, tgt):
                    out.append(s if d == -1 else d)
                new_shape = tuple(out)
        return VTens(tv.obj, tv.view + (("op", "to"),), new_shape)  # broadcasting view: same values
    if name == "t" or (name == "transpose" and not args and kind == "ndarray"):
        new_shape = None
        if shape is not None:
            if len(shape) == 2:
                new_shape = (shape[1], shape[0])
            elif len(shape) < 2:
                new_shape = shape
            else:
                raise ShapeMismatch("t() on rank-%d tensor" % len(shape), it.site(node))
        return VTens(tv.obj, tv.view + (("op", "t"),), new_shape)
    if name == "transpose":
        a, b = _axis(args[0], rank), _axis(args[1], rank)
        if a is None or b is None:
            raise Unsupported("transpose with unknown axes", node, it.site(node))
        new_shape = None
        if shape is not None:
            pa, pb = a + rank, b + rank
            if not (0 <= pa < rank and 0 <= pb < rank):
                raise ShapeMismatch("transpose axes out of range", it.site(node))
            ls = list(shape)
            ls[pa], ls[pb] = ls[pb], ls[pa]
            new_shape = tuple(ls)
        a, b = sorted((a, b))
        if a == b:
            return VTens(tv.obj, tv.view, tv._shape)
        if rank == 2:
            return VTens(tv.obj, tv.view + (("op", "t"),), new_shape)
        if t is not None and T.as_stack0(t) is not None and rank is not None and a + rank >= 1 and b + rank >= 1:
            # the leading (stacked) axis is not involved: the components are transposed one by one
            return VTens(tv.obj, tv.view + (("op", "transpose_s", a, b, rank - 1),), new_shape)
        return VTens(tv.obj, tv.view + (("op", "transpose", a, b),), new_shape)

    # ---------------- reductions
    if name in ("sum", "mean", "logsumexp", "prod", "all", "any", "max", "min", "var", "std"):
        axes = _axes_arg(args, kwargs, rank)
        if axes is None:
            raise Unsupported("%s with unknown axis" % name, node, it.site(node))
        if axes == "all" and rank == 1:
            axes = (-1,)  # reducing a vector over all axes is reducing its only axis (one normal form)
        if shape is not None:
            red = list(shape) if axes == "all" else [shape[a_] for a_ in axes if isinstance(a_, int) and -len(shape) <= a_ < len(shape)]
            it.reductions.append((it.site(node), name, tuple(str(d) for d in red), tuple(fr.func.qualname for fr in it.frames if fr.func is not None)))
        try:
            new_shape = reduce_shape(shape, axes)
        except ShapeMismatch as e:
            it.shape_errors.append((it.site(node), str(e)))
            new_shape = None
        pp = getattr(tv.obj, "prod_parts", None)
        if t is not None and name == "sum" and axes == (-1,) and not tv.view and pp is not None and pp[0] == t:
            _, pa, psa, pb, psb = pp
            if psa is not None and psb is not None:
                if len(psb) == 1 and len(psa) >= 1 and psa[-1] == psb[0]:
                    t = None
                    nt_override = T.app("matmul", pa, pb)
                elif len(psa) == 1 and len(psb) >= 1 and psb[-1] == psa[0]:
                    t = None
                    nt_override = T.app("matmul", pb, pa)
                else:
                    nt_override = None
            else:
                nt_override = None
        else:
            nt_override = None
        if nt_override is not None:
            nt = nt_override
        elif t is None:
            nt = None
        elif name == "logsumexp":
            nt = T.log(T.app("sum", T.exp(t), axes))
        elif name in ("sum", "mean"):
            nt = map_stack(lambda x: T.app(name, x, axes), t) if (T.as_stack0(t) is not None and axes != "all" and rank is not None and all(_pos_axis(a, rank) != 0 for a in axes)) else T.app(name, t, axes)
        else:
            nt = T.app(name, t, axes)
        r = it.fresh(nt, new_shape, kind, node)
        if name in ("all", "any"):
            r.obj.valkind = "bool"
        return r

    # ---------------- elementwise unary
    if base == "abs" and not args and t is not None and T.has_imag_unit(t) and getattr(tv.obj, "native_complex", False):
        # the modulus of a native complex tensor re + i im
        re_, im_ = T.complex_split(t)
        return it.fresh(T.sqrt(re_ * re_ + im_ * im_), shape, kind, node)
    if base in ("conj", "conj_physical") and not args and t is not None and getattr(tv.obj, "native_complex", False):
        re_, im_ = T.complex_split(t)
        r = it.fresh(re_ - T.sym("lit:1j") * im_, shape, kind, node)
        r.obj.native_complex = True
        return r
    if base in ELEMENTWISE and not args and base != "conj":
        fn = ELEMENTWISE[base]
        if base in ("log", "log1p") and t is not None:
            # float facts the term algebra cannot see: 1 - sigmoid(x) is exactly 0 in double precision for x > 36.74, so
            # log(1 - sigmoid(x)) is -inf there although it equals -softplus(x) over the reals (same for log(sigmoid(-x)))
            arg = (1 + t) if base == "log1p" else t
            one_minus = T.ONE - arg
            a1 = one_minus.single_atom()
            if a1 is not None and isinstance(a1, T.App) and a1.op == "sigmoid":
                it.numeric.append((it.site(node), "log(1 - sigmoid(x))", a1.args[0], tuple(fr.func.qualname for fr in it.frames if fr.func is not None)))
            # log(1 + exp(x)) written out: exp overflows to inf for x > 709.78 (F.softplus switches to x above its threshold)
            rest = arg - T.ONE
            sm_ = rest.single_mono()
            if sm_ is not None and sm_[1] == 1 and len(sm_[0]) == 1 and isinstance(sm_[0][0][0], T.Exp) and sm_[0][0][1] == 1 and not sm_[0][0][0].arg.is_const():
                it.numeric.append((it.site(node), "log(1 + exp(x)) [overflow]", sm_[0][0][0].arg, tuple(fr.func.qualname for fr in it.frames if fr.func is not None)))
        if base == "sqrt" and t is not None and _sum_of_squares(t):
            # sqrt(a^2 + b^2) with the squares formed first: a^2 overflows for |a| > 1.34e154 and underflows below 1.5e-154 although
            # the root is representable (torch.hypot scales first)
            it.numeric.append((it.site(node), "sqrt(a^2 + b^2) [range]", t, tuple(fr.func.qualname for fr in it.frames if fr.func is not None)))
        nt = map_stack(fn, t)
        if inplace:
            it.write(tv, nt, node, name)
            return tv
        return it.fresh(nt, shape, kind, node)
    if base == "conj" and kind == "ndarray":
        return it.fresh(T.app("npconj", t) if t is not None else None, shape, kind, node)
    if base == "clamp":
        lo = kwargs.get("min", args[0] if args else None)
        hi = kwargs.get("max", args[1] if len(args) > 1 else None)
        lot, hit = (num_term(lo) if lo is not None else None), (num_term(hi) if hi is not None else None)
        nt = None
        if t is not None:
            at = t.single_atom()
            if at is not None and isinstance(at, T.App) and at.op in ("sigmoid", "bern") and lot == T.ZERO and hit == T.ONE:
                nt = t  # clamp to [0,1] is the identity on sigmoid's range
            else:
                nt = T.app("clamp", t, lot, hit)
        if inplace:
            it.write(tv, nt, node, name)
            return tv
        return it.fresh(nt, shape, kind, node)

    # ---------------- elementwise binary
    if base in BINARY and args:
        other = args[0]
        al = kwargs.get("alpha") if isinstance(kwargs, dict) else None
        if al is not None and base in ("add", "sub", "subtract") and not (isinstance(al, VConst) and al.value == 1):
            other = tensor_binop(it, "Mult", other, al, node)  # x.add(y, alpha=a) is x + a * y
        r = tensor_binop(it, BINARY[base], tv, other, node)
        if inplace:
            it.write(tv, r.term, node, name, src=args[0] if isinstance(args[0], VTens) else None)
            return tv
        return r
    if name == "matmul" or name == "mm" or name == "dot" or name == "mv":
        from .ops_ext import torch_matmul

        return torch_matmul(it, [tv] + list(args), kwargs, node, op="matmul" if name in ("mm",) else name)
    if name == "repeat":
        reps = [dim_of(x) for x in args]
        new_shape = None
        if shape is not None and len(reps) >= len(shape):
            src = (1,) * (len(reps) - len(shape)) + tuple(shape)
            new_shape = tuple(s if r == 1 else (r if s == 1 else (dim_mul([r, s]) if UNK not in (s, r) else UNK)) for s, r in zip(src, reps))  # r copies of the axis one after the other: the copy index is the outer one
        r = it.fresh(T.app("repeat", t, tuple(str(x) for x in reps)) if t is not None else None, new_shape, kind, node)
        r.obj.valkind = tv.obj.valkind
        return r
    if name == "repeat_interleave" and len(args) == 1 and num_term(args[0]) is not None and (kwargs.get("dim") is None or const_of(kwargs.get("dim")) == (True, 0)) \
            and shape is not None and (len(shape) == 1 or kwargs.get("dim") is not None):
        # every entry (row) repeated n times in place: x0 x0 .. x1 x1 ..
        n_ = dim_of(args[0])
        new_shape = ((dim_mul([shape[0], n_]) if UNK not in (shape[0], n_) else UNK),) + tuple(shape[1:])
        r = it.fresh(T.app("repeat_interleave", t, num_term(args[0])) if t is not None else None, new_shape, kind, node)
        r.obj.valkind = tv.obj.valkind
        return r
    if name == "roll":
        from .ops_ext import torch_roll

        return torch_roll(it, [tv] + list(args), kwargs, node)
    if name == "unbind" and tv.shape:
        dm = args[0] if args else kwargs.get("dim", VConst(0))
        okd, dv = const_of(dm)
        if okd and isinstance(dv, int) and dv in (0, -1, len(tv.shape) - 1, -len(tv.shape)):
            # x.unbind(d): the tuple of the slices x.select(d, j), j = 0 .. shape[d] - 1 (one generic element and its range)
            from .ops import val_of_dim, index_tensor

            last = dv in (-1, len(tv.shape) - 1) and len(tv.shape) > 1
            n_ = tv.shape[-1 if last else 0]
            if isinstance(n_, int) and 0 < n_ <= 8:
                # a known small number of slices (the real / imaginary pair, ...): the tuple itself
                return VTuple([index_tensor(it, tv, ([VConst(Ellipsis), VConst(k_)] if last else [VConst(k_)]), node) for k_ in range(n_)])
            lt = num_term(val_of_dim(tv.shape[-1 if last else 0]))
            if lt is not None:
                i = VNum("int", T.sym("i@%s" % it.site(node)), nonneg=True)
                lv = it.new_list(None)
                lv.obj.elem = index_tensor(it, tv, ([VConst(Ellipsis), i] if last else [i]), node)
                lv.obj.comp_node = node
                lv.obj.comp_iter = ("range", T.ZERO, lt, T.ONE)
                return lv
    if name == "split" and args:
        r = split_list(it, tv, args[0], args[1] if len(args) > 1 else kwargs.get("dim"), node)
        if r is not None:
            return r
    if name in ("new_zeros", "new_ones") and args:
        # a fresh tensor of the given shape, all zeros / ones, with this tensor's dtype and device
        from .ops_ext import shape_from_args as _sfa

        sh_ = _sfa(list(args))
        r = it.fresh(T.ZERO if name == "new_zeros" else T.ONE, sh_, kind, node)
        r.obj.dtype_src = tv.obj
        return r
    if name in ("masked_fill", "where", "index_select", "gather", "flip", "cumsum", "cumprod", "flatten", "permute", "narrow", "chunk", "split", "type", "new_zeros", "new_tensor", "eq", "ne", "lt", "gt", "le", "ge", "nonzero", "argmax", "argmin", "sort", "unique", "norm", "diag", "diagonal", "tril", "triu", "fill_diagonal_"):
        if name == "flatten":
            return it.fresh(T.app("flatten", t) if t is not None else None, None, kind, node)
        if name == "flip":
            return it.fresh(T.app("flip", t, tuple(repr(a) for a in args)) if t is not None else None, shape, kind, node)
        return it.fresh(T.app(name, t, *[_argterm(a) for a in args]) if t is not None else None, None, kind, node)
    if name == "random_" or name in ("uniform_", "normal_", "bernoulli_", "exponential_", "geometric_", "cauchy_", "log_normal_"):
        it.ext_calls.append(("tensor." + name, [tv] + list(args), kwargs, it.site(node), None))
        it.write(tv, T.app("rng_" + name, T.sym("rng@%s" % it.site(node))), node, name)
        return tv
    if name == "zero_":
        it.write(tv, T.ZERO, node, name)
        return tv
    if name == "fill_" and args and num_term(args[0]) is not None:
        it.write(tv, num_term(args[0]), node, name)
        return tv
    if name == "copy_" and args and isinstance(args[0], VUnknown) and tv.obj.float_width() == 32 and tv.obj.origin == "fresh":
        it.narrowings.append((it.site(node), "data of untracked width (the library's tensors are float64) are copied into a float32 tensor created without dtype (copy_)", tv.obj))
    if name == "copy_" and args and isinstance(args[0], VTens):
        it.write(tv, args[0].term, node, name, src=args[0])
        return tv
    if inplace:
        # any other in-place method: a data write with an opaque result
        nt = T.app(base, t, *[_argterm(a) for a in args]) if t is not None else None
        it.write(tv, nt, node, name)
        return tv
    if name == "backward":
        it.effect("grad", tv.obj, node, "backward")
        return VConst(None)
    if name == "unflatten" and len(args) == 2 and shape is not None and const_of(args[0])[0] and isinstance(const_of(args[0])[1], int):
        # one axis split into several, in row-major order: a view (for every memory layout)
        ax = const_of(args[0])[1]
        ax = ax + len(shape) if ax < 0 else ax
        sizes = it.concrete_items(args[1])
        if sizes is not None and 0 <= ax < len(shape):
            dims = [dim_of(x) for x in sizes]
            new_shape = tuple(shape[:ax]) + tuple(dims) + tuple(shape[ax + 1:])
            return VTens(tv.obj, tv.view + (("op", "unflatten", ax, tuple(str(d) for d in dims)),), new_shape)
    if name in ("movedim", "moveaxis") and len(args) == 2 and shape is not None and all(const_of(a)[0] and isinstance(const_of(a)[1], int) for a in args):
        src_, dst_ = const_of(args[0])[1], const_of(args[1])[1]
        r_ = len(shape)
        src_, dst_ = (src_ + r_ if src_ < 0 else src_), (dst_ + r_ if dst_ < 0 else dst_)
        if 0 <= src_ < r_ and 0 <= dst_ < r_:
            order = [k_ for k_ in range(r_) if k_ != src_]
            order.insert(dst_, src_)
            return VTens(tv.obj, tv.view + (("op", "permute", tuple(order)),), tuple(shape[k_] for k_ in order))
    # unknown pure method: fresh opaque result (which may be a view of the tensor: reshaping / selecting methods are)
    it.notes.append((it.site(node), "unknown tensor method %s" % name))
    r = it.fresh(T.app("m:" + name, t, *[_argterm(a) for a in args]) if t is not None else None, None, kind, node)
    r.obj.may_alias.add(tv.obj)
    r.obj.maybe_view = True
    return r


def _argterm(a):
    if isinstance(a, VTens):
        return a.term if a.term is not None else T.sym("T%d" % a.obj.id)
    nt = num_term(a)
    if nt is not None:
        return nt
    return repr(a)


def _view_shape(shape, dims):
    """Return (new_shape, description) for view/reshape.  The description names the regrouping
    relative to the source so that terms stay comparable across batch forms."""
    if shape is None:
        return None, ("view", tuple(str(d) for d in dims))
    if -1 in dims:
        i = dims.index(-1)
        before, after = dims[:i], dims[i + 1:]
        # common case: leading dims preserved, trailing dims merged
        if not after and tuple(before) == tuple(shape[: len(before)]):
            merged = list(shape[len(before):])
            new = tuple(before) + (dim_mul(merged),)
            if len(merged) == 2:
                return new, ("flatten_last2",)
            if len(merged) == 1:
                return new, ("to",)
            return new, ("view", "merge_last%d" % len(merged))
        new = tuple(UNK if d == -1 else d for d in dims)
        return new, ("view", tuple(str(d) for d in dims))
    new = tuple(dims)
    if tuple(new) == tuple(shape):
        return new, ("to",)
    fa, fb = _factors(shape), _factors(new)
    if fa is not None and fb is not None:
        if fa == fb:
            return new, ("view", "regroup:" + ",".join(str(len(_factors((d,)))) for d in new))
        if sorted(map(str, fa)) == sorted(map(str, fb)):
            raise ShapeMismatch("reshape regroups axes %s as %s: the row-major order of the merged axes differs" % (shape, new))
    # merging of trailing dims expressed explicitly, e.g. view(B, nh*nv)
    if len(new) <= len(shape) and tuple(new[:-1]) == tuple(shape[: len(new) - 1]):
        merged = list(shape[len(new) - 1:])
        if dim_mul(merged) == new[-1]:
            if len(merged) == 2:
                return new, ("flatten_last2",)
    # param.size()-style unflatten
    return new, ("view", tuple(str(d) for d in new))


def _factors(shape):
    out = []
    for d in shape:
        if d == UNK:
            return None
        if isinstance(d, tuple) and d[0] == "flat":
            out.extend(d[1])
        elif isinstance(d, tuple):
            return None
        elif d != 1:
            out.append(d)
    return out


def ndarray_method(it, tv, name, args, kwargs, node):
    return tensor_method(it, tv, name, args, kwargs, node)
