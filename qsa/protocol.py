"""Typestate / protocol checking: CFG x sticky flag, compared with a reference automaton.

Labels are event names; a trailing '!' means "the stop flag became set while this event's
callbacks ran" (callbacks are user code: any event may set the flag, nothing clears it).
'eff' marks the execution of a statement with a parameter effect.
"""
import ast
from collections import deque

EVENTS = {
    "on_train_start": "TS", "on_train_end": "TE", "on_epoch_start": "ES", "on_epoch_end": "EE",
    "on_batch_start": "BS", "on_batch_end": "BE",
}


class NFA:
    def __init__(self):
        self.trans = {}  # state -> list of (label|None, state)
        self.start = None
        self.accept = set()

    def add(self, a, label, b):
        self.trans.setdefault(a, []).append((label, b))
        self.trans.setdefault(b, [])

    def eclose(self, states):
        out = set(states)
        st = list(states)
        while st:
            x = st.pop()
            for lab, y in self.trans.get(x, ()):
                if lab is None and y not in out:
                    out.add(y)
                    st.append(y)
        return frozenset(out)

    def step(self, S, label):
        nxt = set()
        for x in S:
            for lab, y in self.trans.get(x, ()):
                if lab == label:
                    nxt.add(y)
        return self.eclose(nxt)

    def labels(self, S):
        out = set()
        for x in S:
            for lab, _ in self.trans.get(x, ()):
                if lab is not None:
                    out.add(lab)
        return out

    def accepting(self, S):
        return any(x in self.accept for x in S)

    def erase(self, label):
        n = NFA()
        n.start, n.accept = self.start, set(self.accept)
        for a, lst in self.trans.items():
            n.trans.setdefault(a, [])
            for lab, b in lst:
                n.add(a, None if lab == label else lab, b)
        return n

    def size(self):
        return len(self.trans), sum(len(v) for v in self.trans.values())


def included(A, B):
    """L(A) subseteq L(B)?  Returns (True, None) or (False, shortest trace in L(A) \\ L(B))."""
    a0, b0 = A.eclose([A.start]), B.eclose([B.start])
    seen = {(a0, b0)}
    q = deque([(a0, b0, ())])
    while q:
        sa, sb, tr = q.popleft()
        if A.accepting(sa) and not B.accepting(sb):
            return False, tr
        for lab in sorted(A.labels(sa)):
            na = A.step(sa, lab)
            if not na:
                continue
            nb = B.step(sb, lab)
            if not nb:
                # A can do `lab` here, B cannot: any accepted continuation is a counterexample;
                # report the prefix (every reachable impl state can reach the exit or loops)
                w = _witness(A, na)
                if w is not None:
                    return False, tr + (lab,) + w
                continue
            if (na, nb) not in seen:
                seen.add((na, nb))
                q.append((na, nb, tr + (lab,)))
    return True, None


def _witness(A, S):
    seen = {S}
    q = deque([(S, ())])
    while q:
        s, tr = q.popleft()
        if A.accepting(s):
            return tr
        for lab in sorted(A.labels(s)):
            n = A.step(s, lab)
            if n and n not in seen:
                seen.add(n)
                q.append((n, tr + (lab,)))
    return None


def spec_automaton(flag0):
    """Reference protocol written from the property statement."""
    n = NFA()

    def ev(a, name, nxt):
        # a, nxt: (state-name, flag)
        st, f = a
        if f:
            n.add((st, 1), name, (nxt, 1))
        else:
            n.add((st, 0), name, (nxt, 0))
            n.add((st, 0), name + "!", (nxt, 1))

    n.start = ("start", flag0)
    for f in (0, 1):
        if f:
            n.add(("start", 1), None, ("END", 1))  # stop already requested: nothing happens
        else:
            ev(("start", 0), "TS", "E")
        # epoch loop head: no more epochs | next epoch
        n.add(("E", f), None, ("preTE", f))
        ev(("E", f), "ES", "B")
        # batch loop head: no more batches | next batch
        n.add(("B", f), None, ("preEE", f))
        ev(("B", f), "BS", "inB")
        n.add(("inB", f), "eff", ("inB", f))
        ev(("inB", f), "BE", "afterBE")
        n.add(("afterBE", f), None, ("preEE", f) if f else ("B", f))
        ev(("preEE", f), "EE", "afterEE")
        n.add(("afterEE", f), None, ("preTE", f) if f else ("E", f))
        ev(("preTE", f), "TE", "END")
        n.accept.add(("END", f))
    return n


def flag_test(expr, flag_names=("stop_training", "_stop_training")):
    """Return +1 if expr is `self.<flag>`, -1 for `not self.<flag>`, 0 if the flag is not mentioned,
    None if mentioned in an unrecognised form."""
    def is_flag(e):
        return isinstance(e, ast.Attribute) and e.attr in flag_names and isinstance(e.value, ast.Name)

    if is_flag(expr):
        return 1
    if isinstance(expr, ast.UnaryOp) and isinstance(expr.op, ast.Not) and is_flag(expr.operand):
        return -1
    if isinstance(expr, ast.Compare) and len(expr.ops) == 1 and is_flag(expr.left) and isinstance(expr.comparators[0], ast.Constant) and isinstance(expr.comparators[0].value, bool):
        v = expr.comparators[0].value
        if isinstance(expr.ops[0], (ast.Is, ast.Eq)):
            return 1 if v else -1
        if isinstance(expr.ops[0], (ast.IsNot, ast.NotEq)):
            return -1 if v else 1
    for sub in ast.walk(expr):
        if is_flag(sub):
            return None
    return 0


def impl_automaton(cfg, flag0, effect_lines, event_receiver_ok=None):
    """Product of the CFG with the flag.  Returns (NFA, problems)."""
    from .cfg import calls_in

    n = NFA()
    problems = []
    actions = {}
    for node in cfg.nodes:
        acts = []
        for c in calls_in(node):
            if isinstance(c.func, ast.Attribute) and c.func.attr in EVENTS:
                if event_receiver_ok is None or event_receiver_ok(c):
                    acts.append(("ev", EVENTS[c.func.attr]))
        a = node.ast
        if a is not None and node.kind in ("stmt", "return") and not getattr(node, "try_header", False) and not getattr(node, "spliced", False):
            lo, hi = a.lineno, getattr(a, "end_lineno", a.lineno)
            if getattr(node, "with_header", False):
                hi = lo
            # effect_lines: line numbers of the analysed function, or (function, line) pairs when helpers are spliced in
            own = getattr(node, "owner", "")
            if any((lo <= l <= hi and not getattr(node, "inst", ())) if isinstance(l, int) else (l[0] == own and lo <= l[1] <= hi) for l in effect_lines):
                acts.append(("eff", "eff"))
        actions[node.id] = acts
    n.start = (cfg.entry.id, 0, flag0)
    for node in cfg.nodes:
        acts = actions[node.id]
        for f in (0, 1):
            # run through the node's actions
            for k, (kind, name) in enumerate(acts):
                src, dst = (node.id, k, f), (node.id, k + 1, f)
                if kind == "eff":
                    n.add(src, "eff", dst)
                elif f:
                    n.add(src, name, dst)
                else:
                    n.add(src, name, dst)
                    n.add(src, name + "!", (node.id, k + 1, 1))
            end = (node.id, len(acts), f)
            n.trans.setdefault(end, [])
            if node.id == cfg.exit.id:
                n.accept.add(end)
                continue
            pol = 0
            if node.kind == "test":
                pol = flag_test(node.ast.test)
                if pol is None:
                    problems.append((node.lineno, "stop flag tested in an unrecognised form: %s" % ast.unparse(node.ast.test)))
                    pol = 0
            for (succ, lab) in node.succ:
                if pol:
                    truth = (f == 1) if pol == 1 else (f == 0)
                    if (lab == "T") != truth:
                        continue
                n.add(end, None, (succ, 0, f))
    # writes of False to the flag would break stickiness; they are reported by C12.R5
    return n, problems
