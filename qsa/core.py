"""Rule framework: verdicts, findings, known-findings, evidence and replay files."""
import contextlib
import json
import os
import sys
import time
import traceback

from .model import AnalysisError, Program
from .values import Unsupported, ShapeMismatch
from .interp import PathBudget, RaiseEx

VERIF = os.path.dirname(os.path.dirname(os.path.abspath(__file__)))
EVIDENCE_DIR = os.environ.get("QSA_EVIDENCE_DIR") or os.path.join(VERIF, "evidence")
KNOWN_FILE = os.path.join(VERIF, "known_findings.json")


class Result:
    def __init__(self, rule, instance, verdict, site="", msg="", facts=None, key=None):
        self.rule = rule
        self.instance = instance
        self.verdict = verdict  # PASS | VIOLATION | UNDECIDED | KNOWN
        self.site = site
        self.msg = msg
        self.facts = facts or {}
        self.key = key

    def as_dict(self):
        d = {"rule": self.rule, "instance": self.instance, "verdict": self.verdict}
        if self.site:
            d["site"] = self.site
        if self.msg:
            d["msg"] = self.msg
        if self.key:
            d["key"] = self.key
        if self.facts:
            d["facts"] = {k: _short(v) for k, v in self.facts.items()}
        return d


def _short(v, n=600):
    s = v if isinstance(v, (int, float, bool, list, dict)) or v is None else str(v)
    if isinstance(s, str) and len(s) > n:
        return s[:n] + "…"
    if isinstance(s, list):
        return [_short(x, n) for x in s[:40]]
    if isinstance(s, dict):
        return {str(k): _short(x, n) for k, x in list(s.items())[:40]}
    return s


class Checker:
    def __init__(self, pid, tier="quick", repo=None):
        self.pid = pid
        self.tier = tier
        self.results = []
        self.t0 = time.time()
        self.program = Program(repo)
        self.analysed_functions = set()
        self.assumptions = []
        self.extra = {}
        self.min_counts = {}

    # ---- verdict recording
    def ok(self, rule, instance, site="", **facts):
        self.results.append(Result(rule, instance, "PASS", site, "", facts))

    def violation(self, rule, instance, site, msg, key=None, **facts):
        if key is None:
            key = "%s|%s|%s" % (rule, _func_of_site(site), instance)
        self.results.append(Result(rule, instance, "VIOLATION", site, msg, facts, key))

    def undecided(self, rule, instance, site, reason):
        self.results.append(Result(rule, instance, "UNDECIDED", site, reason))

    def check(self, cond, rule, instance, site, msg, key=None, **facts):
        """cond True -> PASS, False -> VIOLATION, None -> UNDECIDED."""
        if cond is True:
            self.ok(rule, instance, site, **facts)
        elif cond is False:
            self.violation(rule, instance, site, msg, key=key, **facts)
        else:
            self.undecided(rule, instance, site, "cannot decide: " + msg)
        return cond

    @contextlib.contextmanager
    def guard(self, rule, instance, site=""):
        from .ctx import DefiniteBug

        try:
            yield
        except DefiniteBug as e:
            if str(e.site or "").startswith("<entry>") and "unexpected keyword" in str(e.exc):
                # the rule's own call of the entry point uses a keyword the routine no longer has: the rule does not apply as
                # written (where the option went - another routine, another name - is not followed)
                self.undecided(rule, instance, site, "the routine no longer takes the keyword this rule calls it with: %s" % e.exc)
            else:
                self.violation(rule, instance, e.site or site, "evaluating this operation always fails: %s" % e.exc)
        except Unsupported as e:
            self.undecided(rule, instance, e.site or site, "outside analyser vocabulary: %s" % e)
        except PathBudget as e:
            self.undecided(rule, instance, site, "bound hit: %s" % e)
        except AnalysisError as e:
            self.undecided(rule, instance, site, "analysis error: %s" % e)
        except ShapeMismatch as e:
            self.undecided(rule, instance, e.site or site, "shape error outside a shape rule: %s" % e)
        except RecursionError:
            self.undecided(rule, instance, site, "recursion limit")
        except (TypeError, AttributeError) as e:
            # a value without a term (None) reached a rule that compares terms: the analyser does not follow that value
            if "None to Poly" in str(e) or "'NoneType' object has no attribute" in str(e):
                self.undecided(rule, instance, site, "a value compared by this rule is not followed by the analyser (no term): %s" % e)
            else:
                raise

    def require_min(self, rule, minimum):
        n = sum(1 for r in self.results if r.rule == rule)
        self.min_counts[rule] = (n, minimum)
        if n < minimum:
            self.undecided(rule, "instance-count", "", "only %d instances evaluated, %d confirmed by hand" % (n, minimum))

    def note_functions(self, names):
        self.analysed_functions.update(names)

    # ---- finishing
    def finish(self):
        known = load_known()
        out_lines = []
        viol = []
        known_hits = []
        undec = []
        for r in self.results:
            if r.verdict == "VIOLATION":
                k = match_known(known, self.pid, r.key)
                if k is not None:
                    r.verdict = "KNOWN"
                    known_hits.append((r, k))
                else:
                    viol.append(r)
            elif r.verdict == "UNDECIDED":
                undec.append(r)
        os.makedirs(os.path.join(EVIDENCE_DIR, "replay"), exist_ok=True)
        seen_known = set()
        for r, k in known_hits:
            if k["key"] not in seen_known:
                seen_known.add(k["key"])
                out_lines.append("KNOWN-FINDING: property=%s %s" % (self.pid, k.get("what", r.msg)))
        replay_paths = []
        for i, r in enumerate(viol):
            path = os.path.join(EVIDENCE_DIR, "replay", "%s-%d.json" % (self.pid, i))
            with open(path, "w") as f:
                json.dump({"property": self.pid, "tier": self.tier, "digest": self.program.digest, **r.as_dict()}, f, indent=1)
            replay_paths.append(path)
            out_lines.append("  rule=%s instance=%s site=%s: %s" % (r.rule, r.instance, r.site, r.msg))
            out_lines.append("VIOLATION property=%s replay=%s" % (self.pid, path))
        for r in undec:
            out_lines.append("UNDECIDED property=%s rule=%s instance=%s site=%s reason=%s" % (self.pid, r.rule, r.instance, r.site, r.msg))
        self.write_evidence(viol, undec, known_hits)
        for l in out_lines:
            print(l)
        npass = sum(1 for r in self.results if r.verdict == "PASS")
        print("%s %s: %d obligations, %d pass, %d violation, %d known, %d undecided (%.2fs)" % (
            self.pid, self.tier, len(self.results), npass, len(viol), len(known_hits), len(undec), time.time() - self.t0))
        if viol:
            return 1
        if undec:
            return 2
        return 0

    def write_evidence(self, viol, undec, known_hits):
        rules = {}
        for r in self.results:
            d = rules.setdefault(r.rule, {"instances": 0, "pass": 0, "violation": 0, "undecided": 0, "known": 0})
            d["instances"] += 1
            d[{"PASS": "pass", "VIOLATION": "violation", "UNDECIDED": "undecided", "KNOWN": "known"}[r.verdict]] += 1
        distinct = len({(r.rule, r.instance) for r in self.results if r.facts or r.site})
        samples = [r.as_dict() for r in self.results[:12]]
        samples += [r.as_dict() for r in self.results if r.verdict != "PASS"][:12]
        ev = {
            "property_id": self.pid,
            "tier": self.tier,
            "seed": int(os.environ.get("VERIF_SEED", "0") or 0),
            "level": "other",
            "coverage": {
                "explanation": "Static analysis of /repo/qucumber source (digest %s): every rule instance is an obligation "
                               "decided from the parsed program by abstract interpretation / CFG / term normal forms; "
                               "no library code is executed." % self.program.digest[:16],
                "obligations": len(self.results),
                "discharged": sum(1 for r in self.results if r.verdict == "PASS"),
                "evaluations": len(self.results),
                "distinct_nontrivial": distinct,
                "rule": "one evaluation per (rule, instance) pair; non-trivial = the engine inspected at least one "
                        "construct of the repository for it (has a site or derived facts)",
                "samples": samples,
                "rules": rules,
                "min_instance_counts": {k: {"found": v[0], "required": v[1]} for k, v in self.min_counts.items()},
                "program": self.program.stats(),
                "functions_analysed": sorted(self.analysed_functions)[:400],
                "undecided": [r.as_dict() for r in undec][:50],
                "known_findings_hit": [k["key"] for _, k in known_hits],
                "exhaustive": False,
            },
            "assumptions": self.assumptions,
            "wall_s": round(time.time() - self.t0, 3),
            "violations": len(viol),
        }
        ev["coverage"].update(self.extra)
        os.makedirs(EVIDENCE_DIR, exist_ok=True)
        with open(os.path.join(EVIDENCE_DIR, "%s.json" % self.pid), "w") as f:
            json.dump(ev, f, indent=1, default=str)


FLOAT_EXACT = {"C01", "C02", "C03", "C04", "C05", "C06", "C08", "C09", "C10", "C11", "C13", "C15", "C16", "C20"}


def _func_of_site(site):
    parts = (site or "").split(":")
    return parts[1] if len(parts) >= 2 else site


def load_known():
    if not os.path.isfile(KNOWN_FILE):
        return {"known": [], "fixed": []}
    with open(KNOWN_FILE) as f:
        return json.load(f)


def match_known(known, pid, key):
    for k in known.get("known", []):
        if k.get("property") == pid and k.get("key") == key:
            return k
    return None


def main(argv):
    import importlib

    if len(argv) >= 2 and argv[0] == "replay":
        with open(argv[1]) as f:
            d = json.load(f)
        pid, tier = d["property"], d.get("tier", "quick")
        only = (d["rule"], d["instance"])
    else:
        pid = argv[0]
        tier = "quick"
        if "--tier" in argv:
            tier = argv[argv.index("--tier") + 1]
        only = None
    tier = os.environ.get("VERIF_TIER") or tier
    if tier not in ("quick", "thorough"):
        tier = "quick"
    try:
        ck = Checker(pid, tier)
        mod = importlib.import_module("qsa.rules.%s" % pid.lower())
        from . import ctx as _ctx

        _ctx.SUSPICIOUS.clear()
        del _ctx.NARROWINGS[:]
        _ctx.NARROW_SEEN.clear()
        mod.run(ck)
        # float-width facet: on every path the rules of this property interpreted, no float64 value is squeezed through float32
        # (a staging buffer created without dtype, .float(), torch.Tensor(array), python floats stored without dtype).  A necessary
        # condition of every clause that promises an exact formula / bit-identical values for float64 data.
        if pid in FLOAT_EXACT:
            rule_fw = "%s.FW" % pid
            for site, what, tag in _ctx.NARROWINGS[:12]:
                ck.violation(rule_fw, "no float32 intermediate [%s]" % (tag or ""), site,
                             "%s: the values come out rounded to single precision (relative error ~6e-8 per value, amplified wherever a large constant part cancels), "
                             "not the float64 quantity the property names" % what, key="%s|%s" % (rule_fw, _func_of_site(site)))
            if not _ctx.NARROWINGS:
                ck.ok(rule_fw, "no float32 intermediate on the interpreted paths", "")
        # feasible paths that end in an error raised by the language itself (not by a `raise` statement): recorded as evidence;
        # the rules decide which of them are violations (several contexts provoke them on purpose)
        seen = {}
        for site, exc, msg, tag, implicit in _ctx.SUSPICIOUS:
            if implicit:
                seen.setdefault((site, exc), {"site": site, "error": exc, "message": msg[:120], "path": tag})
        ck.extra["implicit_error_paths"] = list(seen.values())[:20]
        from . import battery

        # (b) imported necessary conditions: rules of other properties this one relies on (every tier, also in replay)
        for modname, prefixes, *only_inst in battery.NEIGHBOURS.get(pid, []):
            has_inst = tuple(only_inst[1]) if len(only_inst) > 1 and only_inst[1] else None  # optionally: only instances that contain one of these
            only_inst = tuple(only_inst[0]) if only_inst and only_inst[0] else None  # optionally: only instances that start with one of these
            nb = Checker(pid, tier)
            nb.program = ck.program
            try:
                importlib.import_module("qsa.rules.%s" % modname).run(nb)
            except Exception as e:  # an imported rule set that cannot be evaluated leaves this property undecided
                ck.undecided(prefixes[0], "imported rules", "", "imported rules failed: %s" % e)
                continue
            for r in nb.results:
                if any(r.rule.startswith(px) for px in prefixes) and r.instance != "instance-count" and (only_inst is None or r.instance.startswith(only_inst)) and (has_inst is None or any(h_ in r.instance for h_ in has_inst)):
                    r.rule = "%s<-%s" % (pid, r.rule)
                    ck.results.append(r)
        if tier == "thorough" and only is None:
            from . import selftest

            # (c) self-validation of the checker on scratch copies
            selftest.thorough(ck, battery.VARIANTS.get(pid, []))
        if only is not None:
            ck.results = [r for r in ck.results if (r.rule, r.instance) == only]
            for r in ck.results:
                print(json.dumps(r.as_dict(), indent=1))
        return ck.finish()
    except Exception as e:  # never let a traceback look like a violation
        print("ANALYSIS-ERROR property=%s %s: %s" % (pid, type(e).__name__, e))
        traceback.print_exc()
        return 2
