"""Exchange parity of terms.

The exchange sigma swaps the two configuration arguments (symbols `a` <-> `b`) and the two
broadcast positions that carry them (unsqueeze at front-position 0 <-> 1).  For a matrix-valued
term M[i, j] = f(a_i, b_j) the image sigma(M)[i, j] equals f(b_j, a_i); hence
    re(M) == sigma(re(M))   and   im(M) == -sigma(im(M))
(as identities of normal forms) prove  f(x, y) = conj f(y, x)  for all x, y and all parameters.
"""
from . import terms as T


def exchange(term, a="v", b="vp", expanded=True):
    def fn(at):
        if isinstance(at, T.Sym):
            if at.name == a:
                return T.sym(b)
            if at.name == b:
                return T.sym(a)
            return None
        if expanded and isinstance(at, T.App) and at.op == "unsq" and len(at.args) >= 3 and at.args[2] is not None:
            x, ax, rk = at.args[0], at.args[1], at.args[2]
            pos = ax + rk
            if pos in (0, 1):
                return T.app("unsq", x, (1 - pos) - rk, rk)
        return None

    return T.subst(term, fn)


def classify(term, a="v", b="vp", expanded=True):
    """Return ('SYM'|'ANTI'|'MIXED'|'NEITHER', detail)."""
    img = exchange(term, a, b, expanded)
    if img == term:
        if term.is_zero():
            return "ZERO", None
        return "SYM", None
    if img == -term:
        return "ANTI", None
    # monomial-level diagnosis
    sym_part = []
    anti_part = []
    orphan = []
    for mono, c in term.terms.items():
        m = T.Poly({mono: T.Fraction(1)})
        im = exchange(m, a, b, expanded)
        sm = im.single_mono()
        if sm is None:
            orphan.append((m, "image is not a monomial"))
            continue
        imono, ic = sm
        c2 = term.terms.get(imono)
        if c2 is None:
            orphan.append((m, "no partner %r in the sum" % (im,)))
        elif c2 == c * ic:
            sym_part.append(m)
        elif c2 == -c * ic:
            anti_part.append(m)
        else:
            orphan.append((m, "partner has coefficient %s, expected +-%s" % (c2, c * ic)))
    if orphan:
        return "NEITHER", orphan
    if sym_part and anti_part:
        return "MIXED", (sym_part, anti_part)
    return "NEITHER", [(term, "not recognised")]


def describe(detail, limit=3):
    if detail is None:
        return ""
    if isinstance(detail, tuple):
        s, a = detail
        return "symmetric part %s ; antisymmetric part %s" % ([repr(x)[:160] for x in s[:limit]], [repr(x)[:160] for x in a[:limit]])
    return "; ".join("%s: %s" % (repr(m)[:200], why[:200]) for m, why in detail[:limit])
