"""Statement-level control-flow graph with dominators / post-dominators."""
import ast


class Node:
    def __init__(self, nid, kind, ast_node=None, label=""):
        self.id = nid
        self.kind = kind  # entry | exit | stmt | test | for | raise | return
        self.ast = ast_node
        self.label = label
        self.succ = []  # (node id, edge label)
        self.pred = []

    @property
    def lineno(self):
        return getattr(self.ast, "lineno", 0)

    def __repr__(self):
        return "<N%d %s L%d %s>" % (self.id, self.kind, self.lineno, self.label)


class CFG:
    def __init__(self, func_node, resolver=None, owner="", max_depth=3):
        """resolver(call_node, owner) -> (FunctionDef, owner name of the callee) | None: calls of the repository's own private
        helpers (`self._stage(...)`, `_helper(...)`) are *spliced* - the callee's statements become part of this graph, its
        returns continue after the call - so that a method split into stages is analysed like the unsplit one."""
        self.nodes = []
        self.func = func_node
        self.resolver = resolver
        self.max_depth = max_depth
        self._ctx = [(owner, (), None)]  # (owner function, inline instance path, call-site node id)
        self._rets = []  # return collectors of the callees being spliced
        self.entry = self._new("entry")
        self.exit = self._new("exit")
        self.raise_exit = self._new("raise")
        ends = self._block(func_node.body, [(self.entry.id, "next")], [], [])
        for e in ends:
            self._edge(e, self.exit.id)
        self._dom = None
        self._pdom = None

    def _new(self, kind, ast_node=None, label=""):
        n = Node(len(self.nodes), kind, ast_node, label)
        n.owner, n.inst, n.callsite = self._ctx[-1]
        self.nodes.append(n)
        return n

    def _spliceable(self, st):
        """(call node, FunctionDef, owner) when the statement is `[x =] helper(...)` / `return helper(...)` of a resolvable private helper."""
        if self.resolver is None or len(self._ctx) > self.max_depth:
            return None
        v = None
        if isinstance(st, ast.Expr):
            v = st.value
        elif isinstance(st, (ast.Assign, ast.AnnAssign, ast.AugAssign, ast.Return)):
            v = st.value
        if not isinstance(v, ast.Call):
            return None
        r = self.resolver(v, self._ctx[-1][0])
        if r is None:
            return None
        fdef, owner = r
        if any(owner == c[0] for c in self._ctx):
            return None  # recursion
        return v, fdef, owner

    def _edge(self, frm, to):
        src, lab = frm
        self.nodes[src].succ.append((to, lab))
        self.nodes[to].pred.append((src, lab))

    def _block(self, stmts, incoming, breaks, continues):
        """Wire a statement list; `incoming` = list of (node id, label) dangling edges.
        Returns the dangling edges after the block."""
        cur = incoming
        for st in stmts:
            if not cur:
                break  # unreachable
            cur = self._stmt(st, cur, breaks, continues)
        return cur

    def _stmt(self, st, incoming, breaks, continues):
        if isinstance(st, ast.If):
            n = self._new("test", st, ast.unparse(st.test))
            for e in incoming:
                self._edge(e, n.id)
            t = self._block(st.body, [(n.id, "T")], breaks, continues)
            f = self._block(st.orelse, [(n.id, "F")], breaks, continues) if st.orelse else [(n.id, "F")]
            return t + f
        if isinstance(st, (ast.For, ast.While)):
            n = self._new("for" if isinstance(st, ast.For) else "test", st, ast.unparse(st.iter) if isinstance(st, ast.For) else ast.unparse(st.test))
            for e in incoming:
                self._edge(e, n.id)
            my_breaks, my_continues = [], []
            body_end = self._block(st.body, [(n.id, "iter" if isinstance(st, ast.For) else "T")], my_breaks, my_continues)
            for e in body_end + my_continues:
                self._edge(e, n.id)
            done = [(n.id, "done" if isinstance(st, ast.For) else "F")]
            after_else = self._block(st.orelse, done, breaks, continues) if st.orelse else done
            return after_else + my_breaks
        if isinstance(st, ast.Break):
            n = self._new("stmt", st, "break")
            for e in incoming:
                self._edge(e, n.id)
            breaks.append((n.id, "break"))
            return []
        if isinstance(st, ast.Continue):
            n = self._new("stmt", st, "continue")
            for e in incoming:
                self._edge(e, n.id)
            continues.append((n.id, "continue"))
            return []
        sp = self._spliceable(st)
        if sp is not None:
            call, fdef, owner = sp
            n = self._new("stmt", st, "call " + ast.unparse(call.func))
            n.spliced = True
            for e in incoming:
                self._edge(e, n.id)
            self._ctx.append((owner, self._ctx[-1][1] + (n.id,), n.id))
            self._rets.append([])
            ends = self._block(fdef.body, [(n.id, "call")], [], [])
            cont = ends + self._rets.pop()
            self._ctx.pop()
            if isinstance(st, ast.Return):
                m = self._new("return", None, "return <spliced call>")
                for e in cont:
                    self._edge(e, m.id)
                if self._rets:
                    self._rets[-1].append((m.id, "return"))
                else:
                    self._edge((m.id, "return"), self.exit.id)
                return []
            return cont
        if isinstance(st, ast.Return):
            n = self._new("return", st, ast.unparse(st))
            for e in incoming:
                self._edge(e, n.id)
            if self._rets:
                self._rets[-1].append((n.id, "return"))  # a return inside a spliced callee continues after the call
            else:
                self._edge((n.id, "return"), self.exit.id)
            return []
        if isinstance(st, ast.Raise):
            n = self._new("raise", st, ast.unparse(st)[:60])
            for e in incoming:
                self._edge(e, n.id)
            self._edge((n.id, "raise"), self.raise_exit.id)
            return []
        if isinstance(st, ast.With):
            n = self._new("stmt", st, "with " + ", ".join(ast.unparse(i.context_expr) for i in st.items))
            n.with_header = True
            for e in incoming:
                self._edge(e, n.id)
            return self._block(st.body, [(n.id, "next")], breaks, continues)
        if isinstance(st, ast.Try):
            n = self._new("stmt", st, "try")
            n.try_header = True
            for e in incoming:
                self._edge(e, n.id)
            body_end = self._block(st.body, [(n.id, "next")], breaks, continues)
            ends = list(body_end)
            if st.orelse:
                ends = self._block(st.orelse, body_end, breaks, continues)
            for h in st.handlers:
                # any statement of the body may raise: over-approximate by an edge from the header
                ends += self._block(h.body, [(n.id, "exc")], breaks, continues)
            if st.finalbody:
                ends = self._block(st.finalbody, ends, breaks, continues)
            return ends
        n = self._new("stmt", st, ast.unparse(st)[:80])
        for e in incoming:
            self._edge(e, n.id)
        return [(n.id, "next")]

    # ------------------------------------------------------------------ dominators
    def _dominators(self, forward=True):
        n = len(self.nodes)
        start = [self.entry.id] if forward else [self.exit.id, self.raise_exit.id]
        allset = set(range(n))
        dom = {i: set(allset) for i in range(n)}
        for s in start:
            dom[s] = {s}
        changed = True
        while changed:
            changed = False
            for node in self.nodes:
                if node.id in start:
                    continue
                preds = [p for p, _ in (node.pred if forward else node.succ)]
                if not preds:
                    new = {node.id}
                else:
                    new = set.intersection(*[dom[p] for p in preds]) | {node.id}
                if new != dom[node.id]:
                    dom[node.id] = new
                    changed = True
        return dom

    def dom(self):
        if self._dom is None:
            self._dom = self._dominators(True)
        return self._dom

    def pdom(self):
        if self._pdom is None:
            self._pdom = self._dominators(False)
        return self._pdom

    def dominates(self, a, b):
        return a in self.dom()[b]

    def reachable(self):
        seen = {self.entry.id}
        st = [self.entry.id]
        while st:
            x = st.pop()
            for y, _ in self.nodes[x].succ:
                if y not in seen:
                    seen.add(y)
                    st.append(y)
        return seen

    def nodes_for_line(self, line):
        return [n for n in self.nodes if n.ast is not None and getattr(n.ast, "lineno", -1) <= line <= getattr(n.ast, "end_lineno", -1)
                and n.kind in ("stmt", "return", "raise")]

    def enclosing_loops(self, nid):
        """For-loop header nodes whose body contains node nid (innermost last)."""
        out = []
        target = self.nodes[nid]
        for n in self.nodes:
            if n.kind == "for" and n.ast is not None and target.ast is not None and n.id != nid and n.inst == target.inst:
                body = n.ast.body
                if body and body[0].lineno <= target.lineno <= body[-1].end_lineno:
                    out.append(n)
        out.sort(key=lambda x: x.lineno)
        if target.callsite is not None:
            out = self.enclosing_loops(target.callsite) + out  # loops around the call that was spliced
        return out


def calls_in(node):
    """Call expressions evaluated by a CFG node (header expressions only for compound statements),
    in evaluation order (approximately: post-order)."""
    a = node.ast
    if a is None:
        return []
    if getattr(node, "spliced", False):
        # the spliced call itself is not an event of its own; its arguments are evaluated here
        v = a.value
        a = ast.Expr(value=ast.Tuple(elts=list(v.args) + [k.value for k in v.keywords], ctx=ast.Load()))
    roots = []
    if node.kind == "test":
        roots = [a.test]
    elif node.kind == "for":
        roots = [a.iter]
    elif getattr(node, "with_header", False):
        roots = [i.context_expr for i in a.items]
    elif getattr(node, "try_header", False):
        roots = []
    else:
        roots = [a]
    out = []

    def visit(x):
        for c in ast.iter_child_nodes(x):
            if isinstance(c, (ast.Lambda, ast.FunctionDef)):
                continue
            visit(c)
        if isinstance(x, ast.Call):
            out.append(x)

    for r in roots:
        visit(r)
    return out
