"""Abstract interpreter over the program model.

One forward evaluator with several facets per value: kind, symbolic shape, term (normal form),
storage identity (for alias/effect facts).  Calls into the repository are inlined
(context-sensitive); calls to torch / numpy / builtins go through the op tables in ops.py.
Branches whose condition is not decided by constant propagation are partitioned: the evaluation is
repeated with the other outcome (no feasibility reasoning, no solver).  Loops over concrete finite
iterables are unrolled; other loops are summarised by a first and a generic iteration.
"""
import ast
import os
from fractions import Fraction

from . import terms as T
from .model import ClassInfo, FuncInfo, AnalysisError
from .values import *  # noqa: F401,F403
from .values import (
    V, VConst, VNum, VTens, VList, VTuple, VDict, VObj, VFunc, VClass, VExt, VModule, VBound,
    VSuper, VUnknown, VSlice, VRange, VIter, TObj, ListObj, DictObj, Instance, Effect,
    Unsupported, ShapeMismatch, num_term, const_of, UNK,
)


class ReturnEx(Exception):
    def __init__(self, value):
        self.value = value


class BreakEx(Exception):
    pass


class ContinueEx(Exception):
    pass


class RaiseEx(Exception):
    """The analysed code raises."""

    def __init__(self, exc_name, site, msg="", definite_bug=False):
        super().__init__("%s at %s: %s" % (exc_name, site, msg))
        self.exc_name = exc_name
        self.site = site
        self.msg = msg
        self.definite_bug = definite_bug  # e.g. attribute that cannot resolve


class PathBudget(Exception):
    pass


class GenStop(Exception):
    """The consumer of a generator left its loop: the generator is closed."""


class Frame:
    def __init__(self, func, module, env, self_cls=None, closure=None):
        self.func = func
        self.module = module
        self.env = env
        self.self_cls = self_cls
        self.closure = closure

    def lookup(self, name):
        if name in self.env:
            return self.env[name]
        f = self.closure
        while f is not None:
            if name in f.env:
                return f.env[name]
            f = f.closure
        return None


BUILTINS = {
    "len", "int", "float", "bool", "str", "list", "tuple", "dict", "set", "range", "enumerate", "zip",
    "isinstance", "hasattr", "getattr", "setattr", "min", "max", "abs", "sum", "print", "callable",
    "reversed", "sorted", "iter", "next", "super", "type", "repr", "all", "any", "open", "round",
    "ValueError", "TypeError", "RuntimeError", "KeyError", "AttributeError", "NotImplementedError",
    "ResourceWarning", "DeprecationWarning", "Exception", "ZeroDivisionError", "complex", "slice",
    "object", "map", "filter", "frozenset", "divmod", "pow", "id", "IndexError", "StopIteration",
    "AssertionError", "UserWarning", "RuntimeWarning", "format", "vars", "dir", "hash", "issubclass", "property",
}


class _Logged(list):
    """ext-call log that also feeds the chronological timeline."""

    def __init__(self, it):
        super().__init__()
        self._it = it

    def append(self, rec):
        super().append(rec)
        self._it.timeline.append(("ext", rec[0], rec))


_BOOL_OPS = {"tensor_equal", "tensor_allclose", "any", "all", "lnot", "isinstance", "land", "lor", "is_", "contains"}


def _cond_key(term):
    """Canonical key of a boolean term and whether the term is the key's negation: x != y is not(x == y),
    x <= y is not(x > y), x < y is y > x, x >= y is not(y > x)."""
    at = term.single_atom() if hasattr(term, "single_atom") else None
    if at is not None and isinstance(at, T.App) and len(at.args) == 2:
        a, b = at.args
        if at.op in ("cmp_Eq", "cmp_NotEq") and (a == T.ZERO or b == T.ZERO):
            # truthiness of a symbolic *boolean* x: (x != 0) is x itself, (x == 0) its negation
            x = b if a == T.ZERO else a
            xa = x.single_atom() if hasattr(x, "single_atom") else None
            if isinstance(xa, T.App) and (xa.op.startswith("cmp_") or xa.op in _BOOL_OPS):
                k2, f2 = _cond_key(x) if xa.op.startswith("cmp_") else (("t", x), False)
                return k2, f2 != (at.op == "cmp_Eq")
        if at.op in ("cmp_Eq", "cmp_NotEq"):
            a, b = sorted((a, b), key=repr)
            return ("eq", a, b), at.op == "cmp_NotEq"
        if at.op == "cmp_Gt":
            return ("gt", a, b), False
        if at.op == "cmp_LtE":
            return ("gt", a, b), True
        if at.op == "cmp_Lt":
            return ("gt", b, a), False
        if at.op == "cmp_GtE":
            return ("gt", b, a), True
    return ("t", term), False


class Interp:
    MAX_DEPTH = 14

    def __init__(self, program, decisions=None, max_unroll=12):
        self.program = program
        self.decisions = list(decisions or [])
        self.taken = []  # outcomes of undecided branches, in order
        self.conds = []  # (site, description, outcome)
        self.effects = []
        self.calls = []  # (qualname, args, kwargs, site, result)
        self.ext_calls = _Logged(self)  # (name, args, kwargs, site, result)
        self.timeline = []  # chronological ("call"|"ext", name, record)
        self.numeric = []  # (site, idiom, argument, call stack): floating-point hazards of algebraically valid rewrites
        self.interop = []  # (site, ndarray value, index tensor): numpy array indexed by a torch tensor whose length may be 1
        self._effects_seen = False
        self._written_in_op = set()
        self._read_first = set()
        self.read_before_write = set()  # (id(instance), attribute): read in the current operation before the operation (re)assigned it
        self.exhausted = []  # (site, kind, call stack) of every loop over an iterator object that an earlier loop already consumed
        self.reductions = []  # (site, op, reduced dimension symbols, call stack) of every sum / mean / ... over known axes
        self.gen_consumers = []  # scopes of loops that are being fed by a running generator (their names are loop-carried too)
        self.yield_handlers = []  # (index of the first generator frame, callback) of the generators that are running
        self.decorated = {}  # id(FuncInfo) -> callable produced by applying its unmodelled decorators (once per run)
        self.stores = []  # (written tensor object, stored value, site) of every subscript store into a tensor
        self.call_ast = {}  # resolved callee name -> ast.Call nodes that invoked it (identity of the program model's nodes)
        self.stack = []
        self.frames = []
        self.max_unroll = max_unroll
        self.module_consts = {}
        self.notes = []
        self.shape_errors = []
        self.loops = []  # loop summaries
        self.unresolved = []
        self.all_tobjs = []
        self.all_lists = []
        self.all_dicts = []
        self.all_insts = []
        self.assume = {}  # tag -> bool for conditions the context fixes
        self.strict_shapes = True
        self._last_comp_iter = None
        self.narrowings = []  # (site, what, TObj): float64 values squeezed into float32
        self.sticky = False  # one outcome per branch site per path (coarser partition, fewer paths)
        self.sticky_memo = {}
        self.term_memo = {}
        self.stubs = {}  # qualname -> fn(interp, func, args, kwargs, node) -> V
        from . import ops

        self.ops = ops

    # ------------------------------------------------------------------ helpers
    def site(self, node=None):
        f = self.frames[-1].func if self.frames else None
        mod = self.frames[-1].module if self.frames else None
        ln = getattr(node, "lineno", 0) if node is not None else 0
        if f is not None:
            return "%s:%s:%d" % (mod.relpath, f.qualname, ln)
        if mod is not None:
            return "%s:<module>:%d" % (mod.relpath, ln)
        return "<entry>:%d" % ln

    def cur_qual(self):
        return self.frames[-1].func.qualname if self.frames and self.frames[-1].func else "<module>"

    def new_tobj(self, kind, term, shape, origin="fresh", node=None):
        o = TObj(kind, term, shape, origin, self.site(node))
        self.all_tobjs.append(o)
        return o

    def fresh(self, term, shape, kind="tensor", node=None, valkind=None):
        o = self.new_tobj(kind, term, shape, "fresh", node)
        o.valkind = valkind
        return VTens(o)

    def new_list(self, items, origin="fresh"):
        o = ListObj(items, origin)
        self.all_lists.append(o)
        return VList(o)

    def new_dict(self, items, origin="fresh"):
        o = DictObj(items, origin)
        self.all_dicts.append(o)
        return VDict(o)

    def _op_tick(self):
        """The effect log is cleared by a rule right before the operation it examines: the first event after that starts a new
        'operation' for the read-before-write bookkeeping of instance attributes."""
        if not self.effects:
            if self._effects_seen:
                self._effects_seen = False
                self._written_in_op = set()
                self._read_first = set()
                self.read_before_write = set()
        else:
            self._effects_seen = True

    def effect(self, kind, obj, node, detail=""):
        self._op_tick()
        origins = set()
        if isinstance(obj, TObj):
            for r in obj.roots():
                origins.add(r.origin)
        elif isinstance(obj, (ListObj, DictObj, Instance)):
            origins.add(obj.origin)
        elif isinstance(obj, str):
            origins.add(obj)
        e = Effect(kind, obj, frozenset(origins), self.site(node), self.cur_qual(), detail, tuple(self.stack))
        e.lines = tuple((fr.func.qualname, getattr(fr, "cur_line", 0)) for fr in self.frames if fr.func is not None)
        self.effects.append(e)
        return e

    def note_node(self, name, node):
        if node is not None:
            l = self.call_ast.setdefault(name, [])
            if not any(x is node for x in l):
                l.append(node)

    def decide(self, known, node, desc="", value=None):
        """known: True/False/None.  Unknown -> consult the decision vector."""
        if known is not None:
            return bool(known)
        skey = None
        if isinstance(value, VNum) and value.kind != "bool" and value.term is not None:
            value = VNum("bool", T.app("cmp_NotEq", value.term, T.ZERO))  # truthiness of a number
        if self.sticky:
            skey = (self.site(node), desc or (ast.unparse(node) if node is not None else "?"))
            ops_ = getattr(value, "operands", None)
            if ops_ is not None and getattr(value, "tag", None) in ("cmp", "shape-eq") and all(isinstance(o_, VTuple) for o_ in ops_):
                # an equality test of two values: asked of other values (the kept key against the key of a later call) it is
                # another question, not the same branch taken again
                skey = skey + (("values", id(ops_[0]), id(ops_[1])),)
            if self.sticky == "term" and isinstance(value, VNum) and value.term is not None:
                # finer partition: the same branch site asked about a *different value* (another matrix, another row) is another decision
                skey = skey + (_cond_key(value.term)[0],)
            if skey in self.sticky_memo:
                out = self.sticky_memo[skey]
                # the same branch site asked about another value: the path takes the same outcome for it, and says so (its
                # condition list and term memo must know what was assumed, or facts about the second value would be missing)
                if isinstance(value, VNum) and value.term is not None and not any("?" in s_ for s_ in value.term.syms()):
                    tk, fl = _cond_key(value.term)
                    if tk not in self.term_memo:
                        self.term_memo[tk] = out != fl
                        self.conds.append((self.site(node), desc or (ast.unparse(node) if node is not None else "?"), out, value))
                    elif (self.term_memo[tk] != fl) != out:
                        return self.term_memo[tk] != fl  # already decided otherwise for this very value: terms are pure values
                return out
        # a condition whose value is a term already decided on this path has the same outcome (terms are pure
        # values); generic unknowns ('?') are not identities and are never memoised
        tkey = None
        if isinstance(value, VNum) and value.term is not None and not any("?" in s for s in value.term.syms()):
            tkey, flip = _cond_key(value.term)
            if tkey in self.term_memo:
                out = self.term_memo[tkey] != flip
                if skey is not None:
                    self.sticky_memo[skey] = out
                self.conds.append((self.site(node), desc or (ast.unparse(node) if node is not None else "?"), out, value))
                return out
        k = len(self.taken)
        if k < len(self.decisions):
            out = self.decisions[k]
        else:
            out = True
        self.taken.append(out)
        if tkey is not None:
            self.term_memo[tkey] = out != flip
        if skey is not None:
            self.sticky_memo[skey] = out
        self.conds.append((self.site(node), desc or (ast.unparse(node) if node is not None else "?"), out, value))
        if len(self.taken) > 40:
            raise PathBudget("too many undecided branches on one path")
        return out

    # ------------------------------------------------------------------ truthiness
    def truth(self, v):
        if isinstance(v, VConst):
            try:
                return bool(v.value)
            except Exception:
                return None
        if isinstance(v, VNum):
            c = v.term.const_value() if v.term is not None else None
            if c is not None:
                return c != 0
            if v.pos:
                return True
            return None
        if isinstance(v, VList):
            if v.obj.items is not None:
                return len(v.obj.items) > 0
            if getattr(v.obj, "nonempty", False):
                return True
            return None
        if isinstance(v, VTuple):
            return len(v.items) > 0
        if isinstance(v, VIter):
            return len(v.items) > 0
        if isinstance(v, VDict):
            if v.obj.items:
                return True
            if v.obj.items is not None and not v.obj.extra_unknown:
                return False
            return None
        if isinstance(v, VObj):
            inst = v.inst
            if inst.cls is not None and inst.cls.find_method("__len__") is not None:
                r = self.call_method(v, "__len__", [], {}, None)
                return self.truth(r)
            if inst.cls is None and inst.ext:
                if inst.attrs.get("__maybe_falsy__"):
                    return None
                return True
            return True
        if isinstance(v, (VFunc, VClass, VExt, VModule, VBound)):
            return True
        return None

    # ------------------------------------------------------------------ module constants
    def module_const(self, mod, name, expr):
        key = (mod.name, name)
        if key not in self.module_consts:
            fr = Frame(None, mod, {})
            self.frames.append(fr)
            try:
                v = self.eval(expr)
            finally:
                self.frames.pop()
            if isinstance(v, VTens) and v.obj.origin == "fresh":
                v.obj.origin = "global:%s.%s" % (mod.short, name)
            self.module_consts[key] = v
        return self.module_consts[key]

    def from_resolution(self, r, name="?"):
        if r is None:
            return None
        k, x = r
        if k == "module":
            return VModule(x)
        if k == "class":
            return VClass(x)
        if k == "func":
            return VFunc(x)
        if k == "ext":
            return VExt(x)
        if k == "const":
            mod, expr = x
            return self.module_const(mod, name, expr)
        return None

    def lookup_name(self, name, node=None):
        fr = self.frames[-1]
        v = fr.lookup(name)
        if v is not None:
            return v
        owner = getattr(fr, "class_owner", None)
        if owner is not None and name in owner.class_attrs:
            # the body of a class sees the names bound earlier in that body
            return self.class_attr_value(owner, name, owner.class_attrs[name])
        mod = fr.module
        if (mod.name, name) in self.module_consts:
            return self.module_consts[(mod.name, name)]  # a module binding, possibly re-assigned through `global`
        r = self.program.resolve_in_module(mod, name)
        if r is not None:
            return self.from_resolution(r, name)
        if name in BUILTINS:
            return VExt("builtins." + name)
        if name == "__name__":
            return VConst(getattr(mod, "name", None) or getattr(mod, "dotted", None) or "qucumber")
        if name in ("__file__", "__doc__", "__package__"):
            return VUnknown(name, "str")
        raise Unsupported("unbound name %s" % name, node, self.site(node))

    # ------------------------------------------------------------------ statements
    def exec_block(self, stmts):
        for st in stmts:
            self.exec_stmt(st)

    def exec_stmt(self, st):
        self.frames[-1].cur_line = getattr(st, "lineno", 0)
        m = getattr(self, "st_" + type(st).__name__, None)
        if m is None:
            raise Unsupported("statement %s" % type(st).__name__, st, self.site(st))
        return m(st)

    def st_Pass(self, st):
        pass

    def st_Expr(self, st):
        if isinstance(st.value, ast.Constant):
            return
        self.eval(st.value)

    def st_Return(self, st):
        raise ReturnEx(self.eval(st.value) if st.value is not None else VConst(None))

    def st_Break(self, st):
        raise BreakEx()

    def st_Continue(self, st):
        raise ContinueEx()

    def st_Global(self, st):
        # names declared global in this function: reads and writes go to the module's binding, which lives as long as the
        # interpretation (a value stored by one call is what the next call finds)
        fr = self.frames[-1]
        g = fr.__dict__.setdefault("global_names", set())
        g.update(st.names)
        for n in st.names:
            fr.env.pop(n, None)

    def st_Import(self, st):
        for a in st.names:
            self.frames[-1].env[a.asname or a.name.split(".")[0]] = VExt(a.name)

    def st_ImportFrom(self, st):
        for a in st.names:
            self.frames[-1].env[a.asname or a.name] = VExt((st.module or "") + "." + a.name)

    def st_FunctionDef(self, st):
        fi = FuncInfo(st.name, st, self.frames[-1].module, None)
        fi.decorators = [("other", ast.unparse(d)) for d in st.decorator_list]
        # defaults of a nested function are evaluated when the def statement runs, in the enclosing scope
        fi.default_values = {}
        for pn, dn in fi.defaults.items():
            try:
                fi.default_values[pn] = self.eval(dn)
            except Unsupported:
                pass
        self.frames[-1].env[st.name] = VFunc(fi, closure=self.frames[-1])

    def st_Assert(self, st):
        c = self.eval(st.test)
        ok = self.decide(self.truth(c), st.test, "assert " + ast.unparse(st.test))
        if not ok:
            raise RaiseEx("AssertionError", self.site(st), ast.unparse(st.test))

    def st_Raise(self, st):
        name = "Exception"
        msg = ""
        if st.exc is not None:
            e = st.exc
            if isinstance(e, ast.Call):
                name = ast.unparse(e.func)
                try:
                    msg = ast.unparse(e.args[0]) if e.args else ""
                except Exception:
                    msg = ""
                # evaluate args for effects (format strings etc.) but ignore failures
            else:
                name = ast.unparse(e)
        raise RaiseEx(name, self.site(st), msg)

    def st_Delete(self, st):
        for t in st.targets:
            if isinstance(t, ast.Subscript):
                base = self.eval(t.value)
                self.container_mutation(base, t, "del")
            elif isinstance(t, ast.Name):
                self.frames[-1].env.pop(t.id, None)
            else:
                raise Unsupported("del target", t, self.site(t))

    def st_If(self, st):
        c = self.eval(st.test)
        if self.decide(self.truth(c), st.test, value=c):
            self.exec_block(st.body)
        else:
            self.exec_block(st.orelse)

    def st_With(self, st):
        self._with_items(st, 0)

    def _with_items(self, st, k):
        if k == len(st.items):
            self.exec_block(st.body)
            return
        item = st.items[k]
        v = self.eval(item.context_expr)
        if isinstance(v, VGen) and any((isinstance(d, ast.Name) and d.id == "contextmanager") or (isinstance(d, ast.Attribute) and d.attr == "contextmanager")
                                       for d in getattr(v.fv.func.node, "decorator_list", [])):
            # @contextmanager: the generator runs up to its yield, the body of the `with` runs with the yielded value, then the
            # generator is resumed (its clean-up code after the yield)
            def on_yield(val):
                if item.optional_vars is not None:
                    self.assign(item.optional_vars, val, st)
                self._with_items(st, k + 1)

            self.run_generator(v, on_yield, st, scope={"env": self.frames[-1].env, "names": _assigned_names(st.body), "body": st.body})
            return
        if item.optional_vars is not None:
            self.assign(item.optional_vars, v, st)
        self._with_items(st, k + 1)

    def st_Try(self, st):
        try:
            self.exec_block(st.body)
        except RaiseEx as e:
            for h in st.handlers:
                hn = ast.unparse(h.type) if h.type is not None else None
                if hn is None or hn == e.exc_name or hn in ("Exception", "BaseException") or (
                    isinstance(h.type, ast.Tuple) and e.exc_name in [ast.unparse(x) for x in h.type.elts]
                ):
                    if h.name:
                        self.frames[-1].env[h.name] = VUnknown("exc", "exception")
                    self.exec_block(h.body)
                    break
            else:
                self.exec_block(st.finalbody)
                raise
        else:
            self.exec_block(st.orelse)
        self.exec_block(st.finalbody)

    def st_Assign(self, st):
        v = self.eval(st.value)
        for t in st.targets:
            self.assign(t, v, st)

    def st_AnnAssign(self, st):
        if st.value is not None:
            self.assign(st.target, self.eval(st.value), st)

    def st_AugAssign(self, st):
        t = st.target
        cur = self.eval(_load(t))
        rhs = self.eval(st.value)
        # in-place semantics for tensors / arrays / lists
        if isinstance(cur, VTens):
            new = self.ops.binop(self, type(st.op).__name__, cur, rhs, st)
            nt = new.term if isinstance(new, VTens) else None
            self.write(cur, nt, st, "augassign %s" % type(st.op).__name__, newshape=None, src=rhs if isinstance(rhs, VTens) else None)
            return
        if isinstance(cur, VList) and isinstance(st.op, ast.Add):
            self.container_mutation(cur, st, "list +=")
            if cur.obj.items is not None and isinstance(rhs, (VList,)) and rhs.obj.items is not None:
                cur.obj.items.extend(rhs.obj.items)
            else:
                cur.obj.items = None
            return
        new = self.ops.binop(self, type(st.op).__name__, cur, rhs, st)
        self.assign(t, new, st)

    def assign(self, target, v, node):
        if isinstance(target, ast.Name):
            fr_ = self.frames[-1]
            if target.id in getattr(fr_, "global_names", ()):
                self.module_consts[(fr_.module.name, target.id)] = v
                self.effect("setattr", "module:" + fr_.module.name, node, "global " + target.id)
                return
            fr_.env[target.id] = v
        elif isinstance(target, (ast.Tuple, ast.List)):
            items = self.unpack(v, len(target.elts), node)
            for t, x in zip(target.elts, items):
                self.assign(t, x, node)
        elif isinstance(target, ast.Attribute):
            base = self.eval(target.value)
            self.set_attr(base, target.attr, v, node)
        elif isinstance(target, ast.Subscript):
            base = self.eval(target.value)
            self.store_subscript(base, target, v, node)
        elif isinstance(target, ast.Starred):
            raise Unsupported("starred assignment", node, self.site(node))
        else:
            raise Unsupported("assignment target %s" % type(target).__name__, node, self.site(node))

    def unpack(self, v, n, node):
        if isinstance(v, VTuple):
            if len(v.items) != n:
                raise RaiseEx("ValueError", self.site(node), "unpack %d into %d" % (len(v.items), n), True)
            return list(v.items)
        if isinstance(v, VList) and v.obj.items is not None:
            if len(v.obj.items) != n:
                raise RaiseEx("ValueError", self.site(node), "unpack", True)
            return list(v.obj.items)
        if isinstance(v, VIter):
            if len(v.items) != n:
                raise RaiseEx("ValueError", self.site(node), "unpack", True)
            return list(v.items)
        if isinstance(v, VUnknown):
            return [VUnknown("%s[%d]" % (v.tag, i), "unknown", v.origin) for i in range(n)]
        if isinstance(v, VTens):
            return [self.ops.index_tensor(self, v, [VConst(i)], node) for i in range(n)]
        raise Unsupported("unpack of %r" % (v,), node, self.site(node))

    # ------------------------------------------------------------------ loops
    def st_While(self, st):
        """Concrete unrolling: the test is evaluated before every iteration; an iteration whose test the analyser cannot evaluate
        is a decision of its own (first time, second time, ...), at most MAX_WHILE_UNKNOWN of them, and the loop must end within
        max_unroll * 4 iterations - otherwise the path is outside the analyser's vocabulary (never a silent truncation)."""
        n = unknown = 0
        while True:
            cv = self.eval(st.test)
            known = self.truth(cv)
            if known is None:
                unknown += 1
                if unknown > 3:
                    raise Unsupported("while loop whose test stays undecidable", st, self.site(st))
                go = self.decide(None, st.test, "%s [iteration %d]" % (ast.unparse(st.test)[:40], n), value=cv)
            else:
                go = known
            if not go:
                self.exec_block(st.orelse)
                return
            n += 1
            if n > self.max_unroll * 4:
                raise Unsupported("while loop not finished after %d iterations" % n, st, self.site(st))
            try:
                self.exec_block(st.body)
            except BreakEx:
                return
            except ContinueEx:
                continue

    def st_For(self, st):
        it = self.eval(st.iter)
        if getattr(it, "one_shot", False):
            # zip(...) / map(...) objects are iterators: a second loop over the same object finds it exhausted
            root = it
            while getattr(root, "wraps", None) is not None:
                root = root.wraps  # enumerate(z): walking it walks z
            if root is not it:
                if getattr(root, "consumed", False):
                    it.consumed = True
                root.consumed = True
            if getattr(it, "consumed", False):
                self.exhausted.append((self.site(st), getattr(it, "tag", "iterator"), tuple(self.stack)))
                self.exec_block(st.orelse)
                return
            it.consumed = True
        if isinstance(it, VGen):
            # the generator's body runs here; every yield executes this loop's body in this loop's frame
            broke = []

            def on_yield(v):
                self.assign(st.target, v, st)
                try:
                    self.exec_block(st.body)
                except ContinueEx:
                    pass
                except BreakEx:
                    broke.append(True)
                    raise GenStop()

            self.run_generator(it, on_yield, st, scope={"env": self.frames[-1].env, "names": _assigned_names(st.body) | _target_names(st.target), "body": st.body})
            if not broke:
                self.exec_block(st.orelse)
            return
        items = self.concrete_items(it)
        if items is not None and len(items) <= (64 if isinstance(it, (VList, VTuple)) else self.max_unroll):  # an enumerated list / tuple: like a comprehension over it
            broke = False
            for x in items:
                self.assign(st.target, x, st)
                try:
                    self.exec_block(st.body)
                except BreakEx:
                    broke = True
                    break
                except ContinueEx:
                    continue
            if not broke:
                self.exec_block(st.orelse)
            return
        zs = getattr(it, "sources", None) if isinstance(it, VUnknown) and it.tag == "zip" else None
        if zs and len(zs) > 1:
            conc = [(k, self.concrete_items(s_)) for k, s_ in enumerate(zs) if not self.endless_iterator(s_)]
            if len(conc) == 1 and conc[0][1] is not None and len(conc[0][1]) <= self.max_unroll and all(self.endless_iterator(s_) for k, s_ in enumerate(zs) if k != conc[0][0]):
                # an enumerated source zipped with iterator objects that never end: as many iterations as the source has items
                kf, items_ = conc[0]
                broke = False
                for n_it, x in enumerate(items_):
                    if n_it >= 2 and any(isinstance(s_, VUnknown) and getattr(s_, "elem", None) is None for k, s_ in enumerate(zs) if k != kf):
                        raise Unsupported("zip with an endless source whose later elements are not modelled", st, self.site(st))
                    tup = [x if k == kf else self.loop_elem(s_, n_it == 0, st) for k, s_ in enumerate(zs)]
                    self.assign(st.target, VTuple(tup), st)
                    try:
                        self.exec_block(st.body)
                    except BreakEx:
                        broke = True
                        break
                    except ContinueEx:
                        continue
                if not broke:
                    for s_ in zs[:kf]:
                        self.loop_elem(s_, False, st)  # asked once more before the enumerated source ended the loop
                    self.exec_block(st.orelse)
                return
        self.summarise_loop(st, it)
        # zip() asks its sources from left to right and stops at the first that is exhausted: an iterator object standing to
        # the left of the source that ends the loop has by then been advanced once more
        srcs = getattr(it, "sources", None) if isinstance(it, VUnknown) and it.tag == "zip" else None
        if srcs:
            fin = [k for k, s_ in enumerate(srcs) if not self.endless_iterator(s_)]
            if fin:
                for s_ in srcs[:fin[0]]:
                    if self.endless_iterator(s_):
                        self.loop_elem(s_, False, st)

    def endless_iterator(self, v):
        """An object following the iterator protocol whose __next__ never raises (StopIteration): it ends no loop."""
        if isinstance(v, VUnknown) and getattr(v, "endless", False):
            return True  # itertools.repeat(x), chain(..., repeat(x)), count()
        if not isinstance(v, VObj) or v.inst.cls is None:
            return False
        nx = v.inst.cls.find_method("__next__")
        return nx is not None and v.inst.cls.find_method("__iter__") is not None and not any(isinstance(n, ast.Raise) for n in ast.walk(nx.node))

    def run_generator(self, gen, on_yield, node, scope=None):
        if gen.started:
            return  # an exhausted (or partly consumed) generator yields nothing more in this model
        gen.started = True
        func = gen.fv.func
        base = len(self.frames)
        self.frames.append(Frame(func, func.module, gen.env, self_cls=func.cls, closure=gen.fv.closure))
        self.stack.append(func.qualname)
        self.yield_handlers.append((base, on_yield, scope))
        try:
            try:
                self.exec_block(func.node.body)
            except (ReturnEx, GenStop):
                pass
        finally:
            self.yield_handlers.pop()
            self.stack.pop()
            del self.frames[base:]

    def ev_Yield(self, node):
        if not self.yield_handlers:
            raise Unsupported("yield outside a generator that is being consumed", node, self.site(node))
        v = self.eval(node.value) if node.value is not None else VConst(None)
        base, handler, _scope = self.yield_handlers[-1]
        saved = self.frames[base:]
        del self.frames[base:]
        saved_handlers = self.yield_handlers
        self.yield_handlers = saved_handlers[:-1]  # the consumer runs outside this generator
        try:
            handler(v)
        finally:
            self.yield_handlers = saved_handlers
            self.frames.extend(saved)
        return VConst(None)

    def concrete_items(self, it):
        if isinstance(it, VIter):
            return it.items
        if isinstance(it, VList):
            return it.obj.items
        if isinstance(it, VTuple):
            return list(it.items)
        if isinstance(it, VRange):
            ok1, a = const_of(it.start)
            ok2, b = const_of(it.stop)
            ok3, c = const_of(it.step)
            if ok1 and ok2 and ok3 and isinstance(a, int) and isinstance(b, int) and isinstance(c, int) and c != 0:
                return [VConst(i) for i in range(a, b, c)]
            return None
        if isinstance(it, VDict):
            if it.obj.items is not None and not it.obj.extra_unknown:
                return [_key_value(k) for k in it.obj.items.keys()]
            return None
        if isinstance(it, VConst) and isinstance(it.value, str):
            return [VConst(ch) for ch in it.value]
        return None

    def loop_elem(self, it, first, st):
        """Abstract element of a non-concrete iterable; `first` selects the first-iteration value."""
        sid = "%s" % (self.site(st),)
        if isinstance(it, VRange):
            ok1, a = const_of(it.start)
            ok3, c = const_of(it.step)
            if first:
                return it.start
            t0 = num_term(it.start)
            nonneg = ok1 and ok3 and a is not None and a >= 0 and c is not None and c > 0
            v = VNum("int", T.sym("i@%s" % sid), pos=bool(nonneg and True), nonneg=bool(nonneg))
            v.origin = ("loopvar", sid, it)
            return v
        if isinstance(it, VIter) or isinstance(it, VList) or isinstance(it, VTuple):
            items = self.concrete_items(it)
            if items:
                return items[0] if first else VUnknown("elem@%s" % sid, "unknown")
        if isinstance(it, VList) and it.obj.elem is not None:
            el, ci = it.obj.elem, getattr(it.obj, "comp_iter", None)
            if (isinstance(el, VTens) and el.term is not None and isinstance(ci, tuple) and ci and ci[0] == "range" and ci[1] == T.ZERO and ci[3] == T.ONE
                    and getattr(st, "lineno", None) is not None):
                # item number k of a list built over range(0, n) is the item of index k: inside this loop the list's own index
                # symbol is this loop's position symbol
                own = [n_ for n_ in el.term.syms() if n_.startswith("i@") and n_ != "i@%s" % sid]
                if len(own) == 1:
                    r = self.fresh(T.rename_syms(el.term, {own[0]: "i@%s" % sid}), el.shape, el.kind, st)
                    r.obj.valkind = el.obj.valkind
                    r.obj.fw = el.obj.fw
                    return r
            return it.obj.elem
        if isinstance(it, (VList, VIter, VTuple)):
            return VUnknown("elem@%s" % sid, "unknown")  # a list the analyser cannot enumerate: one generic element
        if isinstance(it, VUnknown):
            el = getattr(it, "elem", None)
            if first and getattr(it, "elem_first", None) is not None:
                try:
                    return it.elem_first()
                except Unsupported:
                    pass
            if el is not None:
                return el() if callable(el) else el
            return VUnknown("elem(%s)" % it.tag, "unknown", it.origin)
        if isinstance(it, VDict):
            return VUnknown("key@%s" % sid, "str")
        if isinstance(it, VTens):
            # the first iteration takes row 0, the generic one row i (the same position symbol an enumerate / range counter has)
            return self.ops.index_tensor(self, it, [VConst(0) if first else VNum("int", T.sym("i@%s" % sid), nonneg=True)], st)
        if isinstance(it, VObj):
            # iteration protocol on repo objects: use __iter__ if it returns iter(list attr)
            m = it.inst.cls.find_method("__iter__") if it.inst.cls else None
            if m is not None:
                r = self.call_method(it, "__iter__", [], {}, st)
                if isinstance(r, VObj) and r.inst.cls is not None and r.inst.cls.find_method("__next__") is not None:
                    return self.call_method(r, "__next__", [], {}, st)  # iterator protocol: one __next__ per iteration
                return self.loop_elem(r, first, st)
            return VUnknown("elem@%s" % sid, "unknown")
        raise Unsupported("iteration over %r" % (it,), st, self.site(st))

    def summarise_loop(self, st, it):
        """First + generic iteration; carried tensors / numbers become placeholders in the generic
        pass.  The post-loop value of a carried location is loop(site, count, after_first, after_generic).
        Names are carried in the loop's own scope and in the scopes of consumers whose body runs at a `yield` inside this loop."""
        sid = self.site(st)
        scopes = [(self.frames[-1].env, _assigned_names(st.body) | _target_names(st.target), st.body, "")]
        if self.yield_handlers and self.yield_handlers[-1][0] == len(self.frames) - 1 and self.yield_handlers[-1][2] is not None:
            # this loop is written in the body of the generator that is running: a `yield` inside it runs the consumer's body
            c = self.yield_handlers[-1][2]
            if c["env"] is not scopes[0][0]:
                scopes.append((c["env"], c["names"], c["body"], "^"))
        env = scopes[0][0]
        assigned = scopes[0][1]
        keys = [(k, n) for k, (_e, names, _b, _p) in enumerate(scopes) for n in sorted(names)]
        pre_env = {(k, n): scopes[k][0].get(n) for k, n in keys if n in scopes[k][0]}
        info = {"site": sid, "iter": it, "first": None, "generic": None, "carried": {}, "node": st}
        self.loops.append(info)
        # ---- first iteration: real pre-loop values
        broke = False
        snap_terms_before = {o: o.term for o in self.all_tobjs}
        list_before = {id(o): (o, list(o.items) if o.items is not None else None) for o in self.all_lists}
        ne0 = len(self.effects)
        self.assign(st.target, self.loop_elem(it, True, st), st)  # (an iterator object's __next__ may itself change tensors)
        try:
            self.exec_block(st.body)
        except BreakEx:
            broke = True
        except ContinueEx:
            pass
        after_first_env = {(k, n): scopes[k][0].get(n) for k, n in keys}
        list_len_after_first = {oid: (len(lo.items) if lo.items is not None else None) for oid, (lo, _b) in list_before.items()}
        mutated = [o for o, t in snap_terms_before.items() if o.term is not t and o.term != t]
        after_first_terms = {o: o.term for o in mutated}
        info["first"] = {"env": {n: v for (k, n), v in after_first_env.items() if k == 0}, "terms": after_first_terms, "effects": self.effects[ne0:], "broke": broke}
        if broke:
            return
        # ---- generic iteration with placeholders
        carried_syms = {}
        name_first_terms = {}
        mutated.sort(key=lambda o: o.id)
        for k_, o in enumerate(mutated):
            s = "carry:%d@%s" % (k_, sid)
            carried_syms[o] = s
            o.term = T.sym(s)
        for k, n in keys:
            e_, _names, body_, pfx = scopes[k]
            ck_ = n if k == 0 else (k, n)
            v = e_.get(n)
            if isinstance(v, VNum):
                s = "carry:%s%s@%s" % (pfx, n, sid)
                e_[n] = VNum(v.kind, T.sym(s), pos=False, nonneg=False)
                carried_syms[ck_] = s
            elif isinstance(v, VConst) and isinstance(v.value, (int, float)) and not isinstance(v.value, bool) and (k, n) in pre_env and _is_accumulated(body_, n):
                s = "carry:%s%s@%s" % (pfx, n, sid)
                e_[n] = VNum("float" if isinstance(v.value, float) else "int", T.sym(s))
                carried_syms[ck_] = s
            elif isinstance(v, VTens) and v.obj not in carried_syms and (k, n) in pre_env and pre_env[(k, n)] is not v:
                # name rebound to a (possibly different) tensor each iteration
                s = "carry:%s%s@%s" % (pfx, n, sid)
                carried_syms[ck_] = s
                name_first_terms[(k, n)] = v.term
                if v.obj.origin == "fresh":
                    v.obj.term = T.sym(s)
        # list items that are numbers and were changed
        for oid, (lo, before) in list_before.items():
            if lo.items is not None and before is not None and len(lo.items) == len(before):
                for k, (a, b) in enumerate(zip(before, lo.items)):
                    if a is not b and isinstance(b, VNum):
                        s = "carry:L%d[%d]@%s" % (oid % 10000, k, sid)
                        lo.items[k] = VNum(b.kind, T.sym(s))
                        carried_syms[(oid, k)] = s
        self.assign(st.target, self.loop_elem(it, False, st), st)
        ne1 = len(self.effects)
        gen_broke = False
        try:
            self.exec_block(st.body)
        except BreakEx:
            gen_broke = True
        except ContinueEx:
            pass
        # lists that grow in the loop body: after a loop of unknown trip count the list is [elem(i) for i in iter]
        # when it was empty before and every iteration appends exactly one item; otherwise its contents are unknown
        for oid, (lo, before) in list_before.items():
            if before is None or lo.items is None:
                continue
            n0, n1, n2 = len(before), list_len_after_first.get(oid), len(lo.items)
            if n1 is None or (n1 == n0 and n2 == n0):
                continue
            if n0 == 0 and n1 == 1 and n2 == 2 and not gen_broke:
                lo.elem = lo.items[1]
                lo.comp_node = st
                lo.comp_iter = _count_term(it)
                # the generic container of a dictionary of buckets holds what was appended under ITS key only
                lo.filtered_by_key = getattr(lo, "per_key_of", None) is not None
            else:
                lo.elem = None
            lo.items = None
        # the generic bucket of a dictionary of buckets is created in the first iteration (d.setdefault(key, [])) and filled in
        # every one: [elem(i) for the iterations i that ran under this key]
        for lo in self.all_lists:
            if id(lo) not in list_before and getattr(lo, "per_key_of", None) is not None and lo.items is not None and len(lo.items) == 2 and not gen_broke and getattr(lo, "comp_node", None) is None:
                lo.elem = lo.items[1]
                lo.comp_node = st
                lo.comp_iter = _count_term(it)
                lo.filtered_by_key = True
                lo.items = None
        info["generic"] = {"env": {n: env.get(n) for n in assigned}, "terms": {o: o.term for o in mutated},
                           "effects": self.effects[ne1:], "broke": gen_broke}
        info["carried"] = carried_syms
        # ---- post-loop values
        count = _count_term(it)
        for o in mutated:
            first_t = after_first_terms[o]
            gen_t = o.term
            o.term = self._loop_result(sid, count, first_t, gen_t, carried_syms[o], it)
        for k, n in keys:
            e_ = scopes[k][0]
            v = e_.get(n)
            s = carried_syms.get(n if k == 0 else (k, n))
            if s is None:
                continue
            af = after_first_env.get((k, n))
            if isinstance(v, VNum):
                ft = num_term(af)
                e_[n] = VNum(v.kind, self._loop_result(sid, count, ft, v.term, s, it))
            elif isinstance(v, VTens) and (k, n) in name_first_terms and v.obj.origin == "fresh" and v.obj not in carried_syms:
                gen_t = v.term
                if gen_t is not None and T.Sym(s) in gen_t.all_atoms():
                    r = self.fresh(self._loop_result(sid, count, name_first_terms[(k, n)], gen_t, s, it), v.shape, v.kind, st)
                    r.obj.valkind = v.obj.valkind
                    e_[n] = r
        # after the loop a name assigned in its body (the loop variable, what was computed from it) holds the value of the LAST
        # iteration: whatever reads it later - code after the loop, a closure defined in the body and called afterwards - sees
        # that one value, not the value of "its" iteration
        isym = "i@%s" % sid
        lsym = "last@%s" % sid
        for k, n in keys:
            if k != 0:
                continue
            e_ = scopes[k][0]
            v = e_.get(n)
            if carried_syms.get(n) is not None:
                continue
            if isinstance(v, VNum) and v.term is not None and isym in v.term.syms():
                nv_ = VNum(v.kind, T.rename_syms(v.term, {isym: lsym}), pos=getattr(v, "pos", False), nonneg=getattr(v, "nonneg", False))
                e_[n] = nv_
            elif isinstance(v, VTens) and v.term is not None and isym in v.term.syms() and v.obj.origin == "fresh":
                r = self.fresh(T.rename_syms(v.term, {isym: lsym}), v.shape, v.kind, st)
                r.obj.valkind = v.obj.valkind
                r.obj.dtype_src = v.obj
                e_[n] = r
        if not gen_broke:
            self.exec_block(st.orelse)

    def _loop_result(self, sid, count, first_t, gen_t, carry_sym, it):
        if first_t is None or gen_t is None:
            return None
        c = T.Sym(carry_sym)
        # accumulate pattern: gen = carry + R with R free of the carry
        rest = gen_t - T.P(c)
        if c not in rest.all_atoms():
            return T.P(T.App("accum", (sid, count, first_t, rest)))
        return T.P(T.App("loop", (sid, count, first_t, gen_t)))

    # ------------------------------------------------------------------ expressions
    def eval(self, node):
        m = getattr(self, "ev_" + type(node).__name__, None)
        if m is None:
            raise Unsupported("expression %s" % type(node).__name__, node, self.site(node))
        return m(node)

    def ev_Constant(self, node):
        return VConst(node.value)

    def ev_NamedExpr(self, node):
        # (name := value): binds the name (in the enclosing function's scope) and is the value
        v = self.eval(node.value)
        fr = self.frames[-1]
        while getattr(fr, "is_comp", False) and fr.closure is not None:
            fr = fr.closure  # a walrus inside a comprehension binds in the enclosing scope
        fr.env[node.target.id] = v
        return v

    def ev_Name(self, node):
        return self.lookup_name(node.id, node)

    def ev_JoinedStr(self, node):
        # f"...{x!r}...": the same string "..." + repr(x) + "..." builds, when every piece is a known string
        parts, known = [], True
        for v in node.values:
            if isinstance(v, ast.FormattedValue):
                x = self.eval(v.value)
                if v.format_spec is not None:
                    known = False
                    continue
                try:
                    sv = self.ops.call_ext(self, "builtins." + ("repr" if v.conversion == ord("r") else "str"), [x], {}, node)
                except Unsupported:
                    sv = None
                ok, c = const_of(sv) if sv is not None else (False, None)
                if ok and isinstance(c, str):
                    parts.append(c)
                else:
                    known = False
            elif isinstance(v, ast.Constant) and isinstance(v.value, str):
                parts.append(v.value)
            else:
                known = False
        return VConst("".join(parts)) if known else VUnknown("fstring", "str")

    def ev_Tuple(self, node):
        return VTuple(self.eval_seq(node.elts))

    def ev_List(self, node):
        return self.new_list(self.eval_seq(node.elts))

    def ev_Set(self, node):
        self.eval_seq(node.elts)
        return VUnknown("set", "set")

    def eval_seq(self, elts):
        out = []
        for e in elts:
            if isinstance(e, ast.Starred):
                v = self.eval(e.value)
                items = self.concrete_items(v)
                if items is None:
                    items = self.star_items(v, e)
                out.extend(items)
            else:
                out.append(self.eval(e))
        return out

    def star_items(self, v, node):
        if isinstance(v, VUnknown):
            return [VUnknown("*" + v.tag, "starred", v.origin)]
        if isinstance(v, VList) and v.obj.items is None:
            return [VUnknown("*list", "starred")]
        if isinstance(v, VTens) and v.shape is not None and len(v.shape) >= 1 and isinstance(v.shape[0], int) and 0 < v.shape[0] <= 4:
            # *t of a tensor with a small, known leading size: its slabs t[0], t[1], ...
            return [self.ops.subscript(self, v, VConst(k_), node) for k_ in range(v.shape[0])]
        raise Unsupported("star-unpack of %r" % (v,), node, self.site(node))

    def ev_Dict(self, node):
        items = {}
        unknown = False
        for k, v in zip(node.keys, node.values):
            if k is None:
                d = self.eval(v)
                if isinstance(d, VDict) and d.obj.items is not None:
                    items.update(d.obj.items)
                    unknown = unknown or d.obj.extra_unknown
                else:
                    unknown = True
                continue
            kv = self.eval(k)
            vv = self.eval(v)
            from .values import dict_key

            ok, c = dict_key(kv)  # constants, and tuples of constants (a dispatch table keyed by (rank, rank))
            if ok:
                items[c] = vv
            else:
                unknown = True
                items[("sym", repr(getattr(kv, "term", kv)))] = vv
        d = self.new_dict(items)
        d.obj.extra_unknown = unknown
        return d

    def ev_Lambda(self, node):
        return VFunc(None, closure=self.frames[-1], lam=node)

    def ev_IfExp(self, node):
        c = self.eval(node.test)
        if self.decide(self.truth(c), node.test, value=c):
            return self.eval(node.body)
        return self.eval(node.orelse)

    def ev_BoolOp(self, node):
        is_and = isinstance(node.op, ast.And)
        last = None
        for i, e in enumerate(node.values):
            last = self.eval(e)
            if i == len(node.values) - 1:
                return last
            known = self.truth(last)
            t = self.decide(known, e, value=last)
            if (is_and and not t) or ((not is_and) and t):
                # a boolean whose truth was just decided on this path IS that truth value: asking again (the enclosing `if`)
                # must not fork a second time into a path that contradicts this one
                if known is None and getattr(last, "kind", None) == "bool" and not isinstance(last, VTens):
                    return VConst(bool(t))
                return last
        return last

    def ev_UnaryOp(self, node):
        v = self.eval(node.operand)
        return self.ops.unaryop(self, type(node.op).__name__, v, node)

    def ev_BinOp(self, node):
        a = self.eval(node.left)
        b = self.eval(node.right)
        return self.ops.binop(self, type(node.op).__name__, a, b, node)

    def ev_Compare(self, node):
        left = self.eval(node.left)
        result = None
        for op, rn in zip(node.ops, node.comparators):
            right = self.eval(rn)
            r = self.ops.compare(self, type(op).__name__, left, right, node)
            if len(node.ops) == 1:
                return r
            t = self.truth(r)
            if t is False:
                return VConst(False)
            if t is None:
                result = r if result is None else VUnknown("cmpchain", "bool")
            left = right
        return result if result is not None else VConst(True)

    def ev_Attribute(self, node):
        base = self.eval(node.value)
        return self.get_attr(base, node.attr, node)

    def ev_Subscript(self, node):
        base = self.eval(node.value)
        idx = self.eval_index(node.slice)
        return self.ops.subscript(self, base, idx, node)

    def eval_index(self, sl):
        if isinstance(sl, ast.Tuple):
            return VTuple([self.eval_index(e) for e in sl.elts])
        if isinstance(sl, ast.Slice):
            return VSlice(
                self.eval(sl.lower) if sl.lower is not None else None,
                self.eval(sl.upper) if sl.upper is not None else None,
                self.eval(sl.step) if sl.step is not None else None,
            )
        return self.eval(sl)

    def ev_Slice(self, node):
        return self.eval_index(node)

    def ev_Starred(self, node):
        raise Unsupported("bare starred", node, self.site(node))

    def _comp(self, node, gens, emit, first_iter=None, frame=None):
        """Comprehension driver: nested generators over concrete or abstract iterables."""
        first_box = [first_iter]

        def rec(i):
            if i == len(gens):
                emit()
                return True
            g = gens[i]
            it = first_box[0] if (i == 0 and first_box[0] is not None) else self.eval(g.iter)
            items = self.concrete_items(it)
            if items is None or len(items) > 64:
                # abstract: one generic element
                ci = _count_term(it)
                if isinstance(it, VList) and it.obj.items is None and getattr(it.obj, "comp_iter", None) is not None:
                    ci = it.obj.comp_iter  # a map over a comprehension-built list runs over what that comprehension ran over
                self._last_comp_iter = ci
                # over range(0, <a dimension of a tensor>, step): at least one iteration (the data the properties quantify over
                # have at least one row / site)
                self._last_comp_nonempty = bool(isinstance(it, VRange) and const_of(it.start) == (True, 0) and isinstance(it.stop, VNum) and getattr(it.stop, "pos", False)
                                                and getattr(it.stop, "dim", None) is not None and getattr(it.stop, "dim", None) != UNK and len(gens) == 1 and not g.ifs)
                # an order- and count-preserving map over one iterable: remember which
                self._last_comp_src = it if len(gens) == 1 and not g.ifs else None
                self.assign(g.target, self.loop_elem(it, False, node), node)
                for c in g.ifs:
                    self.eval(c)
                rec(i + 1)
                return False
            for x in items:
                self.assign(g.target, x, node)
                ok = True
                for c in g.ifs:
                    cv = self.eval(c)
                    if not self.decide(self.truth(cv), c, value=cv):
                        ok = False
                        break
                if ok:
                    rec(i + 1)
            return True

        # comprehensions have their own scope; emulate with a child frame sharing lookup
        fr = self.frames[-1]
        child = frame if frame is not None else Frame(fr.func, fr.module, {}, fr.self_cls, closure=fr)
        child.is_comp = True
        child.deferred = []
        self.frames.append(child)
        try:
            concrete = True
            g0 = gens[0]
            it0 = first_iter if first_iter is not None else self.eval(g0.iter)
            first_box[0] = it0  # the first iterable is evaluated once (a call in it is made once)
            if self.concrete_items(it0) is None or len(self.concrete_items(it0)) > 64:
                concrete = False
            rec(0)
            # generator expressions created inside this comprehension whose bodies read its loop variables run later: when they
            # are consumed the loop has finished and every one of them sees the variables' LAST values (only the first iterable
            # of a generator expression is evaluated where it is written)
            for ph, gnode, git0 in child.deferred:
                val = self._genexp_now(gnode, first_iter=git0)
                ph.__class__ = val.__class__
                ph.__dict__.clear()
                ph.__dict__.update(val.__dict__)
        finally:
            self.frames.pop()
        return concrete

    def ev_ListComp(self, node):
        out = []
        concrete = self._comp(node, node.generators, lambda: out.append(self.eval(node.elt)))
        lv = self.new_list(out if concrete else None)
        if not concrete:
            lv.obj.elem = out[0] if out else None
            lv.obj.comp_node = node
            lv.obj.comp_iter = self._last_comp_iter
            lv.obj.comp_src = getattr(self, "_last_comp_src", None)
            lv.obj.nonempty = getattr(self, "_last_comp_nonempty", False)
        return lv

    def ev_GeneratorExp(self, node):
        fr = self.frames[-1]
        if getattr(fr, "is_comp", False) and fr.env:
            # which names the lazily evaluated part reads (everything but the first iterable)
            lazy = [node.elt] + [c for g in node.generators for c in g.ifs] + [g.iter for g in node.generators[1:]]
            own = set()
            for g in node.generators:
                own |= {n.id for n in ast.walk(g.target) if isinstance(n, ast.Name)}
            reads = {n.id for part in lazy for n in ast.walk(part) if isinstance(n, ast.Name) and isinstance(n.ctx, ast.Load)} - own
            if reads & set(fr.env):
                it0 = self.eval(node.generators[0].iter)
                ph = VUnknown("genexp-deferred", "iter")
                fr.deferred.append((ph, node, it0))
                return ph
        return self._genexp_now(node)

    def _genexp_now(self, node, first_iter=None):
        out = []
        concrete = self._comp(node, node.generators, lambda: out.append(self.eval(node.elt)), first_iter=first_iter)
        if concrete:
            return VIter(out)
        u = VUnknown("genexp", "iter")
        u.elem = out[0] if out else None
        u.comp_iter = self._last_comp_iter
        u.comp_site = self.site(node)
        u.source = getattr(self, "_last_comp_src", None)
        return u

    def ev_SetComp(self, node):
        self._comp(node, node.generators, lambda: self.eval(node.elt))
        return VUnknown("setcomp", "set")

    def ev_DictComp(self, node):
        keys, vals = [], []

        def emit():
            keys.append(self.eval(node.key))
            vals.append(self.eval(node.value))

        concrete = self._comp(node, node.generators, emit)
        if concrete:
            items = {}
            unknown = False
            from .values import dict_key

            for k, v in zip(keys, vals):
                ok, c = dict_key(k)
                if ok:
                    items[c] = v
                else:
                    items[c] = v  # a symbolic key: the same abstract key a later subscript with the same value produces
                    unknown = True
            d = self.new_dict(items)
            d.obj.extra_unknown = unknown
            return d
        d = self.new_dict({})
        d.obj.extra_unknown = True
        d.obj.elem = vals[0] if vals else None
        d.obj.comp_node = node
        d.obj.comp_src = getattr(self, "_last_comp_src", None)  # what the entries were made from (one iterable, no filter)
        return d

    # ------------------------------------------------------------------ calls
    def ev_Call(self, node):
        fn = node.func
        # super() handled structurally
        if isinstance(fn, ast.Name) and fn.id == "super" and not node.args:
            fr = self._method_frame()
            selfv = fr.env.get(fr.func.params[0]) if fr.func and fr.func.params else None
            if fr.self_cls is None or selfv is None:
                raise Unsupported("super() outside method", node, self.site(node))
            return VSuper(selfv, fr.self_cls)
        f = self.eval(fn)
        args = self.eval_seq(node.args)
        kwargs = {}
        for kw in node.keywords:
            if kw.arg is None:
                d = self.eval(kw.value)
                if isinstance(d, VDict) and d.obj.items is not None and any(not isinstance(k, str) and not (isinstance(k, tuple) and k and k[0] == "sym") for k in d.obj.items):
                    # f(**d) needs string keys: TypeError "keywords must be strings"
                    raise RaiseEx("TypeError", self.site(node), "keywords must be strings (** of a dictionary with a non-string key)", True)
                if isinstance(d, VDict) and d.obj.items is not None and not d.obj.extra_unknown:
                    for k, v in d.obj.items.items():
                        kwargs[k] = v
                elif isinstance(d, VDict) and d.obj.items is not None:
                    for k, v in d.obj.items.items():
                        if isinstance(k, str):
                            kwargs[k] = v
                    kwargs["**"] = d
                else:
                    kwargs["**"] = d
            else:
                kwargs[kw.arg] = self.eval(kw.value)
        return self.call_value(f, args, kwargs, node)

    def _method_frame(self):
        for fr in reversed(self.frames):
            if fr.func is not None and fr.self_cls is not None and fr.func.node is not None and not isinstance(fr.func.node, ast.Lambda):
                if fr.closure is None or fr.func.cls is not None:
                    return fr
        return self.frames[-1]

    def call_value(self, f, args, kwargs, node):
        if isinstance(f, VFunc):
            return self.call_function(f, args, kwargs, node)
        if isinstance(f, VClass):
            return self.instantiate(f.cls, args, kwargs, node)
        if isinstance(f, VExt):
            return self.ops.call_ext(self, f.name, args, kwargs, node)
        if isinstance(f, VBound):
            return self.ops.call_bound(self, f.recv, f.name, args, kwargs, node)
        if isinstance(f, VPartial):
            kw = dict(f.kwargs)
            kw.update(kwargs)
            return self.call_value(f.func, list(f.args) + list(args), kw, node)
        if isinstance(f, VObj) and f.inst.cls is None and getattr(f.inst, "ext", None) == "weakref.ref" and not args:
            return f.inst.attrs["referent"]
        if isinstance(f, VObj) and f.inst.cls is None and getattr(f.inst, "ext", None) == "collections.namedtuple":
            fields = f.inst.attrs["fields"]
            vals = list(args) + [None] * (len(fields) - len(args))
            if len(args) > len(fields) or any(k not in fields for k in kwargs):
                raise RaiseEx("TypeError", self.site(node), "namedtuple arguments", True)
            for k, v in kwargs.items():
                vals[fields.index(k)] = v
            if any(v is None for v in vals):
                raise RaiseEx("TypeError", self.site(node), "namedtuple: missing field", True)
            t = VTuple(vals)
            t.fields = list(fields)
            return t
        if isinstance(f, VObj):
            if f.inst.cls is not None and f.inst.cls.find_method("__call__"):
                return self.call_method(f, "__call__", args, kwargs, node)
            return self.ops.call_opaque(self, f, args, kwargs, node)
        if isinstance(f, VUnknown):
            return self.ops.call_opaque(self, f, args, kwargs, node)
        raise Unsupported("call of %r" % (f,), node, self.site(node))

    def call_method(self, objv, name, args, kwargs, node):
        m = self.get_attr(objv, name, node)
        return self.call_value(m, args, kwargs, node)

    def call_function(self, fv, args, kwargs, node):
        if fv.lam is not None:
            return self.call_lambda(fv, args, kwargs, node)
        func = fv.func
        if len(self.frames) > self.MAX_DEPTH:
            raise Unsupported("inlining depth exceeded at %s" % func.qualname, node, self.site(node))
        if fv.self_val is not None and not func.is_static:
            args = [fv.self_val] + list(args)
        # decorators without a built-in model are *applied* (the wrapper they return is what gets called); never ignored
        if not getattr(func, "_undecorated", False) and func.qualname not in self.stubs:
            pending = self._unmodelled_decorators(func)
            if pending:
                dec = self._decorated(fv, pending, node)
                return self.call_value(dec, list(args), kwargs, node)
        # decorators with known semantics
        for kind, det in func.decorators:
            if kind == "call" and det[0].endswith("deprecated_kwarg"):
                aliases = {kw.arg: kw.value.value for kw in det[1].keywords if isinstance(kw.value, ast.Constant)}
                for al, true in aliases.items():
                    if al in kwargs:
                        if true in kwargs:
                            raise RaiseEx("TypeError", self.site(node), "both alias and true name")
                        kwargs[true] = kwargs.pop(al)
        unsq_idx = None
        for kind, det in func.decorators:
            if kind == "call" and det[0].endswith("auto_unsqueeze_args"):
                idxs = []
                for a in det[1].args:
                    if isinstance(a, ast.Constant):
                        idxs.append(a.value)
                unsq_idx = idxs or [1]
        unsqueezed = False
        if unsq_idx is not None:
            args = list(args)
            for a in unsq_idx:
                if a < len(args) and isinstance(args[a], VTens):
                    r = args[a].rank
                    lt2 = None if r is None else (r < 2)
                    if self.decide(lt2, node, "auto_unsqueeze: arg%d.dim() < 2" % a):
                        unsqueezed = True
                        args[a] = self.ops.tensor_method(self, args[a], "unsqueeze", [VConst(0)], {}, node)
                elif a < len(args) and isinstance(args[a], VUnknown):
                    pass
        if func.qualname not in self.stubs and func.cls is not None and fv.self_val is not None and self.stubs:
            # a rule that replaces a base class's method by its summary means "this object's method of that name": an override
            # of the summarised method (whether it delegates to the base or restates it) is the same boundary
            for c_ in func.cls.in_repo_mro()[1:]:
                m_ = c_.methods.get(func.name)
                if m_ is not None and m_.qualname in self.stubs:
                    try:
                        self.bind(m_, args, kwargs, node)
                    except RaiseEx:
                        break  # the override's own signature differs: analyse its body
                    func = m_
                    break
        if func.qualname in self.stubs:
            env = self.bind(func, args, kwargs, node)
            result = self.stubs[func.qualname](self, func, env, node)
            self.calls.append([func.qualname, list(args), dict(kwargs), self.site(node), result, env, snapshot_terms(self, result),
                               {k: snapshot_terms(self, v) for k, v in env.items()}])
            self.timeline.append(("call", func.qualname, self.calls[-1]))
            self.note_node(func.qualname, node)
            return result
        result = self._invoke(func, args, kwargs, node, fv)
        if unsqueezed:
            if isinstance(result, VTens):
                result = self.ops.tensor_method(self, result, "squeeze_", [VConst(0)], {}, node)
        return result

    def _invoke(self, func, args, kwargs, node, fv):
        env = self.bind(func, args, kwargs, node)
        if _is_generator(func):
            rec = [func.qualname, list(args), dict(kwargs), self.site(node) if self.frames else "<entry>", None, dict(env), None, {k: snapshot_terms(self, v) for k, v in env.items()}]
            self.calls.append(rec)
            self.timeline.append(("call", func.qualname, rec))
            self.note_node(func.qualname, node)
            return VGen(fv, env)
        cls = func.cls
        call_site = self.site(node) if self.frames else "<entry>"
        fr = Frame(func, func.module, env, self_cls=cls, closure=fv.closure)
        self.frames.append(fr)
        callers = tuple(self.stack)
        self.stack.append(func.qualname)
        rec = [func.qualname, list(args), dict(kwargs), call_site, None, dict(env)]
        rec_args = {k: snapshot_terms(self, v) for k, v in env.items()}
        self.calls.append(rec)
        self.timeline.append(("call", func.qualname, rec))
        self.note_node(func.qualname, node)
        try:
            try:
                self.exec_block(func.node.body)
                ret = VConst(None)
            except ReturnEx as r:
                ret = r.value
        finally:
            self.stack.pop()
            self.frames.pop()
        rec[4] = ret
        rec.append(snapshot_terms(self, ret))
        rec.append(rec_args)
        rec.append(callers)  # [8]: the functions on the stack when the call was made (outermost first)
        return ret

    def call_lambda(self, fv, args, kwargs, node):
        lam = fv.lam
        a = lam.args
        env = {}
        params = [x.arg for x in a.args]
        for p, v in zip(params, args):
            env[p] = v
        if a.vararg:
            env[a.vararg.arg] = VTuple(args[len(params):])
        for k, v in kwargs.items():
            env[k] = v
        nd = len(a.defaults)
        for p, d in zip(params[len(params) - nd:], a.defaults):
            if p not in env:
                env[p] = self.eval(d)
        fr = Frame(fv.closure.func if fv.closure else None, fv.closure.module if fv.closure else self.frames[-1].module, env,
                   self_cls=fv.closure.self_cls if fv.closure else None, closure=fv.closure)
        self.frames.append(fr)
        try:
            return self.eval(lam.body)
        finally:
            self.frames.pop()

    def bind(self, func, args, kwargs, node):
        env = {}
        params = func.params
        args = list(args)
        kwargs = dict(kwargs)
        star = kwargs.pop("**", None)
        n = len(params)
        # flatten unknown starred positional
        for i, p in enumerate(params):
            if i < len(args):
                a = args[i]
                if isinstance(a, VUnknown) and a.kind == "starred":
                    # unknown *batch: remaining params get symbolic elements
                    for j, q in enumerate(params[i:]):
                        if q in kwargs:
                            env[q] = kwargs.pop(q)
                        else:
                            env[q] = VUnknown("%s[%d]" % (a.tag, j), "unknown", a.origin)
                    args = args[:i]
                    break
                env[p] = a
        if func.vararg:
            env[func.vararg] = VTuple(args[n:])
        elif len(args) > n:
            raise RaiseEx("TypeError", self.site(node), "too many positional arguments for %s" % func.qualname, True)
        for k in list(kwargs):
            if k in params or k in func.kwonly:
                if k in env and k in params and params.index(k) < len(args):
                    raise RaiseEx("TypeError", self.site(node), "multiple values for %s" % k, True)
                env[k] = kwargs.pop(k)
        if func.kwarg:
            d = self.new_dict(dict(kwargs))
            if star is not None:
                d.obj.extra_unknown = True
            env[func.kwarg] = d
        elif kwargs:
            raise RaiseEx("TypeError", self.site(node), "unexpected keyword %s for %s" % (sorted(kwargs), func.qualname), True)
        # defaults evaluated in the defining module's scope
        for p in params + func.kwonly:
            if p not in env:
                if p in getattr(func, "default_values", {}):
                    env[p] = func.default_values[p]
                elif p in func.defaults:
                    fr = Frame(None, func.module, {})
                    self.frames.append(fr)
                    try:
                        env[p] = self.eval(func.defaults[p])
                    finally:
                        self.frames.pop()
                elif star is not None:
                    env[p] = VUnknown("kw:" + p, "unknown")
                else:
                    raise RaiseEx("TypeError", self.site(node), "missing argument %s for %s" % (p, func.qualname), True)
        return env

    MODELLED_DECORATORS = ("deprecated_kwarg", "auto_unsqueeze_args")

    def _unmodelled_decorators(self, func):
        nd = getattr(func, "node", None)
        out = []
        for d in getattr(nd, "decorator_list", None) or []:
            if isinstance(d, ast.Name) and d.id in ("property", "staticmethod", "classmethod", "abstractmethod"):
                continue
            if isinstance(d, ast.Attribute) and d.attr in ("setter", "getter", "deleter", "abstractmethod", "abstractproperty"):
                continue
            txt = ast.unparse(d.func if isinstance(d, ast.Call) else d)
            last = txt.split(".")[-1]
            if last in self.MODELLED_DECORATORS and os.environ.get("QSA_MODELLED_DECORATORS"):
                continue  # (debug switch) use the built-in models instead of interpreting the repository's decorators
            if last == "wraps":  # functools.wraps(f): copies metadata only
                continue
            if last == "contextmanager":  # contextlib.contextmanager: the generator is run by the `with` statement (st_With)
                continue
            out.append(d)
        return out

    def _decorated(self, fv, pending, node):
        func = fv.func
        key = id(func)
        if key in self.decorated:
            return self.decorated[key]
        import copy

        raw = copy.copy(func)
        raw._undecorated = True
        cur = VFunc(raw, closure=fv.closure)
        for d in reversed(pending):
            fr = Frame(func, func.module, {}, self_cls=func.cls, closure=fv.closure)
            self.frames.append(fr)
            try:
                dv = self.eval(d)
            finally:
                self.frames.pop()
            if not isinstance(dv, (VFunc, VObj, VClass)):
                raise Unsupported("decorator %s of %s has no model" % (ast.unparse(d), func.qualname), node, self.site(node))
            cur = self.call_value(dv, [cur], {}, node)
            if not isinstance(cur, (VFunc, VObj)):
                raise Unsupported("decorator %s of %s does not return a callable the analyser can follow" % (ast.unparse(d), func.qualname), node, self.site(node))
        self.decorated[key] = cur
        return cur

    def instantiate(self, cls, args, kwargs, node):
        inst = Instance(cls)
        self.all_insts.append(inst)
        objv = VObj(inst)
        init = cls.find_method("__init__")
        if init is not None:
            self.call_function(VFunc(init, objv), args, kwargs, node)
        else:
            inst.attrs["__ctor_args__"] = (args, kwargs)
        return objv

    # ------------------------------------------------------------------ attributes
    def get_attr(self, base, attr, node):
        if isinstance(base, VObj):
            return self.obj_attr(base, attr, node)
        if isinstance(base, VTens):
            return self.ops.tensor_attr(self, base, attr, node)
        if isinstance(base, VModule):
            r = self.program.resolve_in_module(base.mod, attr)
            v = self.from_resolution(r, attr)
            if v is None:
                raise RaiseEx("AttributeError", self.site(node), "module %s has no %s" % (base.mod.name, attr), True)
            return v
        if isinstance(base, VExt):
            return VExt(base.name + "." + attr)
        if isinstance(base, VSuper):
            return self.super_attr(base, attr, node)
        if isinstance(base, VClass):
            m = base.cls.find_method(attr)
            if m is not None:
                return VFunc(m, None)
            ca = base.cls.find_class_attr(attr)
            if ca is not None and isinstance(ca[1], _MUTABLE_DISPLAY + (ast.Call,)):
                return self.class_attr_value(ca[0], attr, ca[1])  # one object per class, shared by everything that reads it
            if ca is not None:
                fr = Frame(None, ca[0].module, {})
                self.frames.append(fr)
                try:
                    return self.eval(ca[1])
                finally:
                    self.frames.pop()
            if attr == "__name__":
                return VConst(base.cls.name)
            raise RaiseEx("AttributeError", self.site(node), "class %s has no %s" % (base.cls.name, attr), True)
        if isinstance(base, VTuple) and attr in (getattr(base, "fields", None) or ()):
            return base.items[base.fields.index(attr)]  # a namedtuple's field
        if isinstance(base, VFunc):
            if attr == "__name__":
                return VConst(base.func.name if base.func else "<lambda>")
            return VUnknown("funcattr:" + attr)
        if isinstance(base, VUnknown) and getattr(base, "storage_of", None) is not None and attr == "data_ptr":
            return VBound(base, "data_ptr")
        if isinstance(base, VUnknown):
            u = VUnknown("%s.%s" % (base.tag, attr), "unknown", base.origin)
            u.recv = base
            return u
        return VBound(base, attr)

    def class_attr_value(self, owner, attr, expr):
        """Value of a class attribute, evaluated once per interpretation (a descriptor object keeps its identity and what
        __set_name__ stored on it)."""
        cache = self.__dict__.setdefault("_class_attr_cache", {})
        key = (owner.qualname if hasattr(owner, "qualname") else owner.name, attr)
        if key not in cache:
            fr = Frame(None, owner.module, {})
            fr.class_owner = owner
            self.frames.append(fr)
            try:
                v = self.eval(expr)
            finally:
                self.frames.pop()
            cache[key] = v
            if isinstance(v, VObj) and v.inst.cls is not None:
                sn = v.inst.cls.find_method("__set_name__")
                if sn is not None:
                    self.call_function(VFunc(sn, v), [VClass(owner), VConst(attr)], {}, None)
        return cache[key]

    def descriptor_of(self, cls, attr, need):
        """The descriptor object bound to `attr` on the class (a repo instance whose class defines `need`), or None."""
        ca = cls.find_class_attr(attr) if cls is not None else None
        if ca is None:
            return None
        if not isinstance(ca[1], ast.Call):
            return None  # only a constructed object can be a descriptor
        v = self.class_attr_value(ca[0], attr, ca[1])
        if isinstance(v, VObj) and v.inst.cls is not None and v.inst.cls.find_method(need) is not None:
            return v
        if isinstance(v, VObj) and v.inst.cls is None and getattr(v.inst, "ext", None) == "builtins.property":
            return v  # property(fget, fset): a data descriptor
        return None

    def _descr_get(self, d, objv, cls, node):
        if d.inst.cls is None:  # builtins.property
            fget = d.inst.attrs.get("fget")
            if fget is None or (isinstance(fget, VConst) and fget.value is None):
                raise RaiseEx("AttributeError", self.site(node), "unreadable attribute", True)
            return self.call_value(fget, [objv], {}, node)
        return self.call_function(VFunc(d.inst.cls.find_method("__get__"), d), [objv, VClass(cls)], {}, node)

    def _descr_set(self, d, objv, v, node):
        if d.inst.cls is None:  # builtins.property
            fset = d.inst.attrs.get("fset")
            if fset is None or (isinstance(fset, VConst) and fset.value is None):
                raise RaiseEx("AttributeError", self.site(node), "can't set attribute", True)
            self.call_value(fset, [objv, v], {}, node)
            return
        self.call_function(VFunc(d.inst.cls.find_method("__set__"), d), [objv, v], {}, node)

    def obj_attr(self, objv, attr, node, skip_getattr=False):
        inst = objv.inst
        if inst.cls is not None and attr in inst.cls.all_class_attr_names():
            d = self.descriptor_of(inst.cls, attr, "__get__")
            if d is not None and (d.inst.cls is None or d.inst.cls.find_method("__set__") is not None or attr not in inst.attrs):
                return self._descr_get(d, objv, inst.cls, node)
        if attr in inst.attrs and not (inst.cls and inst.cls.find_prop(attr)):
            self._op_tick()
            k_ = (id(inst), attr)
            if k_ not in self._written_in_op:
                self._read_first.add(k_)
            return inst.attrs[attr]
        cls = inst.cls
        if cls is None:
            return self.ops.ext_obj_attr(self, objv, attr, node)
        if attr == "__class__":
            return VClass(cls)
        if attr == "__dict__":
            d = DictObj(inst.attrs, origin=inst.origin)  # live view of the instance attributes
            self.all_dicts.append(d)
            return VDict(d)
        p = cls.find_prop(attr)
        if p is not None and "get" in p:
            return self.call_function(VFunc(p["get"], objv), [], {}, node)
        m = cls.find_method(attr)
        if m is not None:
            return VFunc(m, objv)
        ca = cls.find_class_attr(attr)
        if ca is not None and isinstance(ca[1], _MUTABLE_DISPLAY + (ast.Call,)):
            # a dictionary / list written in the class body is ONE object: every instance (of every subclass) that does not
            # assign the attribute itself reads and mutates that same object
            return self.class_attr_value(ca[0], attr, ca[1])
        if ca is not None:
            fr = Frame(None, ca[0].module, {})
            self.frames.append(fr)
            try:
                return self.eval(ca[1])
            finally:
                self.frames.pop()
        # external base API
        ext = cls.ext_bases()
        r = self.ops.ext_base_attr(self, objv, ext, attr, node)
        if r is not None:
            return r
        ga = cls.find_method("__getattr__")
        if ga is not None and not skip_getattr:
            return self.call_function(VFunc(ga, objv), [VConst(attr)], {}, node)
        raise RaiseEx("AttributeError", self.site(node), "'%s' object has no attribute '%s'" % (cls.name, attr), True)

    def has_attr(self, objv, attr):
        if isinstance(objv, VObj):
            inst = objv.inst
            if attr in inst.attrs:
                return True
            cls = inst.cls
            if cls is None:
                return None
            if cls.find_prop(attr) or cls.find_method(attr) or cls.find_class_attr(attr):
                return True
            if self.ops.ext_base_has(cls.ext_bases(), attr):
                return True
            ga = cls.find_method("__getattr__")
            if ga is not None:
                # delegate: evaluate the delegate's answer
                try:
                    self.call_function(VFunc(ga, objv), [VConst(attr)], {}, None)
                    return True
                except RaiseEx as e:
                    if e.exc_name == "AttributeError":
                        return False
                    raise
            return False
        if isinstance(objv, VTens) and attr in ("untyped_storage", "storage", "data_ptr", "shape", "dtype", "device", "dim"):
            return True if objv.kind == "tensor" else (False if attr in ("untyped_storage", "storage", "data_ptr") else True)
        return None

    def super_attr(self, sup, attr, node):
        selfv = sup.self_val
        cls = selfv.inst.cls
        m = cls.find_method(attr, after=sup.after_cls)
        if m is not None:
            return VFunc(m, selfv)
        p = cls.find_prop(attr, after=sup.after_cls)
        if p is not None and "get" in p:
            return self.call_function(VFunc(p["get"], selfv), [], {}, node)
        mro = cls.mro()
        idx = mro.index(sup.after_cls)
        ext = [c[1] for c in mro[idx + 1:] if not isinstance(c, ClassInfo)]
        r = self.ops.ext_base_attr(self, selfv, ext, attr, node)
        if r is not None:
            return r
        self.unresolved.append((self.site(node), "super().%s" % attr))
        raise RaiseEx("AttributeError", self.site(node), "'super' object has no attribute '%s'" % attr, True)

    def set_attr(self, base, attr, v, node):
        if isinstance(base, VObj):
            inst = base.inst
            cls = inst.cls
            if cls is not None:
                p = cls.find_prop(attr)
                if p is not None:
                    if "set" in p:
                        self.call_function(VFunc(p["set"], base), [v], {}, node)
                        return
                    raise RaiseEx("AttributeError", self.site(node), "can't set attribute %s" % attr, True)
                if attr in cls.all_class_attr_names():
                    d = self.descriptor_of(cls, attr, "__set__")
                    if d is not None:
                        self._descr_set(d, base, v, node)
                        return
            # nn.Parameter registration order
            if isinstance(v, VTens) and v.obj.is_parameter and not v.view:
                order = inst.attrs.setdefault("__param_order__", [])
                if attr not in order:
                    order.append(attr)
                self.effect("rebind-param", inst, node, attr)
            else:
                self.effect("setattr", inst, node, attr)
            k_ = (id(inst), attr)
            if k_ in self._read_first and k_ not in self._written_in_op:
                self.read_before_write.add(k_)  # this operation looked at the attribute's earlier value before assigning it
            self._written_in_op.add(k_)
            inst.attrs[attr] = v
            return
        if isinstance(base, VTens):
            if attr == "grad":
                self.effect("grad", base.obj, node, "set .grad")
                base.obj.grad = v
                return
            if attr == "data":
                if not base.view and isinstance(v, VTens):
                    # p.data = t: the tensor object p now uses t's storage; views taken of p earlier keep the old one
                    self.rebind_storage(base, v.term, node, "set .data", shape=v.shape, alias=v.obj)
                    return
                self.write(base, v.term if isinstance(v, VTens) else None, node, "set .data")
                if isinstance(v, VTens) and v.obj is not base.obj:
                    base.obj.may_alias.add(v.obj)  # p.data = t: p now uses t's storage
                return
            raise Unsupported("tensor attribute store %s" % attr, node, self.site(node))
        if isinstance(base, VUnknown):
            self.effect("ext", base.origin or "unknown", node, "setattr %s on unknown" % attr)
            return
        if isinstance(base, VClass):
            self.effect("setattr", "class:" + base.cls.name, node, attr)
            return
        raise Unsupported("attribute store on %r" % (base,), node, self.site(node))

    # ------------------------------------------------------------------ writes
    def note_width_flow(self, dst, src, term, node, detail):
        """A float64 value stored into a float32 tensor is rounded; a float64 tensor filled from a float32 intermediate holds
        rounded values (unless they are constants float32 holds exactly)."""
        dw = dst.obj.float_width()
        sw = src.obj.float_width() if isinstance(src, VTens) else None
        if sw is None and dw == 32 and (not isinstance(src, VTens) or src.obj.valkind not in ("bool", "index", "perm", "str")):
            sw = 64  # a width that was not tracked: the library's data and parameters are float64 (stated assumption)
        exact = isinstance(src, VTens) and (src.obj.valkind in ("bern", "bool") or _is_bern(term))  # 0 / 1 values: exact in every float width
        if not exact and term is not None and not getattr(dst, "view", None) and dst.obj.term is not None and dst.obj.term == term:
            exact = True  # the tensor's own values come back (widened on the way): nothing to round
        if dw == 32 and sw == 64 and not exact:
            self.narrowings.append((self.site(node), "float64 values are written into a float32 tensor (%s)" % detail, src.obj))
        elif dw == 64 and sw == 32 and term is not None and hasattr(term, "is_const") and not term.is_const() and src.obj.origin == "fresh":
            self.narrowings.append((self.site(node), "a float64 tensor is filled from a float32 intermediate (%s)" % detail, src.obj))

    def rebind_storage(self, tv, newterm, node, detail, shape=None, alias=None):
        """`tv.data = <tensor>`: the python object keeps its identity, flags, .grad and version counter but from now on
        uses other storage.  Views created before keep the previous storage (they go stale)."""
        from .values import TObj

        old = tv.obj
        new = TObj(old.kind, newterm, shape if shape is not None else old.shape, old.origin, old.site)
        new.is_parameter, new.valkind, new.grad, new.version, new.dtype_src = old.is_parameter, old.valkind, old.grad, old.version, old.dtype_src
        new.ver_id = getattr(old, "ver_id", old.id)  # the python object's version counter stays with it
        for k in ("requires_grad", "device", "dtype"):
            if hasattr(old, k):
                setattr(new, k, getattr(old, k))
        if alias is not None and alias is not old:
            new.may_alias.add(alias)
        new.rebound_from = old
        self.effect("write", old, node, detail)
        tv.obj = new
        self.effect("write", new, node, detail)

    def write(self, tv, newterm, node, detail, meta=False, newshape=None, src=None):
        """In-place write of `newterm` through the view `tv`.  `src`: the value written, when it is a tensor (float-width facet)."""
        obj = tv.obj
        if src is not None and not meta:
            self.note_width_flow(tv, src, newterm, node, detail)
        self.effect("meta" if meta else "write", obj, node, detail)
        if detail != "set .data":
            obj.version += 1
        if not tv.view:
            segs = getattr(obj, "segments", None)
            if segs is not None:
                # what is known about the pieces of a concatenation follows an in-place scaling of the whole (x.neg_(), x.div_(n));
                # after any other write it is no longer known
                oa = obj.term.single_atom() if obj.term is not None and hasattr(obj.term, "single_atom") else None
                sm = newterm.single_mono() if newterm is not None and hasattr(newterm, "single_mono") else None
                if oa is not None and sm is not None and len(sm[0]) >= 1 and any(a_ is oa or a_ == oa for a_, pw_ in sm[0] if pw_ == 1):
                    factor = newterm * T.inv(T.P(oa)) if False else None
                    rest = tuple((a_, pw_) for a_, pw_ in sm[0] if not (a_ == oa and pw_ == 1))
                    fac = T.Poly({rest: sm[1]}) if rest else T.const(sm[1])
                    if oa not in fac.all_atoms():
                        obj.segments = [((fac * st_) if st_ is not None else None, sd_) for st_, sd_ in segs]
                    else:
                        obj.segments = None
                else:
                    obj.segments = None
            obj.term = newterm
            if newshape is not None:
                obj.shape = newshape
            return
        if newterm is None or obj.term is None:
            obj.term = None
            return
        view = tv.view
        if len(view) == 1 and view[0][0] == "idx0":
            k = view[0][1]
            comps = T.as_stack0(obj.term)
            n = 2
            if comps is None:
                comps = [T.idx0(obj.term, j) for j in range(n)]
            comps = list(comps)
            if k < len(comps):
                comps[k] = newterm
                obj.term = T.stack0(*comps)
                return
        if all(s[0] == "op" and s[1] in ("unsq", "sq", "view", "to") for s in view):
            obj.term = T.P(T.App("unview", (newterm, tuple(s[1:] for s in view))))
            return
        if len(view) == 1 and view[0][0] == "index":
            obj.term = T.app("upd", obj.term, view[0][1], newterm)
            return
        spec = tuple(view)
        obj.term = T.P(T.App("upd", (obj.term, spec, newterm)))

    def store_subscript(self, base, target, v, node):
        idx = self.eval_index(target.slice)
        if isinstance(base, VTens):
            view = self.ops.subscript(self, base, idx, node, for_store=True)
            self.stores.append((base.obj, v, self.site(node)))
            nt = None
            if isinstance(v, VTens):
                nt = v.term
            else:
                nt = num_term(v)
            if isinstance(view, VTens) and view.obj is base.obj:
                self.write(view, nt, node, "subscript store", src=v if isinstance(v, VTens) else None)
            else:
                # advanced-index store: functional update of base
                self.effect("write", base.obj, node, "advanced subscript store")
                spec = self.ops.index_spec(self, idx, node)
                if base.obj.term is not None and nt is not None and not base.view:
                    base.obj.term = T.app("upd", base.obj.term, spec, nt)
                else:
                    base.obj.term = None
            return
        if isinstance(base, VList):
            self.container_mutation(base, node, "list store")
            ok, k = const_of(idx)
            if base.obj.items is not None and ok and isinstance(k, int) and -len(base.obj.items) <= k < len(base.obj.items):
                base.obj.items[k] = v
            else:
                base.obj.items = None
            return
        if isinstance(base, VDict):
            self.container_mutation(base, node, "dict store")
            from .values import dict_key

            ok, k = dict_key(idx)
            if base.obj.items is not None:
                base.obj.items[k] = v
                if not ok and not (isinstance(k, tuple) and k and k[0] != "sym"):
                    base.obj.extra_unknown = True
            return
        if isinstance(base, VObj):
            if base.inst.cls is not None and base.inst.cls.find_method("__setitem__"):
                self.call_method(base, "__setitem__", [idx, v], {}, node)
                return
            self.effect("container", base.inst, node, "setitem on object")
            return
        if isinstance(base, VUnknown):
            self.effect("ext", base.origin or "unknown", node, "setitem on unknown %s" % base.tag)
            return
        raise Unsupported("subscript store on %r" % (base,), node, self.site(node))

    def container_mutation(self, base, node, detail):
        if isinstance(base, (VList, VDict)):
            self.effect("container", base.obj, node, detail)
        elif isinstance(base, VObj):
            self.effect("container", base.inst, node, detail)
        elif isinstance(base, VTens):
            self.effect("write", base.obj, node, detail)
        elif isinstance(base, VUnknown):
            self.effect("ext", base.origin or "unknown", node, detail)


# ------------------------------------------------------------------------------ helpers
def snapshot_terms(it, v):
    """Terms of a returned value at return time (later in-place updates do not change the record)."""
    if isinstance(v, VTens):
        return v.term
    if isinstance(v, (VList, VTuple)):
        items = it.concrete_items(v)
        if items is not None:
            return [snapshot_terms(it, x) for x in items]
    if isinstance(v, (VNum, VConst)):
        return num_term(v)
    return None


def _load(t):
    import copy

    t2 = copy.copy(t)
    t2.ctx = ast.Load()
    return t2


def _key_value(k):
    if isinstance(k, tuple) and len(k) == 2 and k[0] == "sym":
        return VUnknown(k[1], "str")
    return VConst(k)


def _is_generator(func):
    g = getattr(func, "_is_gen", None)
    if g is None:
        g = False
        stack = list(getattr(func.node, "body", []) or [])
        while stack:
            n = stack.pop()
            if isinstance(n, (ast.Yield, ast.YieldFrom)):
                g = True
                break
            if isinstance(n, (ast.FunctionDef, ast.AsyncFunctionDef, ast.Lambda, ast.ClassDef)):
                continue
            stack.extend(ast.iter_child_nodes(n))
        try:
            func._is_gen = g
        except Exception:
            pass
    return g


def _assigned_names(body):
    out = set()
    for st in body:
        for n in ast.walk(st):
            if isinstance(n, ast.Name) and isinstance(n.ctx, ast.Store):
                out.add(n.id)
            elif isinstance(n, ast.AugAssign) and isinstance(n.target, ast.Name):
                out.add(n.target.id)
    return out


def _target_names(t):
    return {n.id for n in ast.walk(t) if isinstance(n, ast.Name)}


def _is_accumulated(body, name):
    for st in body:
        for n in ast.walk(st):
            if isinstance(n, ast.AugAssign) and isinstance(n.target, ast.Name) and n.target.id == name:
                return True
            if isinstance(n, ast.Assign) and len(n.targets) == 1 and isinstance(n.targets[0], ast.Name) and n.targets[0].id == name:
                for m in ast.walk(n.value):
                    if isinstance(m, ast.Name) and m.id == name:
                        return True
    return False


def _is_bern(term):
    a = term.single_atom() if term is not None and hasattr(term, "single_atom") else None
    return isinstance(a, T.App) and a.op in ("bern", "loop") and (a.op == "bern" or (len(a.args) >= 4 and _is_bern(a.args[3])))


def _count_term(it):
    if isinstance(it, VRange):
        a, b, c = num_term(it.start), num_term(it.stop), num_term(it.step)
        if a is not None and b is not None and c is not None:
            return ("range", a, b, c)
    if isinstance(it, VUnknown) and it.tag == "enumerate" and getattr(it, "source", None) is not None:
        return _count_term(it.source)
    if isinstance(it, VList) and it.obj.items is None and isinstance(getattr(it.obj, "comp_iter", None), tuple):
        return it.obj.comp_iter  # a list built by a comprehension over a range has that range's length
    if isinstance(it, VUnknown) and it.tag == "zip" and getattr(it, "sources", None):
        # the loop ends with the first exhausted source: when exactly one source can end it, its count is the loop's
        cs = [_count_term(s) for s in it.sources if not (getattr(s, "endless", False) or (isinstance(s, VObj) and s.inst.cls is not None and s.inst.cls.find_method("__next__") is not None
                                                          and not any(isinstance(n, ast.Raise) for n in ast.walk(s.inst.cls.find_method("__next__").node))))]
        if len(cs) == 1 and len(it.sources) > 1:
            return cs[0]
    if isinstance(it, VUnknown):
        return ("iter", it.tag)
    return ("iter", type(it).__name__)


_MUTABLE_DISPLAY = (ast.Dict, ast.List, ast.Set, ast.DictComp, ast.ListComp, ast.SetComp)


# ------------------------------------------------------------------------------ exploration
class Path:
    def __init__(self, interp, outcome, value):
        self.interp = interp
        self.outcome = outcome  # 'return' | 'raise'
        self.value = value
        self.conds = list(interp.conds)
        self.effects = interp.effects
        self.calls = interp.calls

    def __repr__(self):
        return "<Path %s %r conds=%s>" % (self.outcome, self.value, [(c[1], c[2]) for c in self.conds])


def explore(program, thunk, max_paths=48, configure=None):
    """Run `thunk(interp)` under every outcome vector of undecided branches."""
    results = []
    work = [[]]
    seen = set()
    while work:
        dec = work.pop()
        key = tuple(dec)
        if key in seen:
            continue
        seen.add(key)
        it = Interp(program, decisions=dec)
        if configure:
            configure(it)
        try:
            v = thunk(it)
            results.append(Path(it, "return", v))
        except RaiseEx as e:
            results.append(Path(it, "raise", e))
        for k in range(len(dec), len(it.taken)):
            alt = it.taken[:k] + [not it.taken[k]]
            work.append(alt)
        if len(results) > max_paths:
            raise Unsupported("path budget (%d) exceeded" % max_paths)
    return results
