"""Program model: parsed modules, import resolution, classes with MRO, functions.

Everything is derived from the source text under <repo>/qucumber at the time the
check starts.  Nothing is imported or executed.
"""
import ast
import os
import sys
import hashlib

REPO = os.environ.get("QSA_REPO", "/repo")
PKG = "qucumber"


class AnalysisError(Exception):
    """Raised when the analyser cannot do its job (vanished anchor, unknown construct)."""


class FuncInfo:
    def __init__(self, name, node, module, cls=None):
        self.name = name
        self.node = node
        self.module = module  # ModuleInfo
        self.cls = cls  # ClassInfo or None
        self.decorators = []  # list of (kind, detail)
        a = node.args
        self.posonly = [x.arg for x in a.posonlyargs]
        self.params = [x.arg for x in a.posonlyargs + a.args]
        self.kwonly = [x.arg for x in a.kwonlyargs]
        self.vararg = a.vararg.arg if a.vararg else None
        self.kwarg = a.kwarg.arg if a.kwarg else None
        nd = len(a.defaults)
        self.defaults = {}
        for p, d in zip(self.params[len(self.params) - nd:], a.defaults):
            self.defaults[p] = d
        for p, d in zip(a.kwonlyargs, a.kw_defaults):
            if d is not None:
                self.defaults[p.arg] = d

    @property
    def qualname(self):
        if self.cls is not None:
            return "%s.%s" % (self.cls.name, self.name)
        return "%s.%s" % (self.module.short, self.name)

    @property
    def is_static(self):
        return any(k == "staticmethod" for k, _ in self.decorators)

    @property
    def is_abstract(self):
        return any(k == "abstractmethod" for k, _ in self.decorators)

    def site(self, node=None):
        n = node if node is not None else self.node
        return "%s:%s:%d" % (self.module.relpath, self.qualname, getattr(n, "lineno", 0))

    def __repr__(self):
        return "<Func %s>" % self.qualname


class ClassInfo:
    def __init__(self, name, node, module):
        self.name = name
        self.node = node
        self.module = module
        self.base_exprs = node.bases
        self.bases = []  # ClassInfo | ('ext', dotted)
        self.methods = {}  # name -> FuncInfo (plain, static)
        self.props = {}  # name -> {'get': FuncInfo, 'set': FuncInfo}
        self.class_attrs = {}  # name -> ast expr
        self._mro = None

    @property
    def qualname(self):
        return "%s.%s" % (self.module.name, self.name)

    def mro(self):
        if self._mro is None:
            self._mro = _c3(self)
        return self._mro

    def in_repo_mro(self):
        return [c for c in self.mro() if isinstance(c, ClassInfo)]

    def ext_bases(self):
        return [c[1] for c in self.mro() if not isinstance(c, ClassInfo)]

    def find_method(self, name, after=None):
        """Resolve a method along the MRO; `after` = class after which to start (super()).  The first class of the MRO that binds
        the name at all decides what the name is (a property or class attribute of a subclass hides a base class's method)."""
        mro = self.in_repo_mro()
        start = 0
        if after is not None:
            start = mro.index(after) + 1
        for c in mro[start:]:
            if name in c.methods:
                return c.methods[name]
            if name in c.props or name in c.class_attrs:
                return None
        return None

    def find_prop(self, name, after=None):
        mro = self.in_repo_mro()
        start = 0
        if after is not None:
            start = mro.index(after) + 1
        for c in mro[start:]:
            if name in c.props:
                return c.props[name]
            if name in c.methods or name in c.class_attrs:
                return None
        return None

    def find_class_attr(self, name):
        for c in self.in_repo_mro():
            if name in c.class_attrs:
                return c, c.class_attrs[name]
            if name in c.props or name in c.methods:
                return None
        return None

    def all_class_attr_names(self):
        if getattr(self, "_ca_names", None) is None:
            self._ca_names = {n for c in self.in_repo_mro() for n in c.class_attrs}
        return self._ca_names

    def is_subclass_of(self, other):
        if isinstance(other, ClassInfo):
            return other in self.in_repo_mro()
        return other in self.ext_bases() or any(
            e.split(".")[-1] == other for e in self.ext_bases()
        )

    def __repr__(self):
        return "<Class %s>" % self.name


def _c3(cls):
    def merge(seqs):
        res = []
        seqs = [list(s) for s in seqs if s]
        while seqs:
            for s in seqs:
                cand = s[0]
                if not any(cand in t[1:] for t in seqs):
                    break
            else:
                raise AnalysisError("inconsistent MRO for %s" % cls.name)
            res.append(cand)
            seqs = [[x for x in s if x != cand] for s in seqs]
            seqs = [s for s in seqs if s]
        return res

    parents = []
    for b in cls.bases:
        if isinstance(b, ClassInfo):
            parents.append(b.mro())
        else:
            parents.append([b])
    return [cls] + merge(parents + [list(cls.bases)])


class ModuleInfo:
    def __init__(self, name, path, relpath, source):
        self.name = name
        self.path = path
        self.relpath = relpath
        self.source = source
        self.tree = ast.parse(source, filename=path)
        self.is_pkg = os.path.basename(path) == "__init__.py"
        self.imports = {}  # local name -> dotted target (module or module.attr)
        self.functions = {}
        self.classes = {}
        self.assigns = {}  # module-level simple assignments name -> expr
        self.short = name[len(PKG) + 1:] if name.startswith(PKG + ".") else name

    def __repr__(self):
        return "<Module %s>" % self.name


class Program:
    def __init__(self, repo=None):
        self.repo = repo or REPO
        self.root = os.path.join(self.repo, PKG)
        if not os.path.isdir(self.root):
            raise AnalysisError("package directory %s not found" % self.root)
        self.modules = {}
        self.classes_by_name = {}
        self.digest = None
        self._parse_all()
        self._collect()
        self._resolve_bases()

    # ------------------------------------------------------------------ parsing
    def _parse_all(self):
        h = hashlib.sha256()
        for dirpath, dirnames, filenames in os.walk(self.root):
            dirnames.sort()
            for fn in sorted(filenames):
                if not fn.endswith(".py"):
                    continue
                path = os.path.join(dirpath, fn)
                rel = os.path.relpath(path, self.repo)
                parts = rel[:-3].split(os.sep)
                if parts[-1] == "__init__":
                    parts = parts[:-1]
                name = ".".join(parts)
                with open(path, "r", encoding="utf-8") as f:
                    src = f.read()
                h.update(rel.encode())
                h.update(src.encode())
                try:
                    self.modules[name] = ModuleInfo(name, path, rel, src)
                except SyntaxError as e:
                    raise AnalysisError("cannot parse %s: %s" % (rel, e))
        self.digest = h.hexdigest()

    def _abs_module(self, mod, level, name):
        if level == 0:
            return name
        parts = mod.name.split(".")
        if not mod.is_pkg:
            parts = parts[:-1]
        if level > 1:
            parts = parts[: len(parts) - (level - 1)]
        if name:
            parts = parts + name.split(".")
        return ".".join(parts)

    def _collect(self):
        for mod in self.modules.values():
            for st in mod.tree.body:
                self._collect_stmt(mod, st)

    def _collect_stmt(self, mod, st):
        if isinstance(st, ast.Import):
            for a in st.names:
                if a.asname:
                    mod.imports[a.asname] = a.name
                else:
                    mod.imports[a.name.split(".")[0]] = a.name.split(".")[0]
        elif isinstance(st, ast.ImportFrom):
            base = self._abs_module(mod, st.level, st.module or "")
            for a in st.names:
                mod.imports[a.asname or a.name] = base + "." + a.name
        elif isinstance(st, ast.FunctionDef):
            fi = FuncInfo(st.name, st, mod)
            fi.decorators = [self._decor(mod, d) for d in st.decorator_list]
            mod.functions[st.name] = fi
        elif isinstance(st, ast.ClassDef):
            ci = ClassInfo(st.name, st, mod)
            mod.classes[st.name] = ci
            self.classes_by_name.setdefault(st.name, []).append(ci)
            for b in st.body:
                if isinstance(b, ast.FunctionDef):
                    fi = FuncInfo(b.name, b, mod, ci)
                    fi.decorators = [self._decor(mod, d) for d in b.decorator_list]
                    kinds = [k for k, _ in fi.decorators]
                    if "property" in kinds:
                        ci.props.setdefault(b.name, {})["get"] = fi
                    elif "setter" in kinds:
                        ci.props.setdefault(b.name, {})["set"] = fi
                    else:
                        ci.methods[b.name] = fi
                elif isinstance(b, ast.Assign) and len(b.targets) == 1 and isinstance(
                    b.targets[0], ast.Name
                ):
                    ci.class_attrs[b.targets[0].id] = b.value
                elif isinstance(b, ast.Assign) and len(b.targets) == 1 and isinstance(b.targets[0], (ast.Tuple, ast.List)) and all(isinstance(e, ast.Name) for e in b.targets[0].elts):
                    # a, b, c = <iterable> in a class body: name k is bound to element k of the iterable
                    names_, v_ = [e.id for e in b.targets[0].elts], b.value
                    if isinstance(v_, (ast.Tuple, ast.List)) and len(v_.elts) == len(names_):
                        for n_, e_ in zip(names_, v_.elts):
                            ci.class_attrs[n_] = e_
                    else:
                        for k_, n_ in enumerate(names_):
                            sub = ast.Subscript(value=ast.Call(func=ast.Name(id="list", ctx=ast.Load()), args=[v_], keywords=[]), slice=ast.Constant(k_), ctx=ast.Load())
                            ci.class_attrs[n_] = ast.fix_missing_locations(ast.copy_location(sub, v_))
        elif isinstance(st, ast.Assign):
            if len(st.targets) == 1 and isinstance(st.targets[0], ast.Name):
                mod.assigns[st.targets[0].id] = st.value
            elif len(st.targets) == 1 and isinstance(st.targets[0], (ast.Tuple, ast.List)) and all(isinstance(e, ast.Name) for e in st.targets[0].elts):
                # A, B, C = range(3)  /  A, B = x, y : each name bound to its own component
                names, v = [e.id for e in st.targets[0].elts], st.value
                if isinstance(v, (ast.Tuple, ast.List)) and len(v.elts) == len(names):
                    for n_, e in zip(names, v.elts):
                        mod.assigns[n_] = e
                elif (isinstance(v, ast.Call) and isinstance(v.func, ast.Name) and v.func.id == "range" and len(v.args) == 1 and not v.keywords
                      and isinstance(v.args[0], ast.Constant) and v.args[0].value == len(names)):
                    for k_, n_ in enumerate(names):
                        mod.assigns[n_] = ast.copy_location(ast.Constant(k_), v)
        elif isinstance(st, (ast.If, ast.Try)):
            for b in st.body:
                self._collect_stmt(mod, b)

    def _decor(self, mod, d):
        """Classify a decorator expression."""
        if isinstance(d, ast.Name):
            if d.id in ("property", "staticmethod", "classmethod"):
                return (d.id, None)
            tgt = mod.imports.get(d.id, d.id)
            return ("name", tgt)
        if isinstance(d, ast.Attribute):
            if d.attr == "setter":
                return ("setter", ast.unparse(d.value))
            if d.attr == "abstractmethod":
                return ("abstractmethod", None)
            return ("attr", ast.unparse(d))
        if isinstance(d, ast.Call):
            f = d.func
            nm = ast.unparse(f)
            tgt = mod.imports.get(nm, nm)
            return ("call", (tgt, d))
        return ("other", ast.unparse(d))

    def _resolve_bases(self):
        for mod in self.modules.values():
            for ci in mod.classes.values():
                for b in ci.base_exprs:
                    r = self.resolve_expr_static(mod, b)
                    if r and r[0] == "class":
                        ci.bases.append(r[1])
                    elif r and r[0] == "ext":
                        ci.bases.append(("ext", r[1]))
                    else:
                        ci.bases.append(("ext", ast.unparse(b)))

    # --------------------------------------------------------------- resolution
    def resolve_dotted(self, dotted, _depth=0):
        """Resolve an absolute dotted name to ('module', M) | ('class', C) | ('func', F)
        | ('const', (module, expr)) | ('ext', dotted)."""
        if _depth > 10:
            raise AnalysisError("import cycle resolving %s" % dotted)
        if dotted in self.modules:
            return ("module", self.modules[dotted])
        if not dotted.startswith(PKG):
            return ("ext", dotted)
        head, _, attr = dotted.rpartition(".")
        if head in self.modules:
            mod = self.modules[head]
            return self.resolve_in_module(mod, attr, _depth + 1)
        # deeper attribute, e.g. qucumber.utils.cplx.real handled by caller
        r = self.resolve_dotted(head, _depth + 1)
        if r and r[0] == "module":
            return self.resolve_in_module(r[1], attr, _depth + 1)
        if r and r[0] == "ext":
            return ("ext", dotted)
        return None

    def resolve_in_module(self, mod, name, _depth=0):
        if name in mod.classes:
            return ("class", mod.classes[name])
        if name in mod.functions:
            return ("func", mod.functions[name])
        if name in mod.assigns:
            return ("const", (mod, mod.assigns[name]))
        if name in mod.imports:
            return self.resolve_dotted(mod.imports[name], _depth + 1)
        sub = mod.name + "." + name
        if sub in self.modules:
            return ("module", self.modules[sub])
        return None

    def resolve_expr_static(self, mod, expr):
        """Resolve Name / dotted Attribute expression appearing at module scope."""
        if isinstance(expr, ast.Name):
            return self.resolve_in_module(mod, expr.id)
        if isinstance(expr, ast.Attribute):
            base = self.resolve_expr_static(mod, expr.value)
            if base is None:
                return None
            if base[0] == "module":
                return self.resolve_in_module(base[1], expr.attr)
            if base[0] == "ext":
                return ("ext", base[1] + "." + expr.attr)
            return None
        return None

    # ------------------------------------------------------------------ lookups
    def cls(self, name):
        cs = self.classes_by_name.get(name)
        if not cs:
            raise AnalysisError("anchor vanished: class %s not found" % name)
        if len(cs) > 1:
            raise AnalysisError("ambiguous class name %s" % name)
        return cs[0]

    def has_cls(self, name):
        return name in self.classes_by_name

    def func(self, modname, name):
        m = self.modules.get(modname)
        if m is None or name not in m.functions:
            raise AnalysisError("anchor vanished: function %s.%s not found" % (modname, name))
        return m.functions[name]

    def method(self, clsname, name):
        c = self.cls(clsname)
        f = c.find_method(name)
        if f is None:
            p = c.find_prop(name)
            if p and "get" in p:
                return p["get"]
            raise AnalysisError("anchor vanished: method %s.%s not found" % (clsname, name))
        return f

    def own_method(self, clsname, name):
        c = self.cls(clsname)
        if name not in c.methods:
            raise AnalysisError("anchor vanished: %s does not define %s" % (clsname, name))
        return c.methods[name]

    def subclasses(self, base, concrete_only=False):
        out = []
        for cs in self.classes_by_name.values():
            for c in cs:
                if c is not base and base in c.in_repo_mro():
                    out.append(c)
        out.sort(key=lambda c: c.qualname)
        return out

    def all_functions(self):
        for mod in sorted(self.modules.values(), key=lambda m: m.name):
            for f in mod.functions.values():
                yield f
            for c in mod.classes.values():
                for f in c.methods.values():
                    yield f
                for p in c.props.values():
                    for f in p.values():
                        yield f

    def stats(self):
        nf = sum(1 for _ in self.all_functions())
        nc = sum(len(m.classes) for m in self.modules.values())
        return {"modules": len(self.modules), "functions": nf, "classes": nc, "digest": self.digest[:16]}


# ---------------------------------------------------------------------------
# torch.nn.Module API table (read with ast from the installed torch source, never imported)
_FALLBACK_MODULE_API = {
    "register_buffer", "register_parameter", "add_module", "apply", "cuda", "cpu", "type",
    "float", "double", "half", "to", "state_dict", "load_state_dict", "parameters",
    "named_parameters", "buffers", "named_buffers", "children", "named_children", "modules",
    "named_modules", "train", "eval", "requires_grad_", "zero_grad", "share_memory",
    "extra_repr", "forward", "__call__", "__repr__", "__dir__", "__setattr__", "__getattr__",
    "__delattr__", "register_forward_hook", "register_backward_hook", "bfloat16", "to_empty",
    "get_parameter", "get_submodule", "get_buffer", "xpu", "ipu",
}


def private_helper_resolver(program):
    """Resolver for cfg.CFG: `self._name(...)` -> method of the owner's class (or a base class in the repository),
    `_name(...)` -> function of the owner's module.  Only names starting with one underscore (the repository's private stages)."""
    import ast as _ast

    by_qual = {}
    for mod in program.modules.values():
        for f in getattr(mod, "functions", {}).values():
            by_qual[f.qualname] = f
        for c in getattr(mod, "classes", {}).values():
            for f in c.methods.values():
                by_qual[f.qualname] = f

    def resolve(call, owner):
        fi = by_qual.get(owner)
        if fi is None:
            return None
        fn = call.func
        if isinstance(fn, _ast.Attribute) and isinstance(fn.value, _ast.Name) and fn.value.id == "self" and fn.attr.startswith("_") and not fn.attr.startswith("__") and fi.cls is not None:
            m = fi.cls.find_method(fn.attr)
            if m is not None and getattr(m, "node", None) is not None and not m.decorators:
                return m.node, m.qualname
        if isinstance(fn, _ast.Name) and fn.id.startswith("_") and not fn.id.startswith("__"):
            m = getattr(fi.module, "functions", {}).get(fn.id)
            if m is not None and getattr(m, "node", None) is not None and not m.decorators:
                return m.node, m.qualname
        return None

    return resolve


def module_api_table():
    """Return (set of method names of torch.nn.Module, source description)."""
    cands = []
    for p in sys.path + ["/venv/lib/python3.12/site-packages"]:
        cands.append(os.path.join(p, "torch", "nn", "modules", "module.py"))
    import glob

    cands += glob.glob("/venv/lib/python3*/site-packages/torch/nn/modules/module.py")
    for c in cands:
        if os.path.isfile(c):
            try:
                with open(c, "r", encoding="utf-8") as f:
                    tree = ast.parse(f.read())
            except Exception:
                continue
            for st in tree.body:
                if isinstance(st, ast.ClassDef) and st.name == "Module":
                    names = set()
                    for b in st.body:
                        if isinstance(b, ast.FunctionDef):
                            names.add(b.name)
                        elif isinstance(b, ast.AnnAssign) and isinstance(b.target, ast.Name):
                            names.add(b.target.id)
                        elif isinstance(b, ast.Assign):
                            for t in b.targets:
                                if isinstance(t, ast.Name):
                                    names.add(t.id)
                    if "to" in names and "parameters" in names:
                        return names, c
    return set(_FALLBACK_MODULE_API), "frozen fallback table"
