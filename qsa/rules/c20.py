"""C20 – construction and reset contracts."""
from .. import terms as T
from .common import *  # noqa: F401,F403
from . import api
from ..ops_ext import module_params

STATES = api.STATES
RBM_OF = {"PositiveWaveFunction": "BinaryRBM", "ComplexWaveFunction": "BinaryRBM", "DensityMatrix": "PurificationRBM"}


def param_objs(it, modv):
    return [p.obj for _, p in module_params(it, modv)]


def cat_segments(term):
    """Segments of a cat(...) along the last axis inside (optionally) a complex pair."""
    comps = T.as_stack0(term)
    parts = list(comps) if comps is not None else [term]
    out = []
    for c in parts:
        at = c.single_atom() if c is not None else None
        if c is not None and c.is_zero():
            out.append("zero")
        elif at is not None and isinstance(at, T.App) and at.op == "cat":
            out.append(list(at.args[0]))
        else:
            out.append(None)
    return out


def run(ck):
    prog = ck.program
    # ------------------------------------------------------------------ R1/R2 module= branch
    for cls in STATES:
        c = prog.cls(cls)
        isite = c.find_method("__init__").site()
        inst = cls + "(module=...)"
        with ck.guard("C20.R1", inst, isite):
            def th(it):
                m = make_rbm(it, RBM_OF[cls], "user_module")
                s = make_state(it, cls, with_module=m)
                return m, s

            paths = paths_of(prog, th, sticky=True)
            for p in returning(paths, inst):
                it = p.interp
                m, s = p.value
                am = it.get_attr(s, "rbm_am", None)
                ck.check(isinstance(am, VObj) and am.inst is m.inst, "C20.R1", inst + ":uses the given module as amplitude network", isite, "rbm_am is not the user-supplied module")
                # ... with its parameters as they are: construction writes none of them
                mobjs = set(param_objs(it, m))
                wr = [e for e in list(getattr(it, "ctor_effects", [])) + list(p.effects) if e.kind in ("write", "params") and (e.obj in mobjs or any(getattr(o_, "rebound_from", None) is e.obj for o_ in mobjs))]
                ck.check(not wr, "C20.R1", inst + ":the given module's parameters are left as they are", wr[0].site if wr else isite,
                         "constructing the state writes a parameter of the user-supplied module (%s): the amplitude network is no longer the RBM that was given, and the caller's module is changed"
                         % (wr[0].detail if wr else ""), key="C20.R1|%s|module parameter written" % cls)
                ck.ok("C20.R1", inst + ":constructible", isite)
                for attr in ("num_visible", "num_hidden") + (("num_aux",) if cls == "DensityMatrix" else ()):
                    sv_, mv_ = s.inst.attrs.get(attr), m.inst.attrs.get(attr)
                    ck.check(num_term(sv_) is not None and num_term(sv_) == num_term(mv_), "C20.R2", inst + ":%s read back from the module" % attr, isite, "%s of the state is not the module's" % attr)
                if cls != "PositiveWaveFunction":
                    ph = it.get_attr(s, "rbm_ph", None)
                    ok = isinstance(ph, VObj) and ph.inst is not am.inst and ph.inst.cls is am.inst.cls
                    ck.check(ok, "C20.R2", inst + ":phase network is a separate object", isite, "rbm_ph is the same object as rbm_am (or of another class)")
                    if ok:
                        pa, pp = param_objs(it, am), param_objs(it, ph)
                        shared = [o for o in pp if any(o in x.roots() or x in o.roots() for x in pa)]
                        ck.check(not shared and len(pa) == len(pp) and len(pp) > 0, "C20.R2", inst + ":independent parameter storage", isite,
                                 "the phase network shares parameter storage with the amplitude network (changing one changes the other)")
                        ck.check([x.shape for x in pa] == [x.shape for x in pp], "C20.R2", inst + ":copy has the same shapes", isite, "the phase network's parameter shapes differ from the module's")
    # ------------------------------------------------------------------ R2/R3 size branch
    for cls in STATES:
        c = prog.cls(cls)
        isite = c.find_method("__init__").site()
        inst = cls + "(sizes)"
        with ck.guard("C20.R3", inst, isite):
            def th(it):
                kwargs = {"num_visible": dimval("nv"), "num_hidden": dimval("nh"), "gpu": VConst(False)}
                if cls == "DensityMatrix":
                    kwargs["num_aux"] = dimval("na")
                return it.instantiate(c, [], kwargs, None)

            for p in returning(paths_of(prog, th, sticky=True), inst):
                it = p.interp
                s = p.value
                nets = state_networks(it, s)
                mods = [it.get_attr(s, n, None) for n in nets]
                ck.check(all(isinstance(m, VObj) and m.inst.cls is prog.cls(RBM_OF[cls]) for m in mods), "C20.R3", inst + ":network classes", isite, "networks are not %s instances" % RBM_OF[cls])
                if len(mods) == 2:
                    pa, pp = param_objs(it, mods[0]), param_objs(it, mods[1])
                    ck.check(mods[0].inst is not mods[1].inst and not (set(pa) & set(pp)), "C20.R2", inst + ":independent networks", isite, "amplitude and phase network share objects")
                ctor = [r for r in p.calls if r[0] == RBM_OF[cls] + ".__init__"]
                ck.check(len(ctor) == len(nets), "C20.R3", inst + ":one RBM per network", isite, "%d RBMs constructed for %d networks" % (len(ctor), len(nets)))
                for r in ctor:
                    env = r[5]
                    for par, sym_ in (("num_visible", "nv"), ("num_hidden", "nh")) + ((("num_aux", "na"),) if cls == "DensityMatrix" else ()):
                        ck.check(num_term(env.get(par)) == T.sym(sym_), "C20.R3", inst + ":%s bound to the RBM's %s" % (sym_, par), isite,
                                 "the RBM constructor receives %r as %s" % (num_term(env.get(par)), par))
                want_shapes = {"BinaryRBM": [("nh", "nv"), ("nv",), ("nh",)], "PurificationRBM": [("nh", "nv"), ("na", "nv"), ("nv",), ("nh",), ("na",)]}[RBM_OF[cls]]
                for m in mods:
                    ps = module_params(it, m)
                    # the multiset of shapes (which parameter is registered first is C03's / C06's business, not this property's)
                    ck.check(sorted(map(str, [q.shape for _, q in ps])) == sorted(map(str, want_shapes)), "C20.R3", inst + ":parameter shapes", isite,
                             "parameter shapes %s, expected %s" % ([q.shape for _, q in ps], want_shapes))
                    for nme, q in ps:
                        t = q.term
                        if len(q.shape) == 2:
                            okw = t is not None and any(isinstance(a, T.App) and a.op == "rng_randn" for a in t.all_atoms()) and T.app("sqrt", T.sym("nv")) in [T.P(a) for a in t.all_atoms()]
                            ck.check(okw, "C20.R3", inst + ":%s random / sqrt(num_visible)" % nme, isite, "weights are initialised as %r, expected randn/sqrt(num_visible)" % (t,))
                        else:
                            ck.check(t is not None and t.is_zero(), "C20.R3", inst + ":%s zero" % nme, isite, "bias %s is initialised as %r, expected zeros" % (nme, t))
    # an explicit size is the size, also when it is falsy: num_aux = 0 (a pure state written as a mixed one) must not fall back to the default
    dmc = prog.cls("DensityMatrix")
    with ck.guard("C20.R3", "DensityMatrix(num_aux=0)", dmc.find_method("__init__").site()):
        def th0(it):
            return it.instantiate(dmc, [], {"num_visible": dimval("nv"), "num_hidden": dimval("nh"), "num_aux": VConst(0), "gpu": VConst(False)}, None)

        for p in returning(paths_of(prog, th0, sticky=True), "DensityMatrix(num_aux=0)"):
            m = p.interp.get_attr(p.value, "rbm_am", None)
            na_ = num_term(p.interp.get_attr(m, "num_aux", None)) if isinstance(m, VObj) else None
            ck.check(na_ is not None and na_.is_zero(), "C20.R3", "DensityMatrix(num_aux=0):the requested size is used", prog.cls("PurificationRBM").find_method("__init__").site(),
                     "DensityMatrix(num_aux=0) builds networks with num_aux = %r: an explicit size of 0 is replaced by the default (a truth-value test instead of `is not None`)" % (na_,),
                     key="C20.R3|explicit zero size replaced")
    for rbm in ("BinaryRBM", "PurificationRBM"):
        with ck.guard("C20.R3", rbm + "/zero_weights"):
            def thz(it):
                kwargs = {"num_visible": dimval("nv"), "num_hidden": dimval("nh"), "gpu": VConst(False), "zero_weights": VConst(True)}
                return it.instantiate(prog.cls(rbm), [], kwargs, None)

            for p in returning(paths_of(prog, thz), rbm):
                ok = all(q.term is not None and q.term.is_zero() for _, q in module_params(p.interp, p.value))
                ck.check(ok, "C20.R3", rbm + "/zero_weights", prog.method(rbm, "initialize_parameters").site(), "zero_weights=True does not zero every parameter")
    # ------------------------------------------------------------------ R4 reinitialisation and fit guards
    for cls, zero_mod in [(c_, z_) for c_ in STATES for z_ in (False, True)]:
        rsite = prog.method(cls, "reinitialize_parameters").site()
        # (second context: the state was built around a module that had been constructed with zero_weights=True - reinitialising
        # still means new random weights)
        inst = cls + ".reinitialize_parameters" + ("/module built with zero weights" if zero_mod else "")
        with ck.guard("C20.R4", inst, rsite):
            def th(it, cls=cls, zero_mod=zero_mod):
                if zero_mod:
                    rcls = prog.cls("PurificationRBM" if cls == "DensityMatrix" else "BinaryRBM")
                    kw_ = {"num_visible": dimval("nv"), "num_hidden": dimval("nh"), "zero_weights": VConst(True), "gpu": VConst(False)}
                    if cls == "DensityMatrix":
                        kw_["num_aux"] = dimval("na")
                    s = make_state(it, cls, with_module=it.instantiate(rcls, [], kw_, None))
                else:
                    s = make_state(it, cls)
                before = {n: [q.shape for _, q in module_params(it, it.get_attr(s, n, None))] for n in state_networks(it, s)}
                sizes = {k: num_term(v) for k, v in s.inst.attrs.items() if k.startswith("num_")}
                call(it, s, "reinitialize_parameters")
                return s, before, sizes

            for p in returning(paths_of(prog, th, sticky=True), inst):
                it = p.interp
                s, before, sizes = p.value
                nets = state_networks(it, s)
                ic = [r for r in p.calls if r[0].endswith(".initialize_parameters")]
                done = []
                for r in ic:
                    sv = r[5].get("self")
                    for n in nets:
                        if it.get_attr(s, n, None).inst is sv.inst:
                            done.append(n)
                ck.check(sorted(done) == sorted(nets), "C20.R4", inst + ":every network redrawn", rsite, "initialize_parameters is called for %s; networks are %s" % (done, nets))
                after = {n: [q.shape for _, q in module_params(it, it.get_attr(s, n, None))] for n in nets}
                ck.check({n: sorted(map(str, v)) for n, v in after.items()} == {n: sorted(map(str, v)) for n, v in before.items()}, "C20.R4", inst + ":shapes unchanged", rsite,
                         "parameter shapes change on reinitialisation")
                sizes2 = {k: num_term(v) for k, v in s.inst.attrs.items() if k.startswith("num_")}
                ck.check(sizes2 == sizes, "C20.R4", inst + ":sizes unchanged", rsite, "num_* attributes change on reinitialisation")
                # values: the state was built with arbitrary ("trained") parameter values rbm_*.<name>; after reinitialisation no
                # parameter may still depend on them - weights are fresh random draws, biases are zero as at construction
                for n in nets:
                    for pname, q in module_params(it, it.get_attr(s, n, None)):
                        t = q.term
                        old_dep = sorted(x for x in (t.syms() if t is not None else set()) if x.startswith("rbm_"))
                        if t is None:
                            ck.undecided("C20.R4", inst + ":%s.%s redrawn" % (n, pname), rsite, "value after reinitialisation unknown")
                            continue
                        ck.check(not old_dep, "C20.R4", inst + ":%s.%s redrawn [%s]" % (n, pname, path_tag(p)), rsite,
                                 "after reinitialisation %s.%s still depends on its previous value (%s): the parameter is not redrawn" % (n, pname, ", ".join(old_dep)))
                        if not old_dep:
                            is_rng = any(isinstance(a, T.App) and a.op.startswith("rng_") for a in t.all_atoms())
                            if "bias" in pname:
                                ck.check(t.is_zero(), "C20.R4", inst + ":%s.%s is zero again [%s]" % (n, pname, path_tag(p)), rsite, "bias after reinitialisation is %r, expected 0" % (t,))
                            else:
                                ck.check(is_rng, "C20.R4", inst + ":%s.%s is a fresh random draw [%s]" % (n, pname, path_tag(p)), rsite, "weights after reinitialisation are %r, expected a new random draw" % (t,))
    for cls in ("ComplexWaveFunction", "DensityMatrix"):
        fsite = prog.method(cls, "fit").site()
        inst = cls + ".fit without bases"
        with ck.guard("C20.R4", inst, fsite):
            def thf(it):
                s = make_state(it, cls)
                return call(it, s, "fit", tens(it, "data", ("N", "nv")))

            paths = paths_of(prog, thf, sticky=True)
            for p in paths:
                ok = p.outcome == "raise" and p.value.exc_name == "ValueError"
                ck.check(ok, "C20.R4", inst + ":refused", fsite, "training without measurement bases is not refused with ValueError (%s)" % (p.value,))
                base_calls = [r for r in p.calls if r[0] == "NeuralStateBase.fit"]
                eff = [e for e in p.effects if e.kind in ("params", "grad", "write", "setattr", "rebind-param", "container")]
                ck.check(not base_calls and not eff, "C20.R4", inst + ":before anything changes", fsite, "something happens before the refusal (%s)" % ([e.detail for e in eff][:2] or "NeuralStateBase.fit called"))
    # ------------------------------------------------------------------ R5 zero gradient for the phase auxiliary bias
    with ck.guard("C20.R5", "phase aux-bias gradient"):
        def thg(it):
            s = make_state(it, "DensityMatrix")
            ph = it.get_attr(s, "rbm_ph", None)
            order = [n for n, _ in module_params(it, ph)]
            roles = {r: n for r, (n, _) in params_by_shape(it, ph).items()}
            from ..values import dim_size

            numel = {}
            for n_, q_ in module_params(it, ph):
                numel[n_] = dim_size(("flat", tuple(q_.shape))) if len(q_.shape) > 1 else dim_size(q_.shape[0])
            out = {"order": order, "roles": roles, "numel": numel}
            for expand, sv, svp in ((True, ("Bv", "nv"), ("Bp", "nv")), (False, ("B", "nv"), ("B", "nv"))):
                v, vp = tens(it, "v", sv), tens(it, "vp", svp)
                out[("gamma_grad", expand)] = call(it, ph, "gamma_grad", v, vp, eta=VConst(-1), expand=VConst(expand))
                out[("pi_grad", expand)] = call(it, s, "pi_grad", v, vp, phase=VConst(True), expand=VConst(expand))
            out["ph_grads"] = call(it, s, "ph_grads", tens(it, "v", ("E", "B", "nv")))
            return out

        for p in returning(paths_of(prog, thg, sticky=True), "phase grads"):
            shape_err_verdict(ck, "C20.R5", "phase grads", [p])
            o = p.value
            k_d = o["order"].index(o["roles"]["d"])
            k_U = o["order"].index(o["roles"]["U"])
            for key, v in o.items():
                if not isinstance(key, tuple):
                    continue
                fn, expand = key
                site = prog.method("PurificationRBM" if fn == "gamma_grad" else "DensityMatrix", fn).site()
                segs = cat_segments(v.term) if v.term is not None else [None]
                # a tail of the vector overwritten with zeros afterwards: x[..., -L:] = 0 on a concatenation of parameter segments
                tail_L = None
                at_ = v.term.single_atom() if v.term is not None else None
                if at_ is not None and isinstance(at_, T.App) and at_.op == "upd" and at_.args[2].is_zero() and at_.args[1] and isinstance(at_.args[1][-1], (tuple, list)) and at_.args[1][-1][0] == "slice" \
                        and at_.args[1][-1][2] is None and at_.args[1][-1][3] is None and all(x == "ellipsis" or tuple(x) == ("slice", None, None, None) for x in at_.args[1][:-1]):
                    lo = at_.args[1][-1][1]
                    lo = lo if hasattr(lo, "syms") else (T.const(lo) if isinstance(lo, int) else None)
                    if lo is not None:
                        tail_L = -lo
                        segs = cat_segments(at_.args[0])
                names = ["real", "imag"]
                for part, sg in zip(names, segs):
                    inst = "%s/expand=%s/%s" % (fn, expand, part)
                    if tail_L is not None and sg is not None and sg != "zero" and len(sg) == len(o["order"]):
                        last = o["order"][-1]
                        if k_d == len(o["order"]) - 1 and tail_L == o["numel"][last]:
                            sg = list(sg)
                            sg[k_d] = T.ZERO
                        else:
                            ck.violation("C20.R5", inst + ":aux_bias segment is zero", site,
                                         "the last %r entries of the gradient vector are set to zero, but the auxiliary-bias segment is the last %r entries: with num_hidden != num_aux part of the "
                                         "auxiliary-bias gradient survives (or part of the hidden-bias gradient is lost)" % (tail_L, o["numel"][last]))
                            continue
                    if sg == "zero":
                        ck.ok("C20.R5", inst + ":aux_bias segment is zero", site)
                        continue
                    if sg is None or len(sg) != len(o["order"]):
                        ck.undecided("C20.R5", inst, site, "gradient vector is not a concatenation of %d parameter segments" % len(o["order"]))
                        continue
                    ck.check(sg[k_d].is_zero(), "C20.R5", inst + ":aux_bias segment is zero", site,
                             "the phase network's auxiliary-bias gradient segment is %r, not structurally zero: the documented invariant aux_bias(rbm_ph) = 0 is not preserved by training" % (sg[k_d],))
                    if fn == "gamma_grad":
                        ck.check(sg[k_U].is_zero(), "C20.R5", inst + ":weights_U segment is zero", site, "Gamma does not depend on U, but its U-gradient segment is %r" % (sg[k_U],))
            # ph_grads = i*gamma_grad(-) + pi_grad(phase=True): the sum's aux segment
            t = o["ph_grads"].term
            ok = None
            if t is not None:
                last_n = o["numel"][o["order"][-1]]

                def zero_tail(a):
                    """upd(x, [..., -L:], 0) with L = length of the (last) auxiliary-bias segment"""
                    if not (isinstance(a, T.App) and a.op == "upd" and a.args[2].is_zero() and a.args[1] and isinstance(a.args[1][-1], (tuple, list)) and a.args[1][-1][0] == "slice"):
                        return False
                    lo = a.args[1][-1][1]
                    lo = lo if hasattr(lo, "syms") else (T.const(lo) if isinstance(lo, int) else None)
                    return lo is not None and a.args[1][-1][2] is None and k_d == len(o["order"]) - 1 and -lo == last_n

                # a linear combination of gradient vectors: every one must have a zero auxiliary-bias segment (a concatenation whose
                # segment is zero, or a vector whose tail of that length was overwritten with zeros afterwards)
                atoms = list(t.all_atoms())
                covered = set()
                for a in atoms:
                    if zero_tail(a):
                        covered |= set(a.args[0].all_atoms())
                cats = [a for a in atoms if isinstance(a, T.App) and a.op == "cat" and len(a.args[0]) == len(o["order"])]
                if cats:
                    ok = all(a in covered or a.args[0][k_d].is_zero() for a in cats)
            ck.check(ok, "C20.R5", "ph_grads:aux_bias segment is zero", prog.method("DensityMatrix", "ph_grads").site(), "the assembled phase gradient has a non-zero auxiliary-bias segment")
    with ck.guard("C20.R5", "all-Z branch"):
        # decided on values: on every path of gradient(samples, bases) that finds no rotated site in a group, that group's
        # contribution to the phase gradient is zero (whatever the spelling: a literal 0, nothing added, a zero tensor)
        from .c03 import stub_rotated

        g = prog.method("NeuralStateBase", "gradient")
        n_ref = 0
        for cls in ("ComplexWaveFunction", "DensityMatrix"):
            def thz(it, cls=cls):
                s = make_state(it, cls)
                return s, call(it, s, "gradient", tens(it, "S", ("B", "nv")), api.bases_arr(it, "bases", "B"))

            for p in [q for q in paths_of(prog, thz, sticky=True, max_paths=20, stubs={cls + ".rotated_gradient": stub_rotated}) if q.outcome == "return"]:
                if some_selected(p, "") is not False:
                    continue
                n_ref += 1
                items = p.interp.concrete_items(p.value[1])
                t1 = items[1].term if items is not None and len(items) > 1 and isinstance(items[1], VTens) else None
                at1 = t1.single_atom() if t1 is not None else None
                zero = t1 is not None and (t1.is_zero() or (at1 is not None and isinstance(at1, T.App) and at1.op == "accum" and at1.args[2].is_zero() and at1.args[3].is_zero()))
                ck.check(True if zero else (None if t1 is None else False), "C20.R5", "reference-basis rows contribute no phase gradient/%s" % cls, g.site(),
                         "a group measured in the reference basis adds %r to the phase gradient, expected nothing" % (t1,))
        if n_ref == 0:
            ck.undecided("C20.R5", "reference-basis rows contribute no phase gradient", g.site(), "no path of gradient() handles a group without rotated sites")
    # ------------------------------------------------------------------ R6 two states alive at once ("any sequence of construct / ...")
    # what a state holds after its construction is its own: constructing (or reinitialising) another state - of the same or of
    # another type - leaves the first one's networks the very objects they were, with the parameters they had
    for cls_a in STATES:
        for cls_b in STATES:
            inst = "%s, then %s constructed" % (cls_a, cls_b)
            isite = prog.method(cls_b, "__init__").site()
            with ck.guard("C20.R6", inst, isite):
                def th2(it, cls_a=cls_a, cls_b=cls_b):
                    a = make_state(it, cls_a)
                    before = {n: it.get_attr(a, n, None) for n in state_networks(it, a)}
                    pb = {n: param_objs(it, before[n]) for n in before}
                    b = make_state(it, cls_b)
                    call(it, b, "reinitialize_parameters")
                    after = {n: it.get_attr(a, n, None) for n in before}
                    nb = {n: it.get_attr(b, n, None) for n in state_networks(it, b)}
                    return before, pb, after, nb, a

                for p in paths_of(prog, th2, max_paths=12):
                    if p.outcome != "return":
                        ck.undecided("C20.R6", inst, isite, "the two constructions do not return: %s" % (str(p.value)[:100],))
                        continue
                    before, pb, after, nb, a = p.value
                    for n in before:
                        same = isinstance(before[n], VObj) and isinstance(after[n], VObj) and after[n].inst is before[n].inst
                        ck.check(True if same else (False if isinstance(after[n], (VObj, VConst)) else None), "C20.R6", inst + ":the first state keeps its %s" % n, isite,
                                 "after a second state has been constructed the first state's %s is %s: the states share what stores their networks" % (n, "another object" if isinstance(after[n], VObj) else "gone"),
                                 key="C20.R6|%s|%s shared" % (cls_a, n))
                        if same:
                            ck.check(param_objs(p.interp, after[n]) == pb[n], "C20.R6", inst + ":%s keeps its parameter tensors" % n, isite, "the parameters of the first state's %s were replaced" % n)
                        shared = [m for m, v in nb.items() if isinstance(v, VObj) and isinstance(before[n], VObj) and v.inst is before[n].inst]
                        ck.check(not shared, "C20.R6", inst + ":the second state has its own %s" % n, isite, "the second state's %s is the first state's %s" % (", ".join(shared), n))
    ck.require_min("C20.R6", 18)
    ck.require_min("C20.R1", 6)
    ck.require_min("C20.R2", 12)
    ck.require_min("C20.R3", 30)
    ck.require_min("C20.R4", 13)
    ck.require_min("C20.R5", 8)
    ck.assumptions += [
        "nn.Module.to(device) returns the module itself; copy.deepcopy of a module copies every parameter tensor",
        "optimizers move a parameter only by a function of its gradient (weight decay acts on the value, which is zero for the phase auxiliary bias)",
    ]
