"""History independence (two-call protocol) - a rule family shared by several properties.

The properties quantify over *all parameter values*, however they were reached.  A result that is computed from the
current parameters on every call satisfies this trivially; a memoised one only if the memo is invalidated by every
parameter change.  The rule interprets

        r1 = f(state, args);   <every parameter replaced the way `p.data = new` does>;   r2 = f(state, args)

and compares r2 with what a first call would give under the new parameters (r1 with every old parameter symbol
renamed).  `p.data = new` keeps the tensor objects, their shapes and their in-place version counters (`_version`), so a
cache keyed on object identity, shapes, the arguments or `_version` is *decided* to hit and its stale value shows up as a
dependence of r2 on old parameter symbols.

Verdicts:  r2 == renamed r1                        -> pass
           r2 mentions an old parameter symbol and the second call took no branch it could not evaluate -> VIOLATION
           r2 mentions an old symbol but the reuse hinges on a condition the analyser cannot evaluate     -> UNDECIDED
           the tensor handed out by the first call is the one handed out by the second, or was changed by it -> VIOLATION
"""
import re

from .. import terms as T
from ..ctx import run as paths_of, state_networks
from ..interp import snapshot_terms
from ..ops_ext import module_params
from ..values import VTens, VList, VTuple, VObj

MARK = "'"


def havoc_state(it, s):
    """`p.data = <new value>` for every parameter of every network of the state.  Returns {old symbol: new symbol}."""
    mapping = {}
    for n in state_networks(it, s):
        m = it.get_attr(s, n, None)
        for name, q in module_params(it, m):
            old = q.obj.term
            at = old.single_atom() if old is not None else None
            base = at.name if isinstance(at, T.Sym) else "%s.%s" % (n, name)
            mapping[base] = base + MARK
            _rebind(it, q, T.sym(base + MARK))
    return mapping


def _rebind(it, q, term):
    """`q.data = <new tensor>`: same python object, flags and version counter, other storage (views taken earlier go stale)."""
    if q.view:
        q.obj.term = term
    else:
        it.rebind_storage(q, term, None, "set .data (history protocol)")


def havoc_module(it, m, prefix):
    mapping = {}
    for name, q in module_params(it, m):
        old = q.obj.term
        at = old.single_atom() if old is not None else None
        base = at.name if isinstance(at, T.Sym) else "%s.%s" % (prefix, name)
        mapping[base] = base + MARK
        _rebind(it, q, T.sym(base + MARK))
    return mapping


def havoc_reinit(it, s):
    """The library's own way of replacing every parameter: `reinitialize_parameters()` creates *new* Parameter objects (what
    was captured before - a view, a bound partial, a tensor kept in an attribute - keeps the old ones).  The new objects then
    hold new values."""
    names = {}
    for n in state_networks(it, s):
        m = it.get_attr(s, n, None)
        for name, q in module_params(it, m):
            at = q.obj.term.single_atom() if q.obj.term is not None else None
            names[(n, name)] = at.name if isinstance(at, T.Sym) else "%s.%s" % (n, name)
    it.call_method(s, "reinitialize_parameters", [], {}, None)
    mapping = {}
    for n in state_networks(it, s):
        m = it.get_attr(s, n, None)
        for name, q in module_params(it, m):
            base = names.get((n, name), "%s.%s" % (n, name))
            mapping[base] = base + MARK
            q.obj.term = T.sym(base + MARK)
    return mapping


def _has_reinit(it, s):
    return isinstance(s, VObj) and s.inst.cls is not None and s.inst.cls.find_method("reinitialize_parameters") is not None


_COUNTERS = re.compile(r"\b(nnz|T)\d+")


def _canon(t):
    """Names that carry a per-path creation counter (nnz<k>@site, T<id>) are compared without the counter: the second call
    creates its own objects."""
    if not hasattr(t, "syms"):
        return t
    m = {s_: _COUNTERS.sub(lambda g: g.group(1) + "#", s_) for s_ in t.syms() if _COUNTERS.search(s_)}
    return T.rename_syms(t, m) if m else t


def _flat(x):
    if isinstance(x, (list, tuple)):
        out = []
        for y in x:
            out.extend(_flat(y))
        return out
    return [x]


def _objs(it, v):
    if isinstance(v, VTens):
        return [v.obj]
    if isinstance(v, (VList, VTuple)):
        items = it.concrete_items(v)
        out = []
        for x in items or []:
            out.extend(_objs(it, x))
        return out
    return []


def havoc_args(it, args):
    """In-place overwrite (x.copy_(new): same object, version counter bumped) of every tensor argument that is a plain symbol."""
    mapping = {}
    for a in args:
        if isinstance(a, VTens) and not a.view and a.obj.term is not None:
            at = a.obj.term.single_atom()
            if isinstance(at, T.Sym):
                mapping[at.name] = at.name + MARK
                a.obj.term = T.sym(at.name + MARK)
                a.obj.version += 1
    return mapping


def _same(x, want):
    return x == want or _COUNTERS.sub(lambda g: g.group(1) + "#", repr(x)) == _COUNTERS.sub(lambda g: g.group(1) + "#", repr(want))


def check_history(ck, rule, inst, site, make, f, stubs=None, max_paths=48, sticky=True, havoc=None, same_object_ok=False, inputs=True):
    """make(it) -> ctx (ctx[0] is the state / module, the rest are the call's arguments); f(it, ctx) -> result value.
    Three calls: r1; parameters replaced; r2; tensor arguments overwritten in place; r3."""
    prog = ck.program

    def th(it, mode=0):
        ctx = make(it)
        r1 = f(it, ctx)
        t1 = snapshot_terms(it, r1)
        k1, c1 = len(it.taken), len(it.conds)
        if mode == 1:
            if not _has_reinit(it, ctx[0]):
                return None
            mp = havoc_reinit(it, ctx[0])
        else:
            mp = (havoc or havoc_state)(it, ctx[0])
        k1, c1 = len(it.taken), len(it.conds)
        r2 = f(it, ctx)
        t2 = snapshot_terms(it, r2)
        t1_after = snapshot_terms(it, r1)
        k2, c2 = len(it.taken), len(it.conds)
        rec = {"r": [r1, r2], "t": [t1, t2], "t1_after": t1_after, "maps": [dict(mp)], "new_decisions": [k2 - k1], "conds": [list(it.conds[c1:c2])], "args": ctx[1:], "mode": mode}
        if inputs and mode == 0:
            ma = havoc_args(it, ctx[1:])
            if ma:
                r3 = f(it, ctx)
                rec["r"].append(r3)
                rec["t"].append(snapshot_terms(it, r3))
                m2 = dict(mp)
                m2.update(ma)
                rec["maps"].append(m2)
                rec["new_decisions"].append(len(it.taken) - k2)
                rec["conds"].append(list(it.conds[c2:]))
        return rec

    what = ["every parameter was replaced (p.data = new)", "the argument tensors were overwritten in place"]
    with ck.guard(rule, inst, site):
        paths = [p for p in paths_of(prog, th, max_paths=max_paths, sticky=sticky, stubs=stubs) if p.outcome == "return"]
        if havoc is None:
            paths += [p for p in paths_of(prog, lambda it: th(it, 1), max_paths=max_paths, sticky=sticky, stubs=stubs) if p.outcome == "return" and p.value is not None]
        if not paths:
            ck.undecided(rule, inst, site, "no path evaluates the call repeatedly")
            return
        for p in paths:
            rec = p.value
            it = p.interp
            tag = ",".join("%s=%s" % (c[1][:22], c[2]) for c in p.conds[:3])
            a1 = _flat(rec["t"][0])
            for k in range(1, len(rec["t"])):
                name = "%s:call %d, after %s, is a fresh evaluation [%s]" % (inst, k + 1, ("reinitialize_parameters()" if rec.get("mode") else "a parameter change") if k == 1 else "an in-place change of the inputs", tag)
                a2 = _flat(rec["t"][k])
                mapping = rec["maps"][k - 1]
                old = set(mapping)
                if len(a1) != len(a2) or any(x is None for x in a1 + a2):
                    ck.undecided(rule, name, site, "results of the calls are not comparable terms")
                    continue
                stale, differs = set(), False
                for x1, x2 in zip(a1, a2):
                    want = T.rename_syms(x1, mapping) if hasattr(x1, "syms") else x1
                    if not _same(x2, want):
                        differs = True
                        if hasattr(x2, "syms"):
                            stale |= (x2.syms() & old)
                # a call that found its stored inputs *equal in content* to the current ones (torch.equal(kept copy, argument) taken
                # as true) may hand out what it stored: on that path the overwritten argument holds the old values again
                eq_reuse = k == 2 and any(len(c) > 3 and c[2] is True and getattr(c[3], "term", None) is not None
                                          and any(isinstance(a_, T.App) and a_.op == "tensor_equal" and (a_.args[0].syms() | a_.args[1].syms()) & set(mapping.values())
                                                  for a_ in c[3].term.all_atoms())
                                          for c in rec["conds"][k - 1])
                if not differs:
                    ck.ok(rule, name, site)
                elif eq_reuse:
                    ck.ok(rule, name + " (reuse under torch.equal of the kept and the current argument)", site)
                elif stale and rec["new_decisions"][k - 1] == 0:
                    ck.violation(rule, name, site, "after %s, the next call still returns a value computed from the previous %s: a stored result is reused without being invalidated"
                                 % ("reinitialize_parameters() created new parameters" if rec.get("mode") and k == 1 else what[k - 1], ", ".join(sorted(stale)[:4])),
                                 key="%s|%s|stale%d%s" % (rule, inst, k, "r" if rec.get("mode") else ""))
                elif stale and _guard_atoms(rec["conds"][k - 1], set(mapping.values()), "tensor_equal"):
                    # the stored inputs were found equal in content to the current ones: what was computed from them is current
                    ck.ok(rule, name + " (reuse under torch.equal of the kept and the current values)", site)
                elif stale and _key_carries(rec["conds"][k - 1], {mapping[s_] for s_ in stale}):
                    # the stored result was found under a key that holds the raw content of the very inputs that changed: an equal
                    # key means equal content, what was computed from it is current
                    ck.ok(rule, name + " (reuse under a lookup key that carries the content of the inputs)", site)
                elif stale and _guard_atoms(rec["conds"][k - 1], set(mapping.values()), "tensor_allclose"):
                    ck.violation(rule, name, site, "after %s, the next call returns the value computed from the previous %s whenever the new values are within torch.allclose's tolerance of the kept ones "
                                 "(rtol 1e-5, atol 1e-8): closeness of the inputs is not equality, the result handed out belongs to other parameters"
                                 % (what[k - 1] if not (rec.get("mode") and k == 1) else "reinitialize_parameters() created new parameters", ", ".join(sorted(stale)[:4])),
                                 key="%s|%s|stale under allclose" % (rule, inst))
                elif stale:
                    cd = [c[1][:60] for c in rec["conds"][k - 1]][:2]
                    ck.undecided(rule, name, site, "the call may reuse a value computed from the previous %s; whether it does depends on %s" % (", ".join(sorted(stale)[:3]), cd))
                else:
                    ck.undecided(rule, name, site, "the call differs from a fresh evaluation in a way the analyser cannot classify: %r" % (str(a2[0])[:160],))
            # identity / integrity of what was handed out (first two calls)
            o1, o2 = _objs(it, rec["r"][0]), _objs(it, rec["r"][1])
            argobjs = set()
            for a in rec["args"]:
                argobjs |= {id(o) for o in _objs(it, a)}
            shared = [o for o in o1 if any(o is q for q in o2) and id(o) not in argobjs and not getattr(o, "is_parameter", False)]
            if not same_object_ok:
                ck.check(not shared, rule, "%s:each call hands out its own result [%s]" % (inst, tag), site,
                         "two calls return the same tensor object (a stored buffer): the later call overwrites what the earlier one handed out", key="%s|%s|shared" % (rule, inst))
            b1 = _flat(rec["t1_after"])
            if not shared and len(b1) == len(a1):
                ck.check(all(x == y for x, y in zip(a1, b1)), rule, "%s:the first result is left alone by the second call [%s]" % (inst, tag), site,
                         "the value handed out by the first call was modified by the second call", key="%s|%s|clobbered" % (rule, inst))


def _key_carries(conds, need):
    """A membership test decided 'present' between the two calls whose key contains the raw bytes of tensors that together
    mention every symbol in `need` (the current values of the inputs whose previous values the reused result was computed from)."""
    from ..values import VUnknown, fingerprint

    def byte_syms(fp, acc):
        if isinstance(fp, tuple):
            if len(fp) == 2 and fp[0] == "bytes" and hasattr(fp[1], "syms"):
                acc |= fp[1].syms()
            else:
                for x in fp:
                    byte_syms(x, acc)
        return acc

    if not need:
        return False
    for c in conds:
        u = c[3] if len(c) > 3 else None
        ops_ = getattr(u, "operands", None)
        if isinstance(u, VUnknown) and u.tag == "in" and ops_ is not None and c[2] is (not getattr(u, "negated", False)):
            fp = fingerprint(ops_[0])
            if fp is not None and need <= byte_syms(fp, set()):
                return True
        # ... or the kept key was compared with the current one and found equal
        if isinstance(u, VUnknown) and u.tag in ("cmp", "shape-eq") and ops_ is not None and c[2] is (not getattr(u, "negated", False)):
            for o_ in ops_:
                fp = fingerprint(o_)
                if fp is not None and need <= byte_syms(fp, set()):
                    return True
    return False


def _guard_atoms(conds, new_syms, op):
    """A condition decided True between the two calls whose value contains `op`(a, b) with a current (renamed) input on one side."""
    for c in conds:
        t_ = getattr(c[3], "term", None) if len(c) > 3 else None
        if c[2] is True and t_ is not None and any(isinstance(a_, T.App) and a_.op == op and (a_.args[0].syms() | a_.args[1].syms()) & new_syms for a_ in t_.all_atoms()):
            return True
    return False


def _ints_eq(x, y):
    from .. import ints

    return x == y or ints.equal_by_tables(x, y) is True


def _int_witness(conds):
    """conds: [(outcome, term)] of comparisons between integer size expressions of the call's arguments.  A small assignment of
    the integer symbols under which every comparison has the recorded outcome *strictly* (no boundary case), or None when a
    condition is not such a comparison or no assignment in 1..6 exists."""
    import itertools
    from .. import ints

    if not conds or any(c is None or c[1] is None for c in conds):
        return None
    ops = {"cmp_Lt": lambda a, b: a < b, "cmp_LtE": lambda a, b: a <= b, "cmp_Gt": lambda a, b: a > b, "cmp_GtE": lambda a, b: a >= b, "cmp_Eq": lambda a, b: a == b, "cmp_NotEq": lambda a, b: a != b}
    parsed, syms = [], set()
    for outcome, t in conds:
        alts = []
        atoms = [t.single_atom()]
        a0 = atoms[0]
        # `x is None or a < b` decided False: every disjunct is false; only the comparison carries integers
        if isinstance(a0, T.App) and a0.op in ("lor", "land"):
            atoms = [x.single_atom() if isinstance(x, T.Poly) else None for x in a0.args]
            if (a0.op == "lor" and outcome is not False) or (a0.op == "land" and outcome is not True):
                return None
        for a in atoms:
            if isinstance(a, T.App) and a.op in ops and len(a.args) == 2:
                alts.append(a)
            elif isinstance(a, T.App) and a.op in ("is_", "cmp_Is", "isnone"):
                continue
            elif a is None or not isinstance(a, T.App):
                return None
            else:
                continue
        if not alts:
            return None
        for a in alts:
            parsed.append((outcome, a))
            syms |= a.args[0].syms() | a.args[1].syms()
    if not syms or len(syms) > 3:
        return None
    names = sorted(syms)
    for vals in itertools.product(range(1, 7), repeat=len(names)):
        env = dict(zip(names, vals))
        ok = True
        for outcome, a in parsed:
            x, y = ints.eval_count(a.args[0], env), ints.eval_count(a.args[1], env)
            if x is None or y is None:
                return None
            if ops[a.op](x, y) != bool(outcome) or x == y:
                ok = False
                break
        if ok:
            return env
    return None


def check_after(ck, rule, inst, site, make, pre, f, stubs=None, max_paths=48, sticky=True):
    """Order independence: f(ctx) evaluated after other public calls pre(ctx) on the same objects must give what f(ctx)
    gives on its own.  Two interpretations (with / without the prefix) are compared path by path (same decisions)."""
    prog = ck.program

    def run(with_pre):
        def th(it):
            ctx = make(it)
            if with_pre:
                pre(it, ctx)
            c0 = len(it.conds)
            r = f(it, ctx)
            return {"t": snapshot_terms(it, r), "shape": getattr(r, "shape", None), "fconds": [(c[0], c[1]) for c in it.conds[c0:]], "conds": list(it.conds),
                    "fterms": {(c[0], c[1]): (c[2], getattr(c[3] if len(c) > 3 else None, "term", None)) for c in it.conds[c0:]}}

        return [p for p in paths_of(prog, th, max_paths=max_paths, sticky=sticky, stubs=stubs) if p.outcome == "return"]

    with ck.guard(rule, inst, site):
        alone, after = run(False), run(True)
        if not alone or not after:
            ck.undecided(rule, inst, site, "no returning path")
            return
        ref = {}
        for p in alone:
            key = tuple((c[1], c[2]) for c in p.conds)
            ref[key] = p.value
        for p in after:
            rec = p.value
            # decisions made inside f alone identify the matching reference path
            cands = [v for k, v in ref.items() if all(kc in [(c[1], c[2]) for c in p.conds] for kc in k)]
            name = "%s [%s]" % (inst, ",".join("%s=%s" % (c[1][:22], c[2]) for c in p.conds[:3]))
            if not cands:
                ck.undecided(rule, name, site, "no matching path of the call on its own")
                continue
            a2 = _flat(rec["t"])
            hit = False
            for v in cands:
                a1 = _flat(v["t"])
                if len(a1) == len(a2) and all(x is not None and y is not None and _same(y, x) for x, y in zip(a1, a2)):
                    hit = True
                    break
            if hit:
                ck.ok(rule, name, site)
                continue
            v = cands[0]
            # conditions met for the first time inside the call (not while it ran alone): what the reuse of earlier state hinges on
            extra = [c for c in rec["fconds"] if c not in v["fconds"]]
            sa_, sb_ = rec["shape"], v["shape"]
            shape_differs = sa_ is not None and sb_ is not None and (len(sa_) != len(sb_) or any(x != y and "?" not in (str(x), str(y)) for x, y in zip(sa_, sb_)))
            wit = _int_witness([rec["fterms"].get(c) for c in extra]) if extra else None
            if extra and wit is not None and all(x is not None for x in a2):
                # the two results are compared *by value* at the witness (integer tables: arange, shifts, masks, slices); terms the
                # evaluator cannot compute leave the question open
                from .. import ints as _ints

                a1w = _flat(v["t"])
                vals = [(_ints.eval_array(x, wit) if hasattr(x, "terms") else None, _ints.eval_array(y, wit) if hasattr(y, "terms") else None) for x, y in zip(a1w, a2)] if len(a1w) == len(a2) else []
                if vals and all(p_ is not None and q_ is not None for p_, q_ in vals):
                    if all(_ints.arrays_equal(p_, q_) for p_, q_ in vals):
                        ck.ok(rule, name + " (equal by value at %s)" % ", ".join("%s=%d" % kv for kv in sorted(wit.items())), site)
                        continue
                else:
                    wit = None
            if extra and wit is not None and all(x is not None for x in a2):
                ck.violation(rule, name, site, "after the preceding calls the result is %s; on its own the same call gives %s: state carried over from earlier calls changes the result whenever %s (e.g. %s)"
                             % (str(a2[0])[:140], str(_flat(v["t"])[0])[:140], " and ".join("%s is %s" % (c[1][:50], rec["fterms"][c][0]) for c in extra)[:160], ", ".join("%s = %d" % kv for kv in sorted(wit.items()))),
                             key="%s|%s|order" % (rule, inst))
            elif not extra and all(x is not None for x in a2) and len(_flat(v["t"])) == len(a2) and all(
                    hasattr(x, "terms") and hasattr(y, "terms") and _ints_eq(x, y) for x, y in zip(_flat(v["t"]), a2)):
                # the two results spell the same integer tables differently (another slice of a wider table, ...): equal by value for
                # every size 1..3 of the table sizes involved
                ck.ok(rule, name + " (equal after evaluating the integer tables)", site)
            elif not extra and all(x is not None for x in a2):
                ck.violation(rule, name, site, "after the preceding calls the result is %s; on its own the same call gives %s: state carried over from earlier calls changes the result"
                             % (str(a2[0])[:140], str(_flat(v["t"])[0])[:140]), key="%s|%s|order" % (rule, inst))
            elif shape_differs:
                ck.violation(rule, name, site, "after the preceding calls the result has shape %s instead of %s" % (sa_, sb_), key="%s|%s|order-shape" % (rule, inst))
            else:
                ck.undecided(rule, name, site, "after the preceding calls the result may differ (%s); this depends on %s, which the analyser cannot evaluate" % (str(a2[0])[:100], [c[1][:50] for c in extra][:2]))
