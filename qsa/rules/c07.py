"""C07 – every epoch uses every sample once with its own basis."""
from .. import terms as T
from .common import *  # noqa: F401,F403
from . import api
from ..ctx import stub_grad_lists

STATES = api.STATES


def norm_i(t):
    """Rename the comprehension's loop symbol to 'i'."""
    if t is None:
        return None
    m = {s: "i" for s in t.syms() if s.startswith("i@")}
    return T.rename_syms(t, m) if m else t


def is_seq(x):
    """A sequence of batches the analyser can describe by one generic element and an iteration range: a comprehension-built list
    or a generator expression."""
    return isinstance(x, VList) or (isinstance(x, VUnknown) and x.tag == "genexp" and getattr(x, "comp_iter", None) is not None)


def _gather_of_slice(t):
    """x[p[a:b]] = x[p][a:b]: rows gathered by a slice of an index vector are that slice of the gathered rows."""
    if t is None:
        return None

    def fn(a):
        if isinstance(a, T.App) and a.op == "index" and len(a.args[1]) == 1 and isinstance(a.args[1][0], tuple) and a.args[1][0][0] == "adv":
            inner = a.args[1][0][1].single_atom() if hasattr(a.args[1][0][1], "single_atom") else None
            if isinstance(inner, T.App) and inner.op == "index" and len(inner.args[1]) == 1 and isinstance(inner.args[1][0], tuple) and inner.args[1][0][0] == "slice":
                return T.app("index", T.app("index", a.args[0], (("adv", inner.args[0]),)), inner.args[1])
        return None

    return T.subst(t, fn)


def batch_desc(lst):
    """(element term with loop symbol 'i', iteration range) of a comprehension-built batch list / generator expression."""
    o = lst.obj if isinstance(lst, VList) else lst
    el = o.elem
    return _gather_of_slice(norm_i(el.term)) if isinstance(el, VTens) else None, getattr(o, "comp_iter", None)


def _known(t):
    """False when the element contains an index the analyser could not describe."""
    return t is not None and "'unk'" not in repr(t) and "elem(" not in repr(t)


def sliced(base, size):
    i = T.sym("i")
    return T.app("index", base, (("slice", i, i + size, None),))


def count_of_range(rng):
    """Number of elements of range(0, stop, step) when decidable: ('ceil', stop/step) or exact k if stop = k*step."""
    if rng is None or rng[0] != "range" or rng[1] != T.ZERO:
        return None
    stop, step = rng[2], rng[3]
    q = stop * T.inv(step)
    return q  # exact when it is a polynomial; otherwise the count is ceil(q)


def run(ck):
    prog = ck.program
    sh = prog.method("NeuralStateBase", "_shuffle_data")
    ssite = sh.site()
    pb, nb, NB = T.sym("pb"), T.sym("nbs"), T.sym("num_batches")
    # ------------------------------------------------------------------ R1/R2/R4 _shuffle_data
    ctxs = {
        "bases given": dict(bases=True, same=False),
        "no bases, neg != pos": dict(bases=False, same=False),
        "no bases, neg == pos": dict(bases=False, same=True),
        # the same state, after an earlier epoch / an earlier fit on a data set of another size with the same batch sizes
        "bases given, after a call with other data": dict(bases=True, same=False, after=True),
        "no bases, neg == pos, after a call with other data": dict(bases=False, same=True, after=True),
    }
    for cname, c in ctxs.items():
        inst = "_shuffle_data/" + cname
        with ck.guard("C07.R1", inst, ssite):
            def th(it):
                s = make_state(it, "ComplexWaveFunction")
                p_ = api.intsym("pb")
                n_ = p_ if c["same"] else api.intsym("nbs")
                if c.get("after"):
                    call(it, s, "_shuffle_data", p_, n_, api.intsym("num_batches0"), tens(it, "train0", ("N0", "nv")),
                         api.bases_arr(it, "bases0", "N0") if c["bases"] else VConst(None), tens(it, "zs0", ("Nz0", "nv")) if c["bases"] else VConst(None))
                r = call(it, s, "_shuffle_data", p_, n_, api.intsym("num_batches"), tens(it, "train", ("N", "nv")),
                         api.bases_arr(it, "bases", "N") if c["bases"] else VConst(None), tens(it, "zs", ("Nz", "nv")) if c["bases"] else VConst(None))
                return r

            paths = paths_of(prog, th)
            if not c["same"] and not c["bases"]:
                paths = [q for q in paths if False in cond_truths(q, lambda k: k[0] == "eq" and (k[1].syms() | k[2].syms()) == {"pb", "nbs"})]
            for p in returning(paths, inst):
                shape_err_verdict(ck, "C07.R1", inst, paths)
                r = p.value
                # N = 1 is a data set too: a numpy array indexed by a torch tensor of length N loses its row axis when N == 1
                bad_ix = [(s_, a_, x_) for s_, a_, x_ in p.interp.interop if "N" in [str(d) for d in (x_.shape or ())] and a_.term is not None and "bases" in a_.term.syms()]
                if c["bases"]:
                    ck.check(not bad_ix, "C07.R1", inst + ":rows keep their own bases for every N >= 1", bad_ix[0][0] if bad_ix else ssite,
                             "the numpy array of bases is indexed by a torch tensor of length N: for N == 1 numpy takes the one-element tensor as an integer, the result is a single row of letters "
                             "without its row axis, and the batch's bases are then sliced letter by letter (IndexError in the gradient)", key="C07.R1|_shuffle_data|ndarray-indexed-by-tensor")
                srcs = getattr(r, "sources", None)
                want_n = 3 if c["bases"] else 2
                if isinstance(r, VUnknown) and srcs is not None and len(srcs) == want_n and isinstance(srcs[1], VTens) and is_seq(srcs[0]) and not c["same"]:
                    # the negative batches as one tensor: zip() walks its first axis, so it holds shape[0] batches of shape[1] rows
                    # each - num_batches batches of neg_batch_size rows is what the epoch needs
                    sh_ = [str(d) for d in (srcs[1].shape or ())]
                    if len(sh_) == 3 and {sh_[0], sh_[1]} == {"num_batches", "nbs"}:
                        ck.check(sh_[0] == "num_batches", "C07.R6", inst + ":num_batches negative batches of neg_batch_size rows", ssite,
                                 "the negative batches are the slabs of a tensor of shape (%s): zip() walks its first axis, which gives %s batches of %s rows each, not num_batches batches of neg_batch_size rows"
                                 % (", ".join(sh_), sh_[0], sh_[1]))
                    elif len(sh_) == 3:
                        ck.undecided("C07.R6", inst + ":num_batches negative batches of neg_batch_size rows", ssite, "the negative batches are one tensor of shape (%s): its first two sizes are not recognised" % ", ".join(sh_))
                neg_slab = bool(isinstance(r, VUnknown) and srcs is not None and len(srcs) == want_n and isinstance(srcs[1], VTens) and not c["same"]
                                and len(srcs[1].shape or ()) == 3 and all(is_seq(x) for k_, x in enumerate(srcs) if k_ != 1))
                if not neg_slab and (not isinstance(r, VUnknown) or srcs is None or len(srcs) != want_n or not all(is_seq(x) for x in srcs)):
                    ck.undecided("C07.R1", inst, ssite, "the batches are not returned as zip(<%d comprehension-built lists>)" % want_n)
                    continue
                pos_t, pos_r = batch_desc(srcs[0])
                neg_t, neg_r = batch_desc(srcs[1]) if not neg_slab else (None, None)
                train = T.sym("train")
                perms = [a for a in (pos_t.all_atoms() if pos_t is not None else []) if isinstance(a, T.App) and a.op == "randperm"]
                if pos_t is None:
                    ck.undecided("C07.R1", inst + ":permutation of all N rows", ssite, "the positive batches are not described by a term the analyser follows")
                    continue
                ck.check(len(perms) == 1 and perms[0].args[0] == T.sym("N"), "C07.R1", inst + ":permutation of all N rows", ssite,
                         "positive batches are not rows of the data under one random permutation of range(N): %r" % (pos_t,))
                if len(perms) != 1:
                    continue
                perm = T.P(perms[0])
                shuffled = T.app("index", train, (("adv", perm),))
                # an element or an iteration the analyser could not describe (an unknown index, a list it cannot enumerate) is undecided, never wrong
                known_t = _known(pos_t)
                known_r = isinstance(pos_r, tuple) and pos_r and pos_r[0] == "range"
                ck.check((pos_t == sliced(shuffled, pb)) if known_t else None, "C07.R2", inst + ":positive batch = rows [s, s+b) of the shuffled data", ssite,
                         "positive batch is %r; expected consecutive slices of size pos_batch_size of the shuffled data" % (pos_t,))
                ck.check((pos_r == ("range", T.ZERO, T.sym("N"), pb)) if known_r else None, "C07.R2", inst + ":positive batches tile all N rows", ssite,
                         "positive batch starts run over %s; expected range(0, N, pos_batch_size)" % (pos_r,))
                if c["bases"]:
                    b_t, b_r = batch_desc(srcs[2])
                    bperm = [a for a in (b_t.all_atoms() if b_t is not None else []) if isinstance(a, T.App) and a.op == "randperm"]
                    if len(bperm) == 1 and T.P(bperm[0]) != perm:
                        ck.violation("C07.R1", inst + ":bases use the samples' permutation", ssite,
                                     "bases are shuffled with a different permutation (%r) than the samples (%r): measurements are paired with the wrong bases" % (bperm[0], perms[0]))
                    else:
                        ck.check((b_t == sliced(T.app("index", T.sym("bases"), (("adv", perm),)), pb)) if _known(b_t) else None, "C07.R1", inst + ":bases use the samples' permutation", ssite,
                                 "bases batch is %r; expected the same permutation and the same slices as the samples" % (b_t,))
                    ck.check((b_r == pos_r) if known_r and isinstance(b_r, tuple) and b_r and b_r[0] == "range" else None, "C07.R2", inst + ":bases tiled like the samples", ssite,
                             "bases batch starts %s differ from sample batch starts %s" % (b_r, pos_r))
                # ---------------- R4 negative source
                nsz = pb if c["same"] else nb
                if c["bases"]:
                    src, bound = T.sym("zs"), T.sym("Nz")
                else:
                    src, bound = train, T.sym("N")
                ri = [a for a in (neg_t.all_atoms() if neg_t is not None else []) if isinstance(a, T.App) and a.op in ("randint", "randperm")]
                if neg_slab:
                    # all negative batches in one tensor (batch, row in the batch, site): rows of the source under a 2-D random index
                    nt_ = srcs[1].term
                    ri = [a for a in (nt_.all_atoms() if nt_ is not None else []) if isinstance(a, T.App) and a.op in ("randint", "randperm")]
                    okn = (len(ri) == 1 and ri[0].op == "randint" and nt_ == T.app("index", src, (("adv", T.P(ri[0])),))) if _known(nt_) else None
                    ck.check(okn, "C07.R4", inst + ":negative rows drawn from %s" % ("the all-Z rows" if c["bases"] else "the training rows"), ssite,
                             "the tensor of negative batches is %r; expected rows of %s selected by random row indices" % (nt_, src))
                    if len(ri) == 1 and ri[0].op == "randint":
                        ck.check(ri[0].args[0] == bound, "C07.R4", inst + ":row indices within the source", ssite,
                                 "negative row indices are drawn below %r, but the rows are taken from a tensor with %r rows" % (ri[0].args[0], bound))
                elif c["same"]:
                    ck.check((neg_t == sliced(shuffled, pb)) if _known(neg_t) else None, "C07.R4", inst + ":negative rows are training rows", ssite, "negative batch is %r; expected the shuffled training rows" % (neg_t,))
                else:
                    # rows drawn with independent uniform indices from a tensor whose rows were first reordered by a permutation are
                    # rows drawn with independent uniform indices from the tensor itself
                    def _unperm(a_):
                        if isinstance(a_, T.App) and a_.op == "index" and len(a_.args[1]) == 1 and isinstance(a_.args[1][0], (tuple, list)) and a_.args[1][0][0] == "adv":
                            ia_ = a_.args[1][0][1].single_atom() if hasattr(a_.args[1][0][1], "single_atom") else None
                            in_ = a_.args[0].single_atom() if hasattr(a_.args[0], "single_atom") else None
                            if (isinstance(ia_, T.App) and ia_.op == "randint" and isinstance(in_, T.App) and in_.op == "index" and len(in_.args[1]) == 1
                                    and isinstance(in_.args[1][0], (tuple, list)) and in_.args[1][0][0] == "adv"):
                                pa_ = in_.args[1][0][1].single_atom() if hasattr(in_.args[1][0][1], "single_atom") else None
                                if isinstance(pa_, T.App) and pa_.op == "randperm":
                                    return T.app("index", in_.args[0], a_.args[1])
                        return None

                    if neg_t is not None:
                        neg_t = T.subst(neg_t, _unperm)
                        ri = [a for a in neg_t.all_atoms() if isinstance(a, T.App) and a.op in ("randint", "randperm")]
                    okn = len(ri) == 1 and ri[0].op == "randint" and neg_t == sliced(T.app("index", src, (("adv", T.P(ri[0])),)), nsz)
                    if not okn and not _known(neg_t):
                        okn = None
                    if okn is False and neg_t is not None:
                        # rows of the right tensor selected by an index expression the analyser cannot bound: undecided, not wrong
                        at = neg_t.single_atom()
                        inner = at.args[0].single_atom() if at is not None and isinstance(at, T.App) and at.op == "index" else None
                        if inner is not None and isinstance(inner, T.App) and inner.op == "index" and inner.args[0] == src and not ri:
                            okn = None
                    ck.check(okn, "C07.R4", inst + ":negative rows drawn from %s" % ("the all-Z rows" if c["bases"] else "the training rows"), ssite,
                             "negative batch is %r; expected rows of %s selected by random row indices, cut by neg_batch_size" % (neg_t, src))
                    if len(ri) == 1 and ri[0].op == "randint":
                        ck.check(ri[0].args[0] == bound, "C07.R4", inst + ":row indices within the source", ssite,
                                 "negative row indices are drawn below %r, but the rows are taken from a tensor with %r rows" % (ri[0].args[0], bound))
                    # ---------------- R3 count of negative batches = num_batches
                    cnt = count_of_range(neg_r)
                    ck.check(cnt == NB if cnt is not None else None, "C07.R6", inst + ":num_batches negative batches", ssite,
                             "negative batch starts run over %s: not exactly num_batches batches" % (neg_r,))
    # ------------------------------------------------------------------ R3/R4/R5 fit
    fit = prog.method("NeuralStateBase", "fit")
    fsite = fit.site()
    for cls in STATES:
        for dkind in ("tensor", "ndarray", "list", "tensor/neg_batch_size given"):
            inst = "fit/%s/data:%s" % (cls, dkind)
            neg_given = dkind.endswith("given")
            dkind = dkind.split("/")[0]
            with ck.guard("C07.R5", inst, fsite):
                def th(it):
                    s = make_state(it, cls)
                    if dkind == "tensor":
                        data = tens(it, "data", ("N", "nv"))
                    elif dkind == "ndarray":
                        data = tens(it, "data", ("N", "nv"), kind="ndarray")
                    else:
                        data = it.new_list(None, origin="param:data")
                    kw = {"pos_batch_size": api.intsym("pb")}
                    if neg_given:
                        kw["neg_batch_size"] = api.intsym("nbs")  # an explicit negative batch size does not change how the data is cut
                    if cls != "PositiveWaveFunction":
                        kw["input_bases"] = api.bases_arr(it, "input_bases", "N")
                    call(it, s, "fit", data, **kw)
                    return data

                paths = paths_of(prog, th, max_paths=200, sticky=True, stubs={"NeuralStateBase.compute_batch_gradients": stub_grad_lists})
                rets = [p for p in paths if p.outcome == "return"]
                ck.check(bool(rets), "C07.R5", inst + ":runs", fsite, "fit never returns in this context: %s" % [str(p.value)[:80] for p in paths][:2])
                for p in rets[:4]:
                    wr = [e for e in p.effects if (e.origins & {"param:data", "param:input_bases"}) and e.kind in ("write", "meta", "container")]
                    ck.check(not wr, "C07.R5", inst + ":caller's data untouched [%s]" % _c(p), wr[0].site if wr else fsite,
                             "training writes the caller's %s (%s)" % (sorted(wr[0].origins) if wr else "", wr[0].detail if wr else ""))
                    unk_ = api.unknown_effects(p, ("param:data", "param:input_bases"))
                    if unk_:
                        ck.undecided("C07.R5", inst + ":opaque", unk_[0][0].site, "the caller's data is handed to an opaque call %s" % (unk_[0][0].detail[1],))
                    if dkind != "tensor":
                        continue
                    sc = [r for r in p.calls if r[0] == "NeuralStateBase._shuffle_data"]
                    ck.check(len(sc) >= 1, "C07.R3", inst + ":shuffles every epoch", fsite, "_shuffle_data is not called inside the epoch loop")
                    for r in sc[:1]:
                        env = r[5]
                        nbt = num_term(argp(env, 3))  # _shuffle_data(self, pos, neg, num_batches, train, bases, z) by position
                        want = T.app("ceil", T.sym("N") * T.inv(T.sym("pb")))
                        if nbt == want:
                            ck.ok("C07.R6", inst + ":num_batches = ceil(N / pos_batch_size)", fsite)
                        elif nbt is not None and (nbt == T.app("floordiv", T.sym("N"), T.sym("pb")) or nbt == T.app("trunc", T.sym("N") * T.inv(T.sym("pb"))) or nbt == T.app("floor", T.sym("N") * T.inv(T.sym("pb")))):
                            ck.violation("C07.R6", inst + ":num_batches = ceil(N / pos_batch_size)", fsite, "num_batches is floor(N / pos_batch_size): the last, smaller batch is silently dropped by zip")
                        else:
                            from .. import ints

                            cc = ints.count_compare(nbt, want, {"N", "pb"} | (nbt.syms() & {"nbs"})) if nbt is not None else None
                            if cc is not None and cc[0] == "equal":
                                ck.ok("C07.R6", inst + ":num_batches = ceil(N / pos_batch_size)", fsite, decided="equal to ceil(N / pb) for all N, pb in 1..13")
                            elif cc is not None:
                                w_ = cc[1]
                                ck.violation("C07.R6", inst + ":num_batches = ceil(N / pos_batch_size)", fsite,
                                             "num_batches is %s = %s for N = %s, pos_batch_size = %s; the data needs ceil(N / pos_batch_size) = %s batches (zip drops the rest)"
                                             % (str(nbt)[:60], w_["got"], w_["env"].get("N"), w_["env"].get("pb"), w_["want"]), key="C07.R6|num_batches")
                            else:
                                ck.check(None if nbt is None or nbt.syms() == want.syms() else False, "C07.R6", inst + ":num_batches = ceil(N / pos_batch_size)", fsite,
                                         "num_batches is %r; expected ceil(N / pos_batch_size)" % (nbt,))
                        ts = argp(env, 4)
                        # by the value it had when it was handed over (a shuffler that reorders its working copy in place changes it
                        # afterwards; in a later epoch it then receives the rows of the data in the order the last epoch left them)
                        tst = argp(r[7], 4) if len(r) > 7 else None
                        tst = tst if tst is not None else (ts.term if isinstance(ts, VTens) else None)
                        ck.check(isinstance(ts, VTens) and ts.shape == ("N", "nv") and (tst == T.sym("data") or _row_permutation_of(tst, "data")), "C07.R3", inst + ":whole data set shuffled", fsite, "the tensor handed to the shuffler is not the training data")
                        nbs_ = num_term(argp(env, 2))
                        if neg_given:
                            ck.check(nbs_ == T.sym("nbs"), "C07.R3", inst + ":the given neg_batch_size is used", fsite, "the shuffler receives neg_batch_size %r" % (nbs_,))
                        else:
                            ck.check(nbs_ == T.sym("pb"), "C07.R3", inst + ":neg_batch_size defaults to pos_batch_size", fsite, "default neg_batch_size is %r" % (nbs_,))
                        if cls != "PositiveWaveFunction":
                            zs = argp(env, 6)
                            mask = T.app("all", T.app("cmp_Eq", T.sym("input_bases"), T.sym("lit:'Z'")), (-1,))
                            zt = zs.term if isinstance(zs, VTens) else None
                            okz = None
                            why = "the reference-basis pool is %r; expected the rows of the data whose basis is all Z" % (zt,)
                            if zt is not None and zt == T.app("index", T.sym("data"), (("adv", mask),)):
                                okz = True
                            elif zt is not None:
                                za = zt.single_atom()
                                if za is not None and isinstance(za, T.App) and za.op == "index" and za.args[0] == T.sym("data") and za.args[1] and isinstance(za.args[1][0], (tuple, list)) and za.args[1][0][0] == "adv":
                                    tab = row_mask_table(za.args[1][0][1], arr="input_bases", nsites=3)
                                    if tab is not None:
                                        bad = [row for row, keep in sorted(tab.items(), reverse=True) if keep != all(row)]
                                        okz = not bad
                                        if bad:
                                            why = "a training row measured in '%s' is %s the pool the negative chains start from; the pool must hold exactly the rows whose every site is Z" % (
                                                " ".join("Z" if z else "X" for z in bad[0]), "put into" if tab[bad[0]] else "left out of")
                                elif zt == T.sym("data") and any(len(c_) > 3 and getattr(c_[3], "term", None) is not None and "input_bases" in c_[3].term.syms() for c_ in p.conds):
                                    # this path has tested the bases: when that test established that every row is all Z, the whole set is the right pool
                                    def _every_row_all_z(key):
                                        a_ = key[1].single_atom() if key[0] == "t" and hasattr(key[1], "single_atom") else None
                                        if not (isinstance(a_, T.App) and a_.op == "all" and hasattr(a_.args[0], "all_atoms")):
                                            return False
                                        tab_ = row_mask_table(a_.args[0], arr="input_bases", nsites=3)  # all(<row mask>): the mask must be `row is all Z`
                                        return tab_ is not None and all(keep == all(row) for row, keep in tab_.items())

                                    est = cond_truths(p, _every_row_all_z)
                                    okz = True if est and set(est) == {True} else None
                                    why = "the whole training set is the pool on a path that tested the bases in a way the analyser does not recognise as `every row is all Z`"
                                elif zt == T.sym("data"):
                                    okz = False
                                    why = "the pool the negative chains start from is the whole training set (rows measured in rotated bases included); it must hold exactly the rows whose every site is Z"
                                elif za is None or "data" not in zt.syms():
                                    okz = False
                            ck.check(okz, "C07.R4", inst + ":z_samples = all-Z rows of the data", fsite, why)
                            ib = argp(env, 5)
                            ibt = argp(r[7], 5) if len(r) > 7 else None
                            ibt = ibt if ibt is not None else (ib.term if isinstance(ib, VTens) else None)
                            ck.check(isinstance(ib, VTens) and ibt == T.sym("input_bases"), "C07.R1", inst + ":bases forwarded", fsite, "the bases handed to the shuffler are not the caller's input_bases")
    # ------------------------------------------------------------------ R4 (second run): the pool is taken from this run's data
    # "every epoch uses every sample ... the negative chains start from this data set's all-Z rows": a fit on other data of the
    # same shape, on the same object, hands the shuffler rows extracted from the data and bases given to *this* call
    for cls in ("ComplexWaveFunction", "DensityMatrix"):
        inst = "fit/%s/after a fit on other data of the same shape" % cls
        with ck.guard("C07.R4", inst, fsite):
            def th2(it, cls=cls):
                s = make_state(it, cls)
                kw = {"pos_batch_size": api.intsym("pb"), "epochs": VConst(1)}
                call(it, s, "fit", tens(it, "data0", ("N", "nv")), input_bases=api.bases_arr(it, "bases0", "N"), **kw)
                n0 = len(it.calls)
                call(it, s, "fit", tens(it, "data", ("N", "nv")), input_bases=api.bases_arr(it, "input_bases", "N"), **kw)
                return n0

            paths = paths_of(prog, th2, max_paths=120, sticky=True, stubs={"NeuralStateBase.compute_batch_gradients": stub_grad_lists})
            rets = [p for p in paths if p.outcome == "return"]
            ck.check(bool(rets), "C07.R4", inst + ":runs", fsite, "two successive fits never return")
            for p in rets[:6]:
                sc = [r for r in p.calls[p.value:] if r[0] == "NeuralStateBase._shuffle_data"]
                if not sc:
                    ck.undecided("C07.R4", inst + " [%s]" % _c(p), fsite, "the second fit does not call the shuffler")
                    continue
                za = argp(sc[0][5], 6)
                zt = za.term if isinstance(za, VTens) else None
                if zt is None:
                    ck.undecided("C07.R4", inst + " [%s]" % _c(p), fsite, "the pool handed to the shuffler is not followed")
                    continue
                old_ = sorted(n_ for n_ in zt.syms() if n_ in ("data0", "bases0") or n_.startswith("arr:bases0"))
                ck.check(not old_ and "data" in zt.syms(), "C07.R4", inst + ":pool extracted from this call's data [%s]" % _c(p), fsite,
                         "in a second fit on other data of the same shape the negative chains start from rows of %s: a pool kept from the earlier run is reused" % (", ".join(old_) or "neither data set"),
                         key="C07.R4|fit|pool from an earlier run")
    ck.require_min("C07.R1", 6)
    ck.require_min("C07.R2", 7)
    ck.require_min("C07.R3", 6)
    ck.require_min("C07.R6", 5)
    ck.require_min("C07.R4", 6)
    ck.require_min("C07.R5", 9)
    ck.assumptions += [
        "torch.randperm(N) is a bijection of range(N); slices [s, s+b) for s in range(0, L, b) partition [0, L)",
        "in the shared-permutation case the last negative batch has the size of the last positive batch (documented design); uniformity of the shuffle is not decided",
    ]


def _c(p):
    return ",".join("%s=%s" % (c[1][:18], c[2]) for c in p.conds[-2:])


def _row_permutation_of(t, name):
    """t is `name` with its rows reordered by one or more random permutations: index(... index(name, [adv randperm]) ...)"""
    for _ in range(4):
        a = t.single_atom() if t is not None and hasattr(t, "single_atom") else None
        if isinstance(a, T.Sym):
            return a.name == name
        if not (isinstance(a, T.App) and a.op == "index" and len(a.args[1]) == 1 and isinstance(a.args[1][0], (tuple, list)) and a.args[1][0][0] == "adv"):
            return False
        ia = a.args[1][0][1].single_atom() if hasattr(a.args[1][0][1], "single_atom") else None
        if not (isinstance(ia, T.App) and ia.op == "randperm"):
            return False
        t = a.args[0]
    return False
