"""C16 – composite observables evaluate to the same arithmetic on their parts."""
from .. import terms as T
from .common import *  # noqa: F401,F403
from . import api


def _leaf_stub(name):
    def stub(it, func, env, node):
        return VTens(it.new_tobj("tensor", T.sym(name), ("B",), "fresh"))

    return stub


STUBS = {"SigmaZ.apply": _leaf_stub("A"), "SigmaX.apply": _leaf_stub("Bx")}


def _ctx(it, prog):
    a = it.instantiate(prog.cls("SigmaZ"), [], {}, None)
    b = it.instantiate(prog.cls("SigmaX"), [], {}, None)
    s = make_state(it, "PositiveWaveFunction")
    smp = tens(it, "samples", ("B", "nv"))
    return a, b, s, smp


SCALARS = {
    "float": lambda: VNum("float", T.sym("s")),
    "int": lambda: VNum("int", T.sym("s")),
    "numpy.float64": lambda: VNum("npfloat", T.sym("s")),
    "const 0": lambda: VConst(0),
    "const -3": lambda: VConst(-3),
    "const 2.5": lambda: VConst(2.5),
}


def sterm(v):
    return num_term(v)


def run(ck):
    prog = ck.program
    from ..ops import binop, unaryop

    A, B = T.sym("A"), T.sym("Bx")
    osite = prog.method("ObservableBase", "__add__").site()
    cases = []
    for sname, mk in SCALARS.items():
        cases += [
            ("a * s [%s]" % sname, lambda it, a, b, s=mk: binop(it, "Mult", a, s(), None), lambda s: s * A, mk),
            ("s * a [%s]" % sname, lambda it, a, b, s=mk: binop(it, "Mult", s(), a, None), lambda s: s * A, mk),
            ("a + s [%s]" % sname, lambda it, a, b, s=mk: binop(it, "Add", a, s(), None), lambda s: A + s, mk),
            ("s + a [%s]" % sname, lambda it, a, b, s=mk: binop(it, "Add", s(), a, None), lambda s: s + A, mk),
            ("a - s [%s]" % sname, lambda it, a, b, s=mk: binop(it, "Sub", a, s(), None), lambda s: A - s, mk),
            ("s - a [%s]" % sname, lambda it, a, b, s=mk: binop(it, "Sub", s(), a, None), lambda s: s - A, mk),
        ]
    cases += [
        ("-a", lambda it, a, b: unaryop(it, "USub", a, None), lambda s: -A, None),
        ("a + b", lambda it, a, b: binop(it, "Add", a, b, None), lambda s: A + B, None),
        ("a - b", lambda it, a, b: binop(it, "Sub", a, b, None), lambda s: A - B, None),
        ("b - a", lambda it, a, b: binop(it, "Sub", b, a, None), lambda s: B - A, None),
        ("-(a - 3*b) + 1", lambda it, a, b: binop(it, "Add", unaryop(it, "USub", binop(it, "Sub", a, binop(it, "Mult", VConst(3), b, None), None), None), VConst(1), None), lambda s: -(A - 3 * B) + 1, None),
        ("2*(a + b) - (b*0.5 - a)", lambda it, a, b: binop(it, "Sub", binop(it, "Mult", VConst(2), binop(it, "Add", a, b, None), None), binop(it, "Sub", binop(it, "Mult", b, VConst(0.5), None), a, None), None),
         lambda s: 2 * (A + B) - (B * T.Fraction(1, 2) - A), None),
    ]
    for name, build, want, mk in cases:
        with ck.guard("C16.R1", name, osite):
            def th(it):
                a, b, s, smp = _ctx(it, prog)
                comp = build(it, a, b)
                r = call(it, comp, "apply", s, smp)
                st = call(it, comp, "statistics_from_samples", s, smp)
                return comp, r, st

            paths = paths_of(prog, th, stubs=STUBS)
            for p in returning(paths, name):
                comp, r, st = p.value
                sval = sterm(mk()) if mk else None
                w = want(sval) if mk else want(None)
                got = r.term if isinstance(r, VTens) else num_term(r)
                if got == w:
                    ck.ok("C16.R1", name, osite, value=got)
                else:
                    d = lin_diff(got, w)
                    ck.check(diff_verdict(d), "C16.R1", name, osite, "composite %s evaluates to %r; expected %r (%s)" % (name, got, w, diff_msg(d)))
                # R3: statistics are those of the combined per-sample value
                vm = [c for c in p.interp.ext_calls if c[0] == "torch.var_mean"]
                okv = len(vm) == 1 and isinstance(vm[0][1][0], VTens) and vm[0][1][0].term == got
                if got is None or (len(vm) == 1 and isinstance(vm[0][1][0], VTens) and vm[0][1][0].term is None):
                    okv = None  # a value the analyser does not follow is undecided, never wrong
                ck.check(okv, "C16.R3", name + ":statistics of the combined value", prog.method("ObservableBase", "statistics_from_samples").site(),
                         "statistics_from_samples of the composite does not take mean/variance of its own apply() value")
    # ------------------------------------------------------------------ R2 constructor type cases
    sumc, prodc = prog.cls("SumObservable"), prog.cls("ProdObservable")

    def build_cls(cls, l, r):
        def th(it):
            a, b, s, smp = _ctx(it, prog)
            env = {"a": a, "b": b, "s": VNum("float", T.sym("s")), "t": VNum("int", T.sym("t")), "str": VConst("x"), "none": VConst(None), "list": it.new_list([]),
                   "bool": VConst(True)}
            o = it.instantiate(cls, [env[l], env[r]], {}, None)
            return call(it, o, "apply", s, smp)

        return paths_of(prog, th, stubs=STUBS)

    s_, t_ = T.sym("s"), T.sym("t")
    val = {"a": A, "b": B, "s": s_, "t": t_, "bool": T.ONE}
    for l in ("a", "s", "t", "bool"):
        for r in ("b", "s", "t"):
            inst = "SumObservable(%s, %s)" % (l, r)
            with ck.guard("C16.R2", inst):
                for p in returning(build_cls(sumc, l, r), inst):
                    got = p.value.term if isinstance(p.value, VTens) else num_term(p.value)
                    w = val[l] + val[r]
                    ck.check(got == w, "C16.R2", inst, prog.method("SumObservable", "apply").site(), "%s evaluates to %r; each operand must be added exactly once (%r)" % (inst, got, w))
    for l, r, w in (("a", "s", s_ * A), ("s", "a", s_ * A), ("t", "b", t_ * B), ("b", "t", t_ * B)):
        inst = "ProdObservable(%s, %s)" % (l, r)
        with ck.guard("C16.R2", inst):
            for p in returning(build_cls(prodc, l, r), inst):
                got = p.value.term if isinstance(p.value, VTens) else num_term(p.value)
                ck.check(got == w, "C16.R2", inst, prog.method("ProdObservable", "apply").site(), "%s evaluates to %r; expected %r" % (inst, got, w))
    rejects = [(prodc, "a", "b", "ValueError"), (prodc, "s", "t", "ValueError"), (prodc, "a", "str", "TypeError"), (prodc, "none", "a", "TypeError"),
               (sumc, "a", "str", "TypeError"), (sumc, "list", "a", "TypeError"), (sumc, "none", "s", "TypeError")]
    for cls, l, r, exc in rejects:
        inst = "%s(%s, %s) rejected" % (cls.name, l, r)
        with ck.guard("C16.R2", inst):
            paths = build_cls(cls, l, r)
            ok = all(p.outcome == "raise" and p.value.exc_name == exc for p in paths)
            ck.check(ok, "C16.R2", inst, cls.find_method("__init__").site(), "%s is accepted or raises the wrong error (%s); expected %s when built" % (inst, [str(p.value)[:60] for p in paths], exc))
    # R3: composites do not override the statistics drivers
    base = prog.cls("ObservableBase")
    for cls in (sumc, prodc):
        for m in ("statistics", "statistics_from_samples", "sample"):
            ck.check(cls.find_method(m) is base.methods.get(m), "C16.R3", "%s inherits %s" % (cls.name, m), cls.module.relpath + ":" + cls.name,
                     "%s overrides %s: composite statistics may differ from the statistics of the combined value" % (cls.name, m))
    # ------------------------------------------------------------------ R4 history independence (real leaves, three calls)
    from .history import check_history

    for cname, build in (("2*(a + b)", lambda it, a, b: binop(it, "Mult", VConst(2), binop(it, "Add", a, b, None), None)),
                         ("a - 3*b", lambda it, a, b: binop(it, "Sub", a, binop(it, "Mult", VConst(3), b, None), None)),
                         ("-a", lambda it, a, b: unaryop(it, "USub", a, None))):
        def mk(it, build=build):
            a, b, s, smp = _ctx(it, prog)
            return (s, build(it, a, b), smp)

        check_history(ck, "C16.R4", cname + ".apply", osite, mk, lambda it, c: call(it, c[1], "apply", c[0], c[2]), max_paths=40)
        check_history(ck, "C16.R4", cname + ".statistics_from_samples", osite, mk,
                      lambda it, c: it.ops.subscript(it, call(it, c[1], "statistics_from_samples", c[0], c[2]), VConst("mean"), None), max_paths=40)
    # an expression kept by the caller evaluates to the same thing after further expressions were built on top of it
    from .history import check_after

    for cname, build in (("a + b", lambda it, a, b: binop(it, "Add", a, b, None)), ("2*a", lambda it, a, b: binop(it, "Mult", VConst(2), a, None)), ("(a + b) - a", lambda it, a, b: binop(it, "Sub", binop(it, "Add", a, b, None), a, None))):
        def mk2(it, build=build):
            a, b, s, smp = _ctx(it, prog)
            return (s, build(it, a, b), smp, a, b)

        def pre(it, c):
            binop(it, "Add", c[1], VConst(1.5), None)
            binop(it, "Add", c[1], c[4], None)
            binop(it, "Sub", VConst(2), c[1], None)
            binop(it, "Mult", VConst(3), c[1], None)
            unaryop(it, "USub", c[1], None)

        check_after(ck, "C16.R4", "(%s).apply after larger expressions were built from it" % cname, osite, mk2, pre, lambda it, c: call(it, c[1], "apply", c[0], c[2]), max_paths=40)
    # ------------------------------------------------------------------ R1 leaves that differ in an option only
    # SigmaZ(absolute=True) and SigmaZ() carry the same name: a combination of the two is still the combination of THEIR values
    with ck.guard("C16.R1", "leaves with the same name and different options", osite):
        def th_same(it):
            s = make_state(it, "PositiveWaveFunction")
            smp = tens(it, "samples", ("B", "nv"))
            z = it.instantiate(prog.cls("SigmaZ"), [], {}, None)
            za = it.instantiate(prog.cls("SigmaZ"), [], {"absolute": VConst(True)}, None)
            rz, rza = call(it, z, "apply", s, smp), call(it, za, "apply", s, smp)
            comp = binop(it, "Sub", za, binop(it, "Mult", VConst(2), z, None), None)
            return rz, rza, call(it, comp, "apply", s, smp)

        for p in returning(paths_of(prog, th_same), "same-name leaves"):
            rz, rza, got = p.value
            tz, tza, tg = getattr(rz, "term", None), getattr(rza, "term", None), getattr(got, "term", None)
            if tz is None or tza is None or tg is None or tz == tza:
                ck.undecided("C16.R1", "|Z| - 2*Z", osite, "leaf values not followed")
                continue
            want = tza - 2 * tz
            if tg == want:
                ck.ok("C16.R1", "|Z| - 2*Z: each leaf contributes its own value", osite)
            elif tg in (tz - 2 * tz, tza - 2 * tza):
                ck.violation("C16.R1", "|Z| - 2*Z: each leaf contributes its own value", osite,
                             "SigmaZ(absolute=True) - 2*SigmaZ() evaluates to %s: the two leaves, which share the name 'SigmaZ' and differ in `absolute`, are evaluated as one (a value kept per leaf NAME)" % (str(tg)[:120],),
                             key="C16.R1|same-name leaves merged")
            else:
                d = lin_diff(tg, want)
                ck.check(diff_verdict(d), "C16.R1", "|Z| - 2*Z: each leaf contributes its own value", osite, "SigmaZ(absolute=True) - 2*SigmaZ(): " + diff_msg(d))
    ck.require_min("C16.R4", 9)
    # ------------------------------------------------------------------ R5 a leaf's result is not written to
    # A leaf may hand back a view of the batch (a user observable returning samples[:, 0] does); arithmetic on it must build
    # new values.  Decided on effects: no write reaches the batch's storage, and the leaf result keeps its value.
    def _view_stub(it, func, env, node):
        smp = argp(env, 2)
        return it.ops.index_tensor(it, smp, [VSlice(None, None, None), VConst(0)], node)

    VSTUBS = {"SigmaZ.apply": _view_stub, "SigmaX.apply": _view_stub}
    for cname, build in (("2*a", lambda it, a, b: binop(it, "Mult", VConst(2), a, None)), ("a*2", lambda it, a, b: binop(it, "Mult", a, VConst(2), None)),
                         ("-a", lambda it, a, b: unaryop(it, "USub", a, None)), ("1 - a", lambda it, a, b: binop(it, "Sub", VConst(1), a, None)),
                         ("a + b", lambda it, a, b: binop(it, "Add", a, b, None)), ("a - 3*b", lambda it, a, b: binop(it, "Sub", a, binop(it, "Mult", VConst(3), b, None), None))):
        with ck.guard("C16.R5", cname, osite):
            def thv(it, build=build):
                a, b, s, smp = _ctx(it, prog)
                comp = build(it, a, b)
                n0 = len(it.effects)
                r = call(it, comp, "apply", s, smp)
                return smp, r, n0

            for p in returning(paths_of(prog, thv, stubs=VSTUBS), cname):
                smp, r, n0 = p.value
                wr = [e for e in p.effects[n0:] if e.kind == "write" and "param:samples" in e.origins]
                ck.check(not wr, "C16.R5", cname + ":the batch is not written through a leaf's result", wr[0].site if wr else osite,
                         "evaluating %s writes into the sample batch: a leaf that returns a view of the batch (e.g. samples[:, 0]) has its values, and the chain state, overwritten" % cname)
                ck.check(smp.obj.term == T.sym("samples"), "C16.R5", cname + ":batch unchanged", osite, "the batch holds %r after evaluating %s" % (smp.obj.term, cname))
    ck.require_min("C16.R5", 12)
    ck.require_min("C16.R1", 40)
    ck.require_min("C16.R2", 20)
    ck.require_min("C16.R3", 40)
    ck.assumptions += [
        "numpy scalar types' own __mul__/__add__ (which may pre-empt the reflected operators) are not modelled",
        "leaf apply() values are opaque symbols; the expression trees checked cover every operator overload in both operand positions plus nested examples",
    ]
