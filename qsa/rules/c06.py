"""C06 – each training step is the contrastive-divergence update."""
import ast

from .. import terms as T
from ..cfg import CFG, calls_in
from .common import *  # noqa: F401,F403
from . import api
from ..ctx import stub_grad_lists
from ..values import dim_size

STATES = api.STATES


def stub_ppg(it, func, env, node):
    selfv = env.get(func.params[0])
    nets = state_networks(it, selfv)
    from ..ctx import grad_dim

    out = [VTens(it.new_tobj("tensor", T.sym("P_%s" % n), (grad_dim(it, it.get_attr(selfv, n, None)),), "fresh")) for n in nets]
    return it.new_list(out)


def _chain_start_verdict(ck, inst, msite, p, gcall, Nb, nb_name, rows):
    from ..values import show_shape as show
    """The chains start from the negative batch and the batch itself is left alone - by value and by effect: the very tensor with
    overwrite=False, or a copy that holds the batch's values and has the batch's number of rows (then it may be advanced in place)."""
    genv = gcall[5]
    ist = genv.get("initial_state")
    ow = genv.get("overwrite")
    it_term = gcall[7].get("initial_state") if len(gcall) > 7 else None
    same_obj = isinstance(ist, VTens) and ist.obj is Nb.obj
    if same_obj:
        ck.ok("C06.R1", inst + ":chains start from the negative batch", msite)
        ck.check(isinstance(ow, VConst) and ow.value is False, "C06.R1", inst + ":negative batch not overwritten", msite, "gibbs_steps may overwrite the negative batch")
        return
    want = T.sym(nb_name)
    if isinstance(ist, VTens) and it_term is not None and hasattr(it_term, "single_atom") and ist.shape is not None and len(ist.shape) >= 1:
        # a buffer whose every row was just overwritten holds what was written: upd(buffer, [:n], V) with n the buffer's own length
        a_ = it_term.single_atom()
        if isinstance(a_, T.App) and a_.op == "upd" and len(a_.args[1]) == 1 and isinstance(a_.args[1][0], tuple) and a_.args[1][0][0] == "slice" \
                and a_.args[1][0][1] in (None, 0) and a_.args[1][0][3] is None and str(a_.args[1][0][2]) == str(ist.shape[0]):
            it_term = a_.args[2]
    if isinstance(ist, VTens) and it_term is not None and hasattr(it_term, "syms"):
        rows_ok = shape_is(ist, (rows, "nv"))
        if it_term == want and rows_ok is True:
            ck.ok("C06.R1", inst + ":chains start from the negative batch (a copy holding its values)", msite)
        elif rows_ok is False or (it_term != want and nb_name in it_term.syms()):
            ck.violation("C06.R1", inst + ":chains start from the negative batch", msite,
                         "the chains start from a tensor of shape %s holding %s: not the %s rows of neg_batch and nothing else (rows kept from an earlier, larger batch are advanced and summed "
                         "into the negative phase as well)" % (show(ist.shape), str(it_term)[:120], rows), key="C06.R1|chains|start is not the negative batch")
        elif it_term != want:
            ck.violation("C06.R1", inst + ":chains start from the negative batch", msite, "the chains do not start from neg_batch: %s" % (str(it_term)[:120],))
        else:
            ck.undecided("C06.R1", inst + ":chains start from the negative batch", msite, "the start state holds the batch's values but its number of rows is not decided: %s" % (show(ist.shape),))
    else:
        ck.check(None if isinstance(ist, (VTens, VUnknown)) else False, "C06.R1", inst + ":chains start from the negative batch", msite, "the chains do not start from neg_batch")
    wr = [e for e in p.effects if e.kind == "write" and ("param:" + nb_name) in e.origins]
    ck.check(not wr, "C06.R1", inst + ":negative batch not overwritten", wr[0].site if wr else msite, "the caller's negative batch is written in place")


def run(ck):
    prog = ck.program
    # ------------------------------------------------------------------ R1 (history) a second batch, smaller than the first
    # (the last batch of an epoch when the batch size does not divide the data): its chains are its own negative batch, all of it
    # and nothing else - whatever the state kept from the batch before
    for cls in STATES:
        msite = prog.method(cls, "compute_batch_gradients").site()
        inst = "%s.compute_batch_gradients/after a larger batch" % cls
        with ck.guard("C06.R1", inst, msite):
            def th2(it, cls=cls):
                s = make_state(it, cls)
                k = VNum("int", T.sym("k"), nonneg=True)
                wb = cls != "PositiveWaveFunction"
                a1 = [k, tens(it, "S0", ("Bs0", "nv")), tens(it, "Nb0", ("Bn0", "nv"))] + ([api.bases_arr(it, "bases0", "Bs0")] if wb else [])
                call(it, s, "compute_batch_gradients", *a1)
                n0 = len(it.calls)
                Nb = tens(it, "Nb", ("Bn", "nv"))
                a2 = [k, tens(it, "S", ("Bs", "nv")), Nb] + ([api.bases_arr(it, "bases", "Bs")] if wb else [])
                call(it, s, "compute_batch_gradients", *a2)
                return n0, Nb

            from .c03 import stub_gradient as _sg

            for p in [q for q in paths_of(prog, th2, sticky="term", max_paths=24, stubs={"NeuralStateBase.gradient": _sg}) if q.outcome == "return"]:
                n0, Nb = p.value
                gs2 = [c for c in p.calls[n0:] if c[0].endswith(".gibbs_steps")]
                if len(gs2) != 1:
                    ck.undecided("C06.R1", inst, msite, "the second batch does not run exactly one chain evaluation (%d)" % len(gs2))
                    continue
                # a path on which the two batch sizes were found equal is the ordinary case
                if True in cond_truths(p, lambda k_: k_[0] == "eq" and (k_[1].syms() | k_[2].syms()) == {"Bn", "Bn0"}):
                    continue
                _chain_start_verdict(ck, inst + " [%s]" % ",".join("%s=%s" % (c[1][:26], c[2]) for c in p.conds[-2:]), msite, p, gs2[0], Nb, "Nb", "Bn")
    # ------------------------------------------------------------------ R1 CD update as a linear form
    for cls in STATES:
        msite = prog.method(cls, "compute_batch_gradients").site()
        for with_bases in ((False,) if cls == "PositiveWaveFunction" else (False, True)):
            inst = "%s.compute_batch_gradients/%s" % (cls, "bases" if with_bases else "no bases")
            with ck.guard("C06.R1", inst, msite):
                def th(it):
                    s = make_state(it, cls)
                    S, Nb = tens(it, "S", ("Bs", "nv")), tens(it, "Nb", ("Bn", "nv"))
                    k = VNum("int", T.sym("k"), nonneg=True)
                    args = [k, S, Nb] + ([api.bases_arr(it, "bases", "Bs")] if with_bases else [])
                    r = call(it, s, "compute_batch_gradients", *args)
                    return s, S, Nb, r, args

                from .c03 import stub_gradient

                paths = paths_of(prog, th, sticky=True, stubs={"NeuralStateBase.gradient": stub_gradient})
                for p in returning(paths, inst):
                    shape_err_verdict(ck, "C06.R1", inst, paths)
                    it = p.interp
                    s, S, Nb, r, args = p.value
                    nets = state_networks(it, s)
                    items = it.concrete_items(r)
                    ck.check(items is not None and len(items) == len(nets), "C06.R1", inst + ":one gradient per network", msite, "result is not a list with one gradient per network")
                    if items is None or len(items) != len(nets):
                        continue
                    gcalls = [c for c in p.calls if c[0] == "NeuralStateBase.gradient"]
                    eg_all = [c for c in p.calls if c[0].endswith(".effective_energy_gradient")]
                    gs_all = [c for c in p.calls if c[0].endswith(".gibbs_steps")]
                    restated = None
                    if not gcalls and not with_bases and len(gs_all) == 1 and len(eg_all) == 2:
                        # without bases the positive phase is the summed energy gradient of the data batch: a subclass may restate it
                        # instead of calling gradient().  Then: one energy gradient on the data batch, one on the chain end.
                        vk_ = gs_all[0][4]
                        pos_ = [c for c in eg_all if isinstance(c[5].get("v"), VTens) and c[5]["v"].obj is S.obj]
                        neg_ = [c for c in eg_all if isinstance(c[5].get("v"), VTens) and isinstance(vk_, VTens) and c[5]["v"].obj is vk_.obj]
                        if len(pos_) == 1 and len(neg_) == 1 and pos_[0][6] is not None:
                            restated = (pos_[0], neg_[0])
                    if restated is None:
                        ck.check(len(gcalls) == 1, "C06.R1", inst + ":positive phase computed once", msite, "gradient() of the data batch is evaluated %d times" % len(gcalls))
                    else:
                        ck.ok("C06.R1", inst + ":positive phase computed once (restated as the energy gradient of the data batch)", msite)
                    if len(gcalls) == 1:
                        env = gcalls[0][5]
                        sb = env.get("samples")
                        ck.check(isinstance(sb, VTens) and sb.obj is S.obj, "C06.R1", inst + ":positive phase of the data batch", msite, "the positive phase is not computed on samples_batch")
                        bb = env.get("bases")
                        if with_bases:
                            ck.check(isinstance(bb, VTens) and bb.term == T.sym("bases"), "C06.R1", inst + ":bases forwarded", msite, "bases_batch is not forwarded to the positive phase")
                        else:
                            ck.check(isinstance(bb, VConst) and bb.value is None, "C06.R1", inst + ":no bases", msite, "a bases argument appears although none was given")
                    gs = [c for c in p.calls if c[0].endswith(".gibbs_steps")]
                    eg = [c for c in p.calls if c[0].endswith(".effective_energy_gradient")]
                    if restated is not None:
                        eg = [restated[1]]
                    ck.check(len(gs) == 1 and len(eg) == 1, "C06.R1", inst + ":one negative chain evaluation", msite, "gibbs_steps / effective_energy_gradient called %d / %d times" % (len(gs), len(eg)))
                    if len(gs) != 1 or len(eg) != 1:
                        continue
                    genv = gs[0][5]
                    am = it.get_attr(s, "rbm_am", None)
                    ck.check(genv.get("self").inst is am.inst, "C06.R1", inst + ":chains run on the amplitude network", msite, "the negative phase does not use rbm_am")
                    ck.check(num_term(genv.get("k")) == T.sym("k"), "C06.R1", inst + ":k Gibbs steps", msite, "gibbs_steps receives k = %r" % (num_term(genv.get("k")),))
                    ist = genv.get("initial_state")
                    _chain_start_verdict(ck, inst, msite, p, gs[0], Nb, "Nb", "Bn")
                    vk = gs[0][4]
                    ev = eg[0][5].get("v")
                    ck.check(isinstance(ev, VTens) and isinstance(vk, VTens) and ev.obj is vk.obj, "C06.R1", inst + ":model gradient at the chain end", msite, "effective_energy_gradient is not evaluated on the k-step chain states")
                    ck.check(eg[0][5].get("self").inst is am.inst, "C06.R1", inst + ":model gradient of the amplitude network", msite, "the model gradient is not taken from rbm_am")
                    red = eg[0][5].get("reduce")
                    gm = eg[0][6]
                    # what the call hands back is the sum over the chains, or (another convention of the helper) already their mean:
                    # told apart by value - the mean carries the inverse of the number of chains in every term
                    bn_at = T.sym("Bn").single_atom()
                    pws = {dict(m_).get(bn_at, 0) for m_ in gm.terms} if gm is not None and gm.terms else None
                    if isinstance(red, VConst) and red.value is True and pws == {0}:
                        ck.ok("C06.R1", inst + ":summed model gradient", msite)
                        gsum = gm
                    elif pws == {0}:
                        ck.ok("C06.R1", inst + ":summed model gradient (no division inside the call)", msite)
                        gsum = gm
                    elif pws == {-1}:
                        ck.ok("C06.R1", inst + ":model gradient averaged over the chains inside the call", msite)
                        gsum = gm * T.sym("Bn")
                    else:
                        ck.undecided("C06.R1", inst + ":summed model gradient", msite, "whether the model gradient is the sum or the mean over the chains is not recognised")
                        gsum = None
                    P0 = (T.sym("g_rbm_am") if restated is None else restated[0][6]) * T.inv(T.sym("Bs"))
                    want0 = P0 - gsum * T.inv(T.sym("Bn")) if gsum is not None else None
                    gm = gsum if gsum is not None else gm
                    got0 = items[0].term
                    if want0 is None or got0 is None:
                        ck.undecided("C06.R1", inst + ":amplitude update", msite, "no term")
                    elif got0 == want0:
                        ck.ok("C06.R1", inst + ":amplitude update = positive - model/neg_batch_size", msite, update=got0)
                    else:
                        d = lin_diff(got0, want0)
                        if d[0] == "unknown":
                            # the same terms with other count coefficients (Bs // Bn instead of 1 / Bn ...): decided exactly on a grid of batch sizes
                            cd = count_coeff_diff(got0, want0, {"Bs", "Bn"})
                            if cd is not None:
                                d = cd
                        if d[0] == "unknown":
                            if got0 == P0 + gm * T.inv(T.sym("Bn")):
                                d = ("coeff", "model gradient", "+1/Bn", "-1/Bn")
                            elif got0 == P0 - gm * T.inv(T.sym("Bs")):
                                d = ("coeff", "model gradient", "-1/Bs (divided by the positive batch size)", "-1/Bn")
                            elif got0 == P0 - gm:
                                d = ("dep-missing", ["Bn (not divided by the negative batch size)"])
                            elif got0 == P0:
                                d = ("dep-missing", ["the negative phase"])
                        ck.check(diff_verdict(d), "C06.R1", inst + ":amplitude update = positive - model/neg_batch_size", msite, "amplitude gradient: " + diff_msg(d), got=got0, want=want0)
                    if len(items) > 1:
                        ck.check(items[1].term == T.sym("g_rbm_ph") * T.inv(T.sym("Bs")), "C06.R1", inst + ":phase network gets the positive phase only", msite,
                                 "the phase gradient is %r; expected the positive phase unchanged" % (items[1].term,))
    # ------------------------------------------------------------------ R2-R4 order inside fit
    fit = prog.method("NeuralStateBase", "fit")
    fsite = fit.site()
    from ..model import private_helper_resolver

    cfg = CFG(fit.node, resolver=private_helper_resolver(prog), owner=fit.qualname)  # private stages of fit are spliced in

    def call_nodes(pred):
        out = []
        for n in cfg.nodes:
            for c in calls_in(n):
                if pred(c):
                    out.append((n, c))
        return out

    # Which call expressions of fit are optimizer.step / zero_grad / scheduler.step / vector_to_grads /
    # compute_batch_gradients is decided by *resolving the callee* in an interpretation of fit with an optimizer and a
    # scheduler, never by the spelling of the receiver (a local renamed `opt` is the same optimizer).
    resolved = {}

    def thr(it):
        s = make_state(it, "ComplexWaveFunction")
        data = tens(it, "data", ("N", "nv"))
        call(it, s, "fit", data, lr=VNum("float", T.sym("lr"), pos=True), input_bases=api.bases_arr(it, "input_bases", "N"),
             scheduler=VExt("torch.optim.lr_scheduler.StepLR"))
        return s

    sched_paths = []
    with ck.guard("C06.R2", "resolve call sites of fit", fsite):
        sched_paths = [p for p in paths_of(prog, thr, max_paths=100, sticky=True, stubs={"NeuralStateBase.compute_batch_gradients": stub_grad_lists}) if p.outcome == "return"]
        for p in sched_paths:
            for nm, nodes in p.interp.call_ast.items():
                l = resolved.setdefault(nm, [])
                l.extend(x for x in nodes if not any(x is y for y in l))

    def is_resolved(c, name):
        return any(c is x for k, l in resolved.items() if k == name or k.endswith("." + name) for x in l)

    ep_loops = [n for n, c in call_nodes(lambda c: is_resolved(c, "CallbackList.on_epoch_start"))]
    b_loops = [n for n, c in call_nodes(lambda c: is_resolved(c, "CallbackList.on_batch_start"))]
    if not ep_loops or not b_loops:
        ck.undecided("C06.R2", "loops", fsite, "epoch / batch loops not found")
    else:
        eloop = cfg.enclosing_loops(ep_loops[0].id)[-1]
        bloop = cfg.enclosing_loops(b_loops[0].id)[-1]
        steps = call_nodes(lambda c: is_resolved(c, "optimizer.step"))
        zgs = call_nodes(lambda c: is_resolved(c, "optimizer.zero_grad"))
        vtg = call_nodes(lambda c: is_resolved(c, "vector_to_grads"))
        cbg = call_nodes(lambda c: is_resolved(c, "compute_batch_gradients"))
        sch = call_nodes(lambda c: is_resolved(c, "scheduler.step"))
        # The per-path operation order (C06.R2 timeline rule below) is what decides; the dominance rules here restate it on
        # fit's own flow graph and apply only while the whole pipeline is written in fit itself (not in a helper).
        ck.check(bool(resolved.get("optimizer.step")) and any(k.endswith("compute_batch_gradients") for k in resolved) and any(k.endswith("vector_to_grads") for k in resolved),
                 "C06.R2", "batch pipeline present", fsite, "no call of optimizer.step / compute_batch_gradients / vector_to_grads is reached from fit")
        if len(steps) == 1 and len(cbg) == 1 and vtg:
            sn = steps[0][0]
            encl = [l.id for l in cfg.enclosing_loops(sn.id)]
            ck.check(encl == [eloop.id, bloop.id], "C06.R2", "optimizer.step() once per batch", "%s:%s:%d" % (fit.module.relpath, fit.qualname, sn.lineno),
                     "optimizer.step() is not executed exactly once per batch iteration (enclosing loops: %d)" % len(encl))
            # no conditional between the batch loop header and step
            conds = [n for n in cfg.nodes if n.kind == "test" and cfg.dominates(n.id, sn.id) and bloop.ast.body[0].lineno <= n.lineno <= sn.lineno]
            ck.check(not conds, "C06.R2", "optimizer.step() unconditional within the batch", fsite, "optimizer.step() is guarded by `%s`" % (conds[0].label if conds else ""))
            vloop = cfg.enclosing_loops(vtg[0][0].id)
            vnode = vloop[-1] if len(vloop) >= 3 else vtg[0][0]  # the loop over the networks stands for its body
            order = [("compute_batch_gradients", cbg[0][0]), ("vector_to_grads", vnode), ("optimizer.step", sn)]
            for (n1, a), (n2, b) in zip(order, order[1:]):
                ck.check(cfg.dominates(a.id, b.id) and a.id != b.id, "C06.R2", "%s before %s" % (n1, n2), "%s:%s:%d" % (fit.module.relpath, fit.qualname, b.lineno),
                         "%s does not precede %s on every path of a batch iteration" % (n1, n2))
            # vector_to_grads inside a loop over the networks, inside the batch loop
            ve = cfg.enclosing_loops(vtg[0][0].id)
            ck.check(len(ve) >= 2 and ve[:2] == [eloop, bloop], "C06.R3", "gradients assigned inside the batch loop", fsite,
                     "vector_to_grads is not called inside the batch loop (which networks it covers is decided per network below)")
            # zero_grad must not come after the assignment
            for zn, _ in zgs:
                bad = cfg.dominates(vnode.id, zn.id) and cfg.dominates(zn.id, sn.id)
                ck.check(not bad, "C06.R2", "gradients not cleared between assignment and step", "%s:%s:%d" % (fit.module.relpath, fit.qualname, zn.lineno),
                         "optimizer.zero_grad() runs after the gradients were assigned and before optimizer.step(): the update is lost")
        # ---------------- R4 scheduler
        ck.check(bool(resolved.get("scheduler.step")), "C06.R4", "a given scheduler is advanced", fsite, "scheduler.step() is never reached from fit with a scheduler given")
        lsite = fsite
        if len(sch) == 1:
            n = sch[0][0]
            encl = [l.id for l in cfg.enclosing_loops(n.id)]
            lsite = "%s:%s:%d" % (fit.module.relpath, fit.qualname, n.lineno)
            ck.check(encl == [eloop.id], "C06.R4", "scheduler.step() once per epoch, outside the batch loop", lsite,
                     "scheduler.step() is %s" % ("inside the batch loop: the learning rate is advanced once per batch" if bloop.id in encl else "outside the epoch loop"))
        if True:
            # what guards it is decided by value: with a scheduler given, every path of fit advances it exactly once in
            # every epoch that runs to its end (an epoch = from one epoch-start event to the next), after that epoch's
            # last optimizer step.  Where it stands relative to the epoch-end event, and whether an epoch cut short by
            # a stop request still advances it, is not fixed by the property: both are accepted.
            for p in sched_paths:
                tl = [n_ for _k, n_, _r in p.interp.timeline if n_ in ("optimizer.step", "scheduler.step", "CallbackList.on_epoch_start")]
                epochs, cur = [], None
                for n_ in tl:
                    if n_ == "CallbackList.on_epoch_start":
                        cur = []
                        epochs.append(cur)
                    elif cur is not None:
                        cur.append(n_)
                li = [l for l in p.interp.loops if l.get("node") is eloop.ast]
                broke = [bool(li[0]["first"] and li[0]["first"].get("broke")), bool(li[0]["generic"] and li[0]["generic"].get("broke"))] if len(li) == 1 else None
                if broke is None or len(epochs) > 2:
                    ck.undecided("C06.R4", "epoch loop of fit [%s]" % path_tag(p), lsite, "the epoch loop was not analysed as (first, generic) iteration")
                    continue
                for k_, ev in enumerate(epochs):
                    nsch = ev.count("scheduler.step")
                    okn = nsch == 1 or (broke[k_] and nsch == 0)
                    ck.check(okn, "C06.R4", "given scheduler advanced exactly once in analysed epoch %d [%s]" % (k_, path_tag(p)), lsite,
                             "scheduler.step() runs %d times in an epoch that %s (events: %s)" % (nsch, "was stopped" if broke[k_] else "ran to its end", ev[-4:]))
                    if nsch == 1:
                        ck.check("optimizer.step" not in ev[ev.index("scheduler.step"):], "C06.R4", "scheduler advanced after the epoch's optimizer steps [%s]" % path_tag(p), lsite,
                                 "an optimizer step follows scheduler.step() inside the epoch")
            ck.check(bool(sched_paths), "C06.R4", "fit with a scheduler returns", lsite, "no returning path of fit with a scheduler was found")
    # a continued run (starting_epoch = 3, two epochs left, both enumerated): the epochs' numbering starts at 3, the
    # scheduler built by this fit starts at its own step 0, and each epoch still advances it exactly once
    def thr_cont(it):
        s = make_state(it, "ComplexWaveFunction")
        data = tens(it, "data", ("N", "nv"))
        call(it, s, "fit", data, epochs=VConst(4), starting_epoch=VConst(3), lr=VNum("float", T.sym("lr"), pos=True),
             input_bases=api.bases_arr(it, "input_bases", "N"), scheduler=VExt("torch.optim.lr_scheduler.StepLR"))
        return s

    with ck.guard("C06.R4", "continued run (starting_epoch=3, epochs=4)", fsite):
        cps = [p for p in paths_of(prog, thr_cont, max_paths=100, sticky=True, stubs={"NeuralStateBase.compute_batch_gradients": stub_grad_lists}) if p.outcome == "return"]
        ck.check(bool(cps), "C06.R4", "continued run with a scheduler returns", fsite, "no returning path of fit(starting_epoch=3, epochs=4, scheduler=...) was found")
        for p in cps:
            tl = [n_ for _k, n_, _r in p.interp.timeline if n_ in ("scheduler.step", "CallbackList.on_epoch_start")]
            eps_, cur = [], None
            for n_ in tl:
                if n_ == "CallbackList.on_epoch_start":
                    cur = []
                    eps_.append(cur)
                elif cur is not None:
                    cur.append(n_)
            # every epoch followed by another one ran to its end (a stop request ends the run)
            for k_, ev in enumerate(eps_):
                full = k_ + 1 < len(eps_)
                nsch = len(ev)
                ck.check(nsch == 1 if full else nsch <= 1, "C06.R4", "continued run: scheduler advanced exactly once in epoch %d [%s]" % (3 + k_, path_tag(p)), fsite,
                         "with starting_epoch=3, scheduler.step() runs %d times in epoch %d (the scheduler built by this fit starts at its own step 0 whatever the epoch numbering)" % (nsch, 3 + k_))
    # ------------------------------------------------------------------ R3 (second run): the gradients reach the parameters the model has now
    for cls in STATES:
        inst = "fit/%s after reinitialize_parameters() and an earlier fit" % cls
        with ck.guard("C06.R3", inst, fsite):
            def thf2(it, cls=cls):
                s = make_state(it, cls)
                kw = {"epochs": VConst(1)}
                if cls != "PositiveWaveFunction":
                    kw["input_bases"] = api.bases_arr(it, "input_bases", "N")
                call(it, s, "fit", tens(it, "data", ("N", "nv")), **kw)
                call(it, s, "reinitialize_parameters")
                n0 = len(it.effects)
                call(it, s, "fit", tens(it, "data", ("N", "nv")), **kw)
                return s, n0

            for p in [q for q in paths_of(prog, thf2, max_paths=100, sticky=True, stubs={"NeuralStateBase.compute_batch_gradients": stub_grad_lists}) if q.outcome == "return"][:8]:
                it = p.interp
                s, n0 = p.value
                cur = {}
                for net in state_networks(it, s):
                    for pn_, q in module_params(it, it.get_attr(s, net, None)):
                        cur[id(q.obj)] = (net, pn_, q)
                gw = [e for e in it.effects[n0:] if e.kind == "grad" and "zero_grad" not in str(e.detail)]
                if not gw:
                    ck.undecided("C06.R3", inst + " [%s]" % path_tag(p), fsite, "no gradient assignment was followed in the second fit")
                    continue
                orphan = [e for e in gw if id(e.obj) not in cur]
                ck.check(not orphan, "C06.R3", inst + ":gradients are assigned to the current parameters [%s]" % path_tag(p), orphan[0].site if orphan else fsite,
                         "in a fit after reinitialize_parameters() the gradients are written onto tensors that are no longer parameters of the model (a layout kept from the earlier run): the optimizer "
                         "finds no gradient on the parameters it was built over and moves nothing", key="C06.R3|fit|orphaned gradients")
    # ------------------------------------------------------------------ R3 pairing and optimizer construction (effect facet)
    for cls in STATES:
        inst = "fit/" + cls
        with ck.guard("C06.R3", inst, fsite):
            def thf(it):
                s = make_state(it, cls)
                data = tens(it, "data", ("N", "nv"))
                kw = {"lr": VNum("float", T.sym("lr"), pos=True), "k": VNum("int", T.sym("kfit"), nonneg=True)}
                if cls != "PositiveWaveFunction":
                    kw["input_bases"] = api.bases_arr(it, "input_bases", "N")
                # the caller's own option dictionaries (re-used for the next fit with another lr)
                od = it.new_dict({"momentum": VNum("float", T.sym("momentum"), nonneg=True)})
                od.obj.origin = "param:optimizer_args"
                kw["optimizer_args"] = od
                call(it, s, "fit", data, **kw)
                return s, od

            paths = [p for p in paths_of(prog, thf, max_paths=100, sticky=True, stubs={"NeuralStateBase.compute_batch_gradients": stub_grad_lists}) if p.outcome == "return"]
            ck.check(bool(paths), "C06.R3", inst + ":runs", fsite, "fit never returns")
            for p in paths:
                it = p.interp
                s, od = p.value
                touched = [e for e in p.effects if e.kind == "container" and e.obj is od.obj]
                ck.check(not touched, "C06.R3", inst + ":the caller's optimizer_args are left as given [%s]" % path_tag(p), touched[0].site if touched else fsite,
                         "fit modifies the caller's optimizer_args dictionary (%s): what this run puts there (the learning rate) is silently used by the next fit that re-uses the dictionary"
                         % (touched[0].detail if touched else ""), key="C06.R3|%s|optimizer_args mutated" % cls)
                nets = state_networks(it, s)
                # the number of Gibbs steps asked for is the number used, for every k >= 0 (k = 0 included)
                for c_ in [c for c in p.calls if c[0].endswith(".compute_batch_gradients")][:1]:
                    kt = num_term(argp(c_[5], 1))
                    ck.check(kt == T.sym("kfit"), "C06.R3", inst + ":k forwarded to every batch [%s]" % path_tag(p), fsite,
                             "fit(k=k) computes the batch gradients with k = %r: the requested number of Gibbs steps is not used on this path" % (kt,))
                allp = []
                for n in nets:
                    allp += [q.obj for _, q in module_params(it, it.get_attr(s, n, None))]
                opt = [c for c in it.ext_calls if c[0].startswith("torch.optim.") and not c[0].startswith("torch.optim.lr_scheduler")]
                ck.check(len(opt) == 1, "C06.R3", inst + ":one optimizer", fsite, "%d optimizers constructed" % len(opt))
                if len(opt) == 1:
                    a, k = opt[0][1], opt[0][2]
                    ps = it.concrete_items(a[0]) if a else None
                    ck.check(ps is not None and [x.obj for x in ps] == allp, "C06.R3", inst + ":optimizer over all parameters of all networks", fsite,
                             "the optimizer is not built over the parameters of %s in order" % nets)
                    ck.check(num_term(k.get("lr")) == T.sym("lr"), "C06.R3", inst + ":learning rate forwarded", fsite, "the optimizer's lr is %r" % (num_term(k.get("lr")),))
                vt = [c for c in p.calls if c[0].endswith("vector_to_grads")]
                ck.check(len(vt) == 2 * 2 * len(nets), "C06.R3", inst + ":one assignment per network and batch", fsite, "vector_to_grads called %d times for %d networks in the 4 analysed batch iterations" % (len(vt), len(nets)))
                # by effect: after the analysed batches the .grad of every parameter of a network is a piece of that network's own
                # gradient vector (however the assignment is organised: per call, through a prepared layout, in a helper)
                for net in nets:
                    srcs, missing = set(), []
                    for pn_, q in module_params(it, it.get_attr(s, net, None)):
                        g_ = q.obj.grad
                        if isinstance(g_, VTens) and g_.term is not None:
                            srcs |= {x[2:].split("@")[0] for x in g_.term.syms() if x.startswith("G_")}
                        else:
                            missing.append(pn_)
                    if missing:
                        ck.check(None if srcs <= {net} else False, "C06.R3", inst + ":gradient %s -> parameters of %s" % (net, net), fsite,
                                 "the gradients of %s.%s are not followed by the analyser" % (net, ", ".join(missing)))
                    else:
                        ck.check(srcs == {net}, "C06.R3", inst + ":gradient %s -> parameters of %s" % (net, net), fsite,
                                 "the parameters of network %s receive their gradients from the gradient vector of %s" % (net, sorted(srcs) or "no network"))
                # timeline order inside one batch iteration
                tl = [(k_, n_) for k_, n_, _ in it.timeline if n_ in ("optimizer.zero_grad", "optimizer.step", "NeuralStateBase.compute_batch_gradients", "scheduler.step") or n_.endswith("vector_to_grads")]
                names = ["cbg" if n.endswith("compute_batch_gradients") else ("vtg" if n.endswith("vector_to_grads") else n) for _, n in tl]
                one = ["cbg"] + ["vtg"] * len(nets) + ["optimizer.step"]
                want_tl = one * 2 + one * 2  # (first, generic) batch x (first, generic) epoch
                got_tl = [x for x in names if x not in ("scheduler.step", "optimizer.zero_grad")]
                ck.check(got_tl == want_tl, "C06.R2", inst + ":gradients computed -> assigned -> one step, per batch", fsite, "operation order per analysed batch is %s" % got_tl[: len(one) + 2])
                # a zero_grad between the last assignment and the step would discard the update
                lost = any(a == "vtg" and b == "optimizer.zero_grad" for a, b in zip(names, names[1:]))
                ck.check(not lost, "C06.R2", inst + ":no zero_grad between assignment and step", fsite, "gradients are cleared after they were assigned")
    # ------------------------------------------------------------------ R5 vector_to_grads
    vf = prog.func("qucumber.utils.gradients_utils", "vector_to_grads")
    for rbm in ("BinaryRBM", "PurificationRBM"):
        inst = "vector_to_grads/" + rbm
        with ck.guard("C06.R5", inst, vf.site()):
            def thv(it):
                m = make_rbm(it, rbm, "rbm_am")
                vec = tens(it, "vec", ("P",))
                ps = it.call_value(it.get_attr(m, "parameters", None), [], {}, None)
                it.call_function(VFunc(vf), [vec, ps], {}, None)
                return m

            for p in returning(paths_of(prog, thv), inst):
                it = p.interp
                off = T.ZERO
                vec = T.sym("vec")
                lost_ = [o for o in getattr(it, "opaque_log", []) if ("vector_to_grads" in o[3] or "gradients_utils" in o[3]) and not str(o[0]).startswith("torch.")]
                if lost_ and not any(isinstance(q.obj.grad, VTens) for _n, q in module_params(it, p.value)):
                    # no gradient assignment was followed, and the parameters / the vector pass through a call the analyser has no
                    # model of: what is assigned is not known
                    ck.undecided("C06.R5", inst + ":segments", vf.site(), "the parameters are walked through %s, which the analyser does not model" % (lost_[-1][0],))
                    continue
                for n, q in module_params(it, p.value):
                    numel = dim_size(("flat", tuple(q.shape))) if len(q.shape) > 1 else dim_size(q.shape[0])
                    g = q.obj.grad
                    want = T.app("view", T.app("index", vec, (("slice", _c0(off), _c0(off + numel), None),)), tuple(str(d) for d in q.shape))
                    gt = g.term if isinstance(g, VTens) else None
                    if gt == want:
                        ck.ok("C06.R5", "%s:%s <- vec[%r : %r]" % (inst, n, off, off + numel), vf.site())
                    else:
                        ck.check(False if gt is not None and "vec" in gt.syms() else None, "C06.R5", "%s:%s slice" % (inst, n), vf.site(),
                                 ".grad of %s is %r; expected vec[%r : %r] reshaped to the parameter's shape" % (n, gt, off, off + numel))
                    ck.check(shape_is(g, q.shape) if isinstance(g, (VTens, VUnknown)) else False, "C06.R5", "%s:%s shape" % (inst, n), vf.site(), ".grad of %s has shape %s, parameter has %s" % (n, getattr(g, "shape", None), q.shape))
                    off = off + numel
    ck.require_min("C06.R1", 40)
    ck.require_min("C06.R2", 7)
    ck.require_min("C06.R3", 12)
    ck.require_min("C06.R4", 4)
    ck.require_min("C06.R5", 16)
    ck.assumptions += [
        "optimizer.step() applies .grad to the parameters it was built over (torch.optim semantics, trusted); with plain SGD the move is -lr * grad",
        "the positive phase itself is decided by C03 (assume/guarantee split through a stub)",
    ]


def _c0(t):
    c = t.const_value()
    if c is not None and c.denominator == 1:
        return int(c)
    return t
