"""C15 – complex-tensor kernel: sign tables, slot order, Kronecker index order, guards."""
from .. import terms as T
from .common import *  # noqa: F401,F403

from ..values import VModule

MOD = "qucumber.utils.cplx"


def cx(it, name, shape):
    """Complex input: (2, *shape) tensor whose term is the pair (name_r, name_i)."""
    o = it.new_tobj("tensor", T.stack0(T.sym(name + "r"), T.sym(name + "i")), (2,) + tuple(shape), "param:" + name)
    o.fw = 64  # "float64 operands"
    return VTens(o)


def S(n):
    return T.sym(n)


def _scaled_norm_ok(p, got, want):
    """sqrt(sum |x_k|^2) written as m * sqrt(sum (|x_k| / m)^2) with m = max_k |x_k| (a non-negative number): equal when the
    squares agree (both sides are non-negative); and m itself on the path that found m == 0 (every entry is 0 then)."""
    mx = [a for a in got.all_atoms() if isinstance(a, T.App) and a.op == "max" and len(a.args) == 2 and not isinstance(a.args[1], T.Poly)]
    if len(set(mx)) != 1:
        return False
    m_atom = mx[0]
    inner = m_atom.args[0].single_atom() if isinstance(m_atom.args[0], T.Poly) else None
    if not (isinstance(inner, T.App) and inner.op == "sqrt"):
        return False  # m must be a largest modulus (>= 0)
    g2 = T.subst(got, lambda a: T.sym("m_") if a == m_atom else None)
    if g2 == T.sym("m_"):
        # returned m itself: only on a path that established m == 0
        from ..interp import _cond_key

        for c in p.conds:
            t_ = getattr(c[3] if len(c) > 3 else None, "term", None)
            if t_ is None:
                continue
            key, flip = _cond_key(t_)
            if key[0] == "eq" and {repr(key[1]), repr(key[2])} == {repr(T.P(m_atom)), repr(T.ZERO)} and (c[2] != flip) is True:
                return True
        return False
    sq = scaled_root_square(g2, "m_")
    wa = want.single_atom() if isinstance(want, T.Poly) else None
    if sq is None or not (isinstance(wa, T.App) and wa.op == "sqrt"):
        return False
    return "m_" not in sq.syms() and vec_dot_normal(sq) == vec_dot_normal(wa.args[0])


def _call(ck, fname, build, max_paths=16):
    f = ck.program.func(MOD, fname)

    def th(it):
        args, kwargs = build(it)
        it.c15_out = kwargs.get("out")
        return it.call_function(__import__("qsa.values", fromlist=["VFunc"]).VFunc(f), args, kwargs, None)

    paths = paths_of(ck.program, th, max_paths=max_paths)
    ck.note_functions(functions_in_paths(paths))
    # R6: no kernel writes into an operand (x / x, x * conj(x), a second use of the same operand must see the value passed in);
    # only an explicit out= buffer is written
    for p in paths:
        outv = getattr(p.interp, "c15_out", None)
        outs = outv.obj.roots() if hasattr(outv, "obj") and hasattr(outv.obj, "roots") else set()
        wr = [e for e in p.effects if e.kind == "write" and e.obj not in outs and any(o.startswith("param:") for o in e.origins)]
        ck.check(not wr, "C15.R6", "%s:operands are read only [%s]" % (fname, ",".join("%s=%s" % (c[1][:18], c[2]) for c in p.conds[:2])), wr[0].site if wr else f.site(),
                 "%s writes into its operand %s (%s): the caller's tensor is changed, and when the same tensor is passed for both operands the result itself is wrong"
                 % (fname, sorted(o for o in wr[0].origins if o.startswith("param:"))[:1] if wr else "", wr[0].detail if wr else ""), key="C15.R6|%s|operand written" % fname)
    return f, paths


def _pair_check(ck, rule, inst, site, got, want_re, want_im, norm=None):
    comps = T.as_stack0(got) if got is not None else None
    if comps is None or len(comps) != 2:
        ck.undecided(rule, inst, site, "result is not a (re, im) pair: %r" % (got,))
        return
    for nm, g, w in (("re", comps[0], want_re), ("im", comps[1], want_im)):
        if norm is not None:
            g, w = norm(g), norm(w)
        d = lin_diff(g, w)
        ck.check(diff_verdict(d), rule, "%s:%s" % (inst, nm), site, "%s part: %s" % (nm, diff_msg(d)), got=g, want=w)


def _pair_sigmoid(term):
    """[(case, True / False / None, message)] for a sigmoid computed on the pair (a, b) -> (re, im), or None when the term is not
    of a shape this decides."""
    if term is None:
        return None
    cases = where_cases(term)
    if cases is None:
        return None
    a, b = T.sym("a"), T.sym("b")
    E, C, Sn = T.sym("E#"), T.sym("C#"), T.sym("S#")

    def to_ecs(t, neg):
        """abs(a) by the sign of a in this case; e^(k a) -> E^k; cos b, sin b -> C, S"""
        def fn(at):
            if isinstance(at, T.App) and at.op == "abs" and len(at.args) == 1 and at.args[0] in (a, -a):
                return -a if neg else a
            return None

        t = T.subst(t, fn)

        def fn2(at):
            if isinstance(at, T.Exp):
                ar = at.arg
                sm = ar.single_mono() if hasattr(ar, "single_mono") else None
                if sm is not None and len(sm[0]) == 1 and sm[0][0][0] == a.single_atom() and sm[0][0][1] == 1 and sm[1].denominator == 1:
                    return T.powq(E, int(sm[1]))
                return None
            if isinstance(at, T.App) and at.op in ("cos", "sin") and len(at.args) == 1 and at.args[0] in (b, -b):
                sg = 1 if (at.op == "cos" or at.args[0] == b) else -1
                return C if at.op == "cos" else sg * Sn
            return None

        return T.subst(t, fn2)

    def trig0(p_):
        return T.trig_normal(T.rename_syms(T.rename_syms(p_, {}), {})) if False else p_

    def rat_zero(x_, y_):
        nx, dx = T._num_den(T.P(x_))
        ny, dy = T._num_den(T.P(y_))
        d = nx * dy - ny * dx
        # S^2 = 1 - C^2
        out = T.ZERO
        for mono, c_ in d.terms.items():
            term_ = T.const(c_)
            for at, pw in mono:
                if isinstance(at, T.Sym) and at.name == "S#" and isinstance(pw, int) and pw >= 2:
                    term_ = term_ * T.powq(T.ONE - C * C, pw // 2) * (T.P(at) if pw % 2 else T.ONE)
                else:
                    term_ = term_ * T.powq(T.P(at), pw)
            out = out + term_
        return out.is_zero()

    Ei = T.powq(E, -1)
    D = T.ONE + 2 * Ei * C + Ei * Ei
    want_re = (T.ONE + Ei * C) * T.inv(T.app("group", D))
    want_im = (Ei * Sn) * T.inv(T.app("group", D))
    out = []
    for asg, tc in cases:
        comps = T.as_stack0(tc)
        sign = None
        for cond, truth in getattr(asg, "terms", []):
            ca = cond.single_atom() if hasattr(cond, "single_atom") else None
            if isinstance(ca, T.App) and ca.op in ("cmp_Lt", "cmp_LtE", "cmp_Gt", "cmp_GtE") and len(ca.args) == 2:
                l_, r_ = ca.args
                if l_ == a and r_ == T.ZERO:
                    sign = (ca.op in ("cmp_Lt", "cmp_LtE")) == truth
                elif r_ == a and l_ == T.ZERO:
                    sign = (ca.op in ("cmp_Gt", "cmp_GtE")) == truth
        if comps is None or len(comps) != 2 or (sign is None and any(isinstance(x_, T.App) and x_.op == "abs" for x_ in tc.all_atoms())):
            return None
        try:
            re_, im_ = to_ecs(comps[0], bool(sign)), to_ecs(comps[1], bool(sign))
            if (re_.syms() | im_.syms()) & {"a", "b"}:
                return None  # something of a, b that is not e^(ka), cos b, sin b
            ok_re, ok_im = rat_zero(re_, want_re), rat_zero(im_, want_im)
        except Exception:
            return None
        conj = (not ok_im) and rat_zero(im_, -want_im)
        out.append((list(asg), bool(ok_re and ok_im),
                    "in the case %s the pair is not the sigmoid of a + ib%s" % (list(asg), ": the imaginary part has the opposite sign (the conjugate of the sigmoid)" if (ok_re and conj) else "")))
    return out


def run(ck):
    prog = ck.program
    xr, xi, yr, yi = S("xr"), S("xi"), S("yr"), S("yi")

    # ------------------------------------------------------------ R1 bilinear sign tables
    def bil(f):
        return f(xr, yr) - f(xi, yi), f(xr, yi) + f(xi, yr)

    table = [
        ("scalar_mult", "elementwise", [("B",), ("B",)], lambda a, b: a * b, False),
        ("scalar_mult", "matrix*scalar", [("n", "m"), ()], lambda a, b: a * b, False),
        ("elementwise_mult", "elementwise", [("B",), ("B",)], lambda a, b: a * b, False),
        ("matmul", "matrix-matrix", [("n", "m"), ("m", "p")], lambda a, b: T.app("matmul", a, b), False),
        ("matmul", "matrix-vector", [("n", "m"), ("m",)], lambda a, b: T.app("matmul", a, b), False),
    ]
    for fname, form, shapes, f, _ in table:
        inst = "%s/%s" % (fname, form)
        with ck.guard("C15.R1", inst):
            fi, paths = _call(ck, fname, lambda it: ([cx(it, "x", shapes[0]), cx(it, "y", shapes[1])], {}))
            for p in returning(paths, inst):
                if shape_err_verdict(ck, "C15.R1", inst, paths):
                    re, im = bil(f)
                    _pair_check(ck, "C15.R1", inst, fi.site(), p.value.term, re, im)
                    want_shape = None
                    ck.check(p.value.shape is not None and p.value.shape[0] == 2, "C15.R1", inst + ":shape", fi.site(),
                             "result shape %s has no leading complex axis" % (p.value.shape,))
    # einsum with flags
    for spec, shapes in (("ij,jk->ik", [("n", "m"), ("m", "p")]), ("ib,ibg->bg", [("e", "B"), ("e", "B", "g")])):
        for rp, ip in ((True, True), (True, False), (False, True), (False, False)):
            inst = "einsum/%s/re=%s,im=%s" % (spec, rp, ip)
            with ck.guard("C15.R1", inst):
                fi, paths = _call(ck, "einsum", lambda it: (
                    [VConst(spec), cx(it, "x", shapes[0]), cx(it, "y", shapes[1])], {"real_part": VConst(rp), "imag_part": VConst(ip)}))
                for p in returning(paths, inst):
                    if not shape_err_verdict(ck, "C15.R1", inst, paths):
                        continue
                    from ..ops_ext import einsum_as_matmul

                    f = lambda a, b: einsum_as_matmul(spec, [a, b]) or T.app("einsum2", spec, a, b)  # noqa: E731
                    re, im = bil(f)
                    v = p.value
                    if rp and ip:
                        _pair_check(ck, "C15.R1", inst, fi.site(), v.term, re, im)
                    elif rp or ip:
                        w = re if rp else im
                        d = lin_diff(getattr(v, "term", None), w)
                        ck.check(diff_verdict(d), "C15.R1", inst, fi.site(), "requested part: " + diff_msg(d))
                    else:
                        ck.check(isinstance(v, VConst) and v.value is None, "C15.R1", inst, fi.site(), "einsum with no part requested must return None")
    # inner / outer product: conjugation conventions
    for form, shp, f in (("vectors", ("n",), lambda a, b: T.app("matmul", a, b)), ("scalars", (), lambda a, b: a * b)):
        inst = "inner_prod/" + form
        with ck.guard("C15.R1", inst):
            fi, paths = _call(ck, "inner_prod", lambda it: ([cx(it, "x", shp), cx(it, "y", shp)], {}))
            for p in returning(paths, inst):
                if shape_err_verdict(ck, "C15.R1", inst, paths):
                    # <x|y> = conj(x).y : re = xr.yr + xi.yi ; im = xr.yi - xi.yr
                    _pair_check(ck, "C15.R1", inst, fi.site(), p.value.term, f(xr, yr) + f(xi, yi), f(xr, yi) - f(xi, yr), norm=vec_dot_normal if form == "vectors" else None)
    inst = "outer_prod"
    with ck.guard("C15.R1", inst):
        fi, paths = _call(ck, "outer_prod", lambda it: ([cx(it, "x", ("n",)), cx(it, "y", ("m",))], {}))
        for p in returning(paths, inst):
            if shape_err_verdict(ck, "C15.R1", inst, paths):
                g = lambda a, b: T.app("ger", a, b)  # noqa: E731
                # |x><y| = x conj(y)^T : re = xr yr + xi yi ; im = xi yr - xr yi
                _pair_check(ck, "C15.R1", inst, fi.site(), p.value.term, g(xr, yr) + g(xi, yi), g(xi, yr) - g(xr, yi))
                ck.check(shape_is(p.value, (2, "n", "m")), "C15.R1", inst + ":shape", fi.site(), "outer product shape %s, expected (2, n, m)" % (p.value.shape,))
    # conj / conjugate
    for fname, shp, want in (
        ("conj", ("B",), lambda: (xr, -xi)),
        ("conjugate", ("n",), lambda: (xr, -xi)),
        ("conjugate", ("n", "m"), lambda: (T.app("t", xr), -T.app("t", xi))),
        ("conjugate", ("n", "m", "k"), lambda: (T.app("transpose", xr, -3, -2), -T.app("transpose", xi, -3, -2))),
    ):
        inst = "%s/rank%d" % (fname, len(shp) + 1)
        with ck.guard("C15.R1", inst):
            fi, paths = _call(ck, fname, lambda it: ([cx(it, "x", shp)], {}))
            for p in returning(paths, inst):
                if shape_err_verdict(ck, "C15.R1", inst, paths):
                    re, im = want()
                    _pair_check(ck, "C15.R1", inst, fi.site(), p.value.term, re, im)
                    if fname == "conjugate" and len(shp) >= 2:
                        ws = (2, shp[1], shp[0]) + tuple(shp[2:])
                        ck.check(p.value.shape == ws, "C15.R1", inst + ":shape", fi.site(), "conjugate transpose shape %s, expected %s" % (p.value.shape, ws))

    # ------------------------------------------------------------ R2 slot order
    with ck.guard("C15.R2", "make_complex"):
        fi, paths = _call(ck, "make_complex", lambda it: ([tens(it, "a", ("B",)), tens(it, "b", ("B",))], {}))
        for p in returning(paths, "make_complex"):
            _pair_check(ck, "C15.R2", "make_complex(x,y)", fi.site(), p.value.term, S("a"), S("b"))
            ck.check(shape_is(p.value, (2, "B")), "C15.R2", "make_complex:shape", fi.site(), "shape %s" % (p.value.shape,))
            fi, paths = _call(ck, "make_complex", lambda it: ([tens(it, "a", ("B",))], {}))
            p = single(paths, "make_complex")
            _pair_check(ck, "C15.R2", "make_complex(x)", fi.site(), p.value.term, S("a"), T.ZERO)
            fi, paths = _call(ck, "make_complex", lambda it: ([tens(it, "A", ("B",), kind="ndarray")], {}))
            p = single(paths, "make_complex")
            _pair_check(ck, "C15.R2", "make_complex(ndarray)", fi.site(), p.value.term, T.app("npreal", S("A")), T.app("npimag", S("A")))
    for fname, k in (("real", 0), ("imag", 1)):
        with ck.guard("C15.R2", fname):
            fi, paths = _call(ck, fname, lambda it: ([cx(it, "x", ("B",))], {}))
            for p in returning(paths, fname):
                w = xr if k == 0 else xi
                ck.check(p.value.term == w, "C15.R2", fname, fi.site(), "%s(x) returns %r, expected component %d" % (fname, p.value.term, k))
                ck.check(p.value.obj.origin == "param:x", "C15.R2", fname + ":view", fi.site(), "%s(x) must be a view of x (buffers are written through it)" % fname)
    with ck.guard("C15.R2", "numpy"):
        fi, paths = _call(ck, "numpy", lambda it: ([cx(it, "x", ("B",))], {}))
        for p in returning(paths, "numpy"):
            d = lin_diff(p.value.term, xr + T.sym("lit:1j") * xi)
            ck.check(diff_verdict(d), "C15.R2", "numpy", fi.site(), "numpy(x) vs real + 1j*imag: " + diff_msg(d))
    with ck.guard("C15.R2", "I"):
        def th(it):
            return it.module_const(prog.modules[MOD], "I", prog.modules[MOD].assigns["I"])
        if "I" not in prog.modules[MOD].assigns:
            raise AnalysisError("anchor vanished: cplx.I")
        for p in returning(paths_of(prog, th), "I"):
            _pair_check(ck, "C15.R2", "I=(0,1)", "qucumber/utils/cplx.py:<module>:I", p.value.term, T.ZERO, T.ONE)
    with ck.guard("C15.R2", "sigmoid"):
        fi, paths = _call(ck, "sigmoid", lambda it: ([tens(it, "a", ("B",)), tens(it, "b", ("B",))], {}))
        for p in returning(paths, "sigmoid"):
            z = S("a") + T.sym("lit:1j") * S("b")
            out = T.exp(z) / (1 + T.exp(z))
            comps = T.as_stack0(p.value.term) if p.value.term is not None else None
            parts = []
            for k_, nm_ in enumerate(("npreal", "npimag")):
                a_ = comps[k_].single_atom() if comps is not None and len(comps) == 2 else None
                parts.append(a_.args[0] if isinstance(a_, T.App) and a_.op == nm_ else None)
            if parts[0] is None or parts[1] is None:
                # the sigmoid written on the (re, im) pair itself: decided by value in every case of its elementwise selections,
                # as rational functions of E = e^a, C = cos b, S = sin b (S^2 = 1 - C^2), with |a| resolved by the case's sign of a
                verdict = _pair_sigmoid(p.value.term)
                if verdict is None:
                    ck.undecided("C15.R2", "sigmoid:packing", fi.site(), "the result is not (real part, imaginary part) of one complex array: %r" % (str(p.value.term)[:200],))
                else:
                    for tag_, ok_, why_ in verdict:
                        ck.check(ok_, "C15.R2", "sigmoid:value = 1/(1+exp(-z)) %s" % tag_, fi.site(), why_)
                continue
            ck.check(parts[0] == parts[1], "C15.R2", "sigmoid:packing", fi.site(), "the real and the imaginary slot are taken from different complex values")
            # the complex value: exp(z) / (1 + exp(z)) as a rational function of exp(z), in every case of an elementwise selection
            cases = where_cases(parts[0])
            if cases is None:
                ck.undecided("C15.R2", "sigmoid:value", fi.site(), "too many elementwise selections")
            for asg, tc in cases or []:
                try:
                    same = T.ratfun_equal(tc, out)
                except Exception:
                    same = None
                ck.check(True if same else None if same is None else False, "C15.R2", "sigmoid:value = exp(z)/(1+exp(z)) %s" % (asg or ""), fi.site(),
                         "the complex value is %r; expected exp(z) / (1 + exp(z))" % (str(tc)[:160],))
            # finite operands: exp(z) overflows for Re z > 709.78; exp(z) / (1 + exp(z)) is then inf / inf = nan although the sigmoid is 1
            haz = [h for h in p.interp.numeric if "[overflow]" in h[1] and "exp(x) / (1 + exp(x))" in h[1]]
            ck.check(not haz, "C15.R2", "sigmoid:finite for every finite operand", haz[0][0] if haz else fi.site(),
                     "the sigmoid is computed as exp(z) / (1 + exp(z)) of an unbounded argument: for Re z > 709.78 exp(z) is inf and the quotient is nan (the value is 1 there); "
                     "\"all finite operand values\" includes these", key="C15.R2|sigmoid|exp overflow")

    # ------------------------------------------------------------ R3 Kronecker index order
    with ck.guard("C15.R3", "kronecker_prod"):
        fi, paths = _call(ck, "kronecker_prod", lambda it: ([cx(it, "x", ("a", "b")), cx(it, "y", ("c", "d"))], {}))
        for p in returning(paths, "kronecker_prod"):
            if shape_err_verdict(ck, "C15.R3", "kronecker_prod", paths):
                ws = (2, ("flat", ("a", "c")), ("flat", ("b", "d")))
                ck.check(p.value.shape == ws, "C15.R3", "kronecker_prod:layout", fi.site(),
                         "result layout %s, expected (2, a*c, b*d) with x-major row and column order" % (p.value.shape,), shape=str(p.value.shape))
                ck.check("xr" in p.value.term.syms() and "yi" in p.value.term.syms(), "C15.R3", "kronecker_prod:deps", fi.site(), "result does not depend on both operands")

    # ------------------------------------------------------------ R4 guards before compute
    with ck.guard("C15.R4", "scalar_mult/out-alias"):
        for which in ("x", "y"):
            def build(it, which=which):
                x, y = cx(it, "x", ("B",)), cx(it, "y", ("B",))
                return [x, y], {"out": x if which == "x" else y}
            fi, paths = _call(ck, "scalar_mult", build)
            for p in paths:
                writes = [e for e in p.effects if e.kind == "write"]
                if p.outcome == "raise":
                    ck.check(not writes, "C15.R4", "scalar_mult/out is %s" % which, fi.site(), "writes %s before raising" % writes)
                else:
                    ck.violation("C15.R4", "scalar_mult/out is %s" % which, fi.site(), "an output buffer that aliases an argument is accepted (no error raised)")
        # an output buffer of another shape than the product (one made for a longer batch and reused for the last, shorter one):
        # torch.mul(..., out=<view of it>) cannot resize it - the buffer comes back partly stale.  "rejects ... with an error
        # rather than a wrong value"
        def build_s(it):
            x, y = cx(it, "x", ()), cx(it, "y", ("n",))
            return [x, y], {"out": cx(it, "buf", ("m",))}
        fi, paths = _call(ck, "scalar_mult", build_s)
        for p in paths:
            # (m and n are two sizes: a path that found them equal is the ordinary call with a fitting buffer)
            eqs = cond_truths(p, lambda k: k[0] == "eq" and (k[1].syms() | k[2].syms()) == {"m", "n"})
            if p.outcome == "raise":
                ck.ok("C15.R4", "scalar_mult/out of another shape than the product is refused", fi.site())
            elif True in eqs:
                ck.ok("C15.R4", "scalar_mult/out of the product's shape is accepted", fi.site())
            else:
                ck.violation("C15.R4", "scalar_mult/out of another shape than the product is refused", fi.site(),
                             "scalar_mult(x, y, out=buf) with y of shape (2, n) and buf of shape (2, m), m != n, returns: the product is written through views of buf that torch resizes, "
                             "buf itself keeps its shape and comes back holding part of the product and part of its old contents", key="C15.R4|scalar_mult|out of another shape")
        # a *view* of an argument (x[:], x.view(...), x[...]) is another object with the same storage: writing the real part of the
        # product into it destroys the operand before the imaginary part is computed - it must be refused like the argument itself
        for which in ("x", "y"):
            def build_v(it, which=which):
                x, y = cx(it, "x", ("B",)), cx(it, "y", ("B",))
                src = x if which == "x" else y
                return [x, y], {"out": VTens(src.obj, src.view, src.shape)}
            fi, paths = _call(ck, "scalar_mult", build_v)
            for p in paths:
                writes = [e for e in p.effects if e.kind == "write" and ("param:" + which) in e.origins]
                if p.outcome == "raise":
                    ck.check(not writes, "C15.R4", "scalar_mult/out is a view of %s" % which, fi.site(), "writes the operand before raising")
                else:
                    ck.violation("C15.R4", "scalar_mult/out is a view of %s" % which, fi.site(),
                                 "an output buffer that shares its storage with an argument (e.g. out=%s[:]) is accepted: the operand is overwritten while the product is being computed and a wrong value is returned "
                                 "(only `out is %s` is refused)" % (which, which), key="C15.R4|scalar_mult|out-view-of-%s" % which)
        # ... and so is a buffer that overlaps an argument without starting where it starts (two windows of one work buffer,
        # work[0:2] and work[1:3]): what has to be compared is the memory the two tensors live in, not their first addresses
        for which in ("x", "y"):
            def build_o(it, which=which):
                from ..ops import subscript
                from ..values import VSlice
                work = tens(it, "work", (3, "B"))
                win0 = subscript(it, work, VSlice(VConst(0), VConst(2), None), None)
                win1 = subscript(it, work, VSlice(VConst(1), VConst(3), None), None)
                other = cx(it, "z", ("B",))
                return ([win0, other] if which == "x" else [other, win0]), {"out": win1}
            fi, paths = _call(ck, "scalar_mult", build_o)
            for p in paths:
                if p.outcome != "raise":
                    ck.violation("C15.R4", "scalar_mult/out overlaps %s at another offset" % which, fi.site(),
                                 "an output buffer that lives in the same memory as an argument but starts at another address (out = work[1:3] for %s = work[0:2]) is accepted: "
                                 "the real part of the product is written over the operand before the imaginary part is computed" % which, key="C15.R4|scalar_mult|out-overlaps-%s" % which)
                else:
                    ck.ok("C15.R4", "scalar_mult/out overlaps %s at another offset" % which, fi.site())
        # a distinct buffer is written in place and returned
        def build2(it):
            return [cx(it, "x", ("B",)), cx(it, "y", ("B",))], {"out": cx(it, "o", ("B",))}
        fi, paths = _call(ck, "scalar_mult", build2)
        for p in returning(paths, "scalar_mult/out=buffer"):
            ok = p.outcome == "return" and isinstance(p.value, VTens) and p.value.obj.origin == "param:o"
            ck.check(ok, "C15.R4", "scalar_mult/out=buffer returned", fi.site(), "the out buffer is not the returned object")
            if ok:
                _pair_check(ck, "C15.R4", "scalar_mult/out=buffer value", fi.site(), p.value.term, xr * yr - xi * yi, xr * yi + xi * yr)
    bad = [
        ("inner_prod", [("n", "m"), ("n", "m")]), ("inner_prod", [("n",), ()]),
        ("outer_prod", [("n", "m"), ("n",)]), ("outer_prod", [(), ()]),
        ("kronecker_prod", [("n",), ("n",)]), ("kronecker_prod", [("n", "m"), ("n",)]),
        ("elementwise_division", [(3,), (4,)]),
    ]
    for fname, shapes in bad:
        inst = "%s/unsupported%s" % (fname, shapes)
        with ck.guard("C15.R4", inst):
            fi, paths = _call(ck, fname, lambda it: ([cx(it, "x", shapes[0]), cx(it, "y", shapes[1])], {}))
            for p in paths:
                if p.outcome == "raise" and p.value.exc_name == "ValueError":
                    ck.check(not [e for e in p.effects if e.kind == "write"], "C15.R4", inst, fi.site(), "writes before raising")
                else:
                    ck.violation("C15.R4", inst, fi.site(), "unsupported operand shapes %s are not rejected with ValueError (%s)" % (shapes, p.outcome))

    # ------------------------------------------------------------ R5 derived operations
    n2 = xr * xr + xi * xi
    m2 = yr * yr + yi * yi
    derived = [
        ("absolute_value", [("B",)], "real", lambda: T.sqrt(n2)),
        ("inverse", [("B",)], "pair", lambda: (xr / n2, -xi / n2)),
        ("elementwise_division", [("B",), ("B",)], "pair", lambda: ((xr * yr + xi * yi) / m2, (xi * yr - xr * yi) / m2)),
        ("scalar_divide", [("B",), ("B",)], "pair", lambda: ((xr * yr + xi * yi) / m2, (xi * yr - xr * yi) / m2)),
        ("norm_sqr", [("n",)], "real", lambda: T.app("matmul", xr, xr) + T.app("matmul", xi, xi)),
        ("norm", [("n",)], "real", lambda: T.sqrt(T.app("matmul", xr, xr) + T.app("matmul", xi, xi))),
    ]
    for fname, shapes, kind, want in derived:
        with ck.guard("C15.R5", fname):
            names = ["x", "y"]
            fi, paths = _call(ck, fname, lambda it: ([cx(it, names[i], s) for i, s in enumerate(shapes)], {}))
            for p in returning(paths, fname):
                if not shape_err_verdict(ck, "C15.R5", fname, paths):
                    continue
                if kind == "real":
                    got, w = p.value.term, want()
                    if all(len(s_) == 1 for s_ in shapes):
                        got, w = vec_dot_normal(got), vec_dot_normal(w)  # contractions of vectors: one normal form
                    if got is None:
                        ck.undecided("C15.R5", fname, fi.site(), "the result is not a term the analyser can follow")
                    elif got == w:
                        ck.ok("C15.R5", fname, fi.site(), got=got)
                    elif T.ratfun_equal(got, w):
                        ck.ok("C15.R5", fname, fi.site(), got=got)
                    elif _scaled_norm_ok(p, got, w):
                        ck.ok("C15.R5", fname + " (root taken after scaling by the largest modulus)", fi.site(), got=got)
                    else:
                        d = lin_diff(got, w)
                        ck.check(diff_verdict(d), "C15.R5", fname, fi.site(), diff_msg(d), got=got, want=w)
                else:
                    comps = T.as_stack0(p.value.term)
                    if comps is None:
                        ck.undecided("C15.R5", fname, fi.site(), "result is not a pair: %r" % (p.value.term,))
                        continue
                    for nm, g, w in zip(("re", "im"), comps, want()):
                        cases = where_cases(g) if any(isinstance(a_, T.App) and a_.op in ("where", "x:torch.where", "x:numpy.where") for a_ in g.all_atoms()) else None
                        if cases is not None and len(cases) > 1:
                            # an element-wise selection between formulas (Smith's division picks the better-scaled one): the value is
                            # right iff it is right whichever way every selection goes
                            bad = [(tag, gc) for tag, gc in cases if not (gc == w or T.ratfun_equal(gc, w))]
                            if not bad:
                                ck.ok("C15.R5", "%s:%s (every case of its selections)" % (fname, nm), fi.site(), got=g)
                            elif all(gc.syms() == w.syms() for _t, gc in bad):
                                ck.violation("C15.R5", "%s:%s" % (fname, nm), fi.site(),
                                             "%s part is not the expected rational function in the case %s (polynomial identity test, complete for this class)" % (nm, list(bad[0][0])), got=bad[0][1], want=w)
                            else:
                                ck.undecided("C15.R5", "%s:%s" % (fname, nm), fi.site(), "a case of the selections is not a rational function of the operands: %s" % (list(bad[0][0]),))
                            continue
                        if g == w or T.ratfun_equal(g, w):
                            ck.ok("C15.R5", "%s:%s" % (fname, nm), fi.site(), got=g)
                        elif g.syms() == w.syms() and (T.ratfun_equal(g, -w)):
                            ck.violation("C15.R5", "%s:%s" % (fname, nm), fi.site(), "%s part has the wrong sign" % nm, got=g, want=w)
                        elif g.syms() != w.syms():
                            ck.violation("C15.R5", "%s:%s" % (fname, nm), fi.site(), "%s part depends on %s, expected %s" % (nm, sorted(g.syms()), sorted(w.syms())))
                        else:
                            ck.violation("C15.R5", "%s:%s" % (fname, nm), fi.site(),
                                         "%s part is not the expected rational function (polynomial identity test, complete for this class)" % nm, got=g, want=w)
    ck.require_min("C15.R1", 40)
    ck.require_min("C15.R2", 12)
    ck.require_min("C15.R3", 2)
    ck.require_min("C15.R4", 10)
    # ------------------------------------------------------------ R7 the float32 imaginary unit never narrows a float64 operand
    # cplx.I is float32 (torch.Tensor([0, 1])); the quantifier names it as an operand next to float64 tensors.  Whatever the
    # operand order, the float64 operand's values must enter the product unrounded.
    modv = VModule(ck.program.modules[MOD]) if hasattr(ck.program, "modules") else None
    for fname, shp in (("scalar_mult", ("n",)), ("elementwise_mult", ("n",)), ("inner_prod", ()), ("scalar_divide", ("n",))):
        for order in ("I first", "I second"):
            inst = "%s/%s" % (fname, order)
            with ck.guard("C15.R7", inst):
                def bld(it, shp=shp, order=order, fname=fname):
                    I = it.get_attr(modv, "I", None)
                    y = cx(it, "y", shp if not (fname == "matmul" and order == "I second") else ("n", "m"))
                    return ([I, y] if order == "I first" else [y, I], {})

                fi, paths = _call(ck, fname, bld)
                for p in paths:
                    if p.outcome != "return":
                        continue  # shape combinations a function refuses are R4's matter
                    nar = [n_ for n_ in p.interp.narrowings if any(o_.origin == "param:y" for o_ in n_[2].roots())]
                    ck.check(not nar, "C15.R7", inst + ":the float64 operand is not rounded to float32", nar[0][0] if nar else fi.site(),
                             "%s(%s): %s - the float64 operand is cast to the float32 dtype of cplx.I before the product, the result is single precision (relative error ~3e-8)"
                             % (fname, "cplx.I, y" if order == "I first" else "y, cplx.I", nar[0][1] if nar else ""), key="C15.R7|%s|narrowed by cplx.I" % fname)
    ck.require_min("C15.R7", 6)
    # ------------------------------------------------------------ R8 every call computes from the operands as they are now
    # "each function returns the value its definition names": a float32 scalar operand (a user's own, or cplx.I) that was
    # overwritten in place between two calls enters the second product with its current value
    for fname, shp in (("scalar_mult", ("n",)), ("inner_prod", ())):
        inst = "%s/float32 scalar overwritten in place between two calls" % fname
        with ck.guard("C15.R8", inst):
            fi8 = ck.program.func(MOD, fname)

            def th8(it, shp=shp, fi8=fi8):
                o = it.new_tobj("tensor", T.stack0(T.sym("sr"), T.sym("si")), (2,), "param:s")
                o.fw = 32
                sc = VTens(o)
                y = cx(it, "y", shp)
                r1 = it.call_function(VFunc(fi8), [sc, y], {}, None)
                t1 = r1.term if isinstance(r1, VTens) else None
                it.write(sc, T.stack0(T.sym("sr'"), T.sym("si'")), None, "copy_ (history protocol)")
                r2 = it.call_function(VFunc(fi8), [sc, y], {}, None)
                return t1, (r2.term if isinstance(r2, VTens) else None)

            for p in [q for q in paths_of(ck.program, th8, max_paths=24, sticky=True) if q.outcome == "return"]:
                t1, t2 = p.value
                if t1 is None or t2 is None:
                    ck.undecided("C15.R8", inst + " [%s]" % path_tag(p), fi8.site(), "the products are not followed")
                    continue
                want = T.rename_syms(t1, {"sr": "sr'", "si": "si'"})
                stale = t2.syms() & {"sr", "si"}
                ck.check(True if t2 == want else (False if stale else None), "C15.R8", inst + " [%s]" % path_tag(p), fi8.site(),
                         "after the scalar operand was overwritten in place the second call still multiplies by its previous value (%s): a converted copy kept from the first call is reused"
                         % ", ".join(sorted(stale)), key="C15.R8|%s|stale operand" % fname)
    ck.require_min("C15.R8", 2)
    # ------------------------------------------------------------ R9 "all finite operand values": the modulus family keeps its range
    # |z| = sqrt(re^2 + im^2) and x / |z|^2 formed literally lose finite float64 values: re^2 overflows for |re| > 1.34e154 and
    # underflows below 1.5e-154, although the modulus / the quotient is representable (hypot and scaled division are not affected)
    for fname, shapes in (("absolute_value", [("n",)]), ("norm", [("n",)]), ("inverse", [()]), ("elementwise_division", [("B",), ("B",)]), ("scalar_divide", [("B",), ()])):
        with ck.guard("C15.R9", fname):
            fi9, paths9 = _call(ck, fname, lambda it, shapes=shapes: ([cx(it, "xy"[i], s_) for i, s_ in enumerate(shapes)], {}))
            rets9 = [p for p in paths9 if p.outcome == "return"]
            ck.check(bool(rets9), "C15.R9", fname + ":returns", fi9.site(), "never returns")
            haz = [h for p in rets9 for h in p.interp.numeric if "[range]" in h[1]]
            ck.check(not haz, "C15.R9", fname + ":no squared modulus formed before the root / the division", haz[0][0] if haz else fi9.site(),
                     "%s forms %s of the operand's parts: for finite operands with modulus outside about [1.5e-154, 1.3e154] the square overflows / underflows and the result is inf, 0 or nan "
                     "although the true value is representable" % (fname, haz[0][1].split(" [")[0] if haz else ""), key="C15.R9|%s|squared modulus" % fname)
    ck.require_min("C15.R9", 10)
    ck.require_min("C15.R5", 9)
    ck.require_min("C15.R6", 40)
    ck.assumptions += [
        "torch.mul/matmul/einsum/ger/dot are bilinear over the reals; torch.cat/unsqueeze build the (re, im) pair",
        "numeric agreement for all shapes/broadcasts, float32/float64 mixing and numpy's complex exp inside cplx.sigmoid are not decided",
    ]
