"""C14 – reproducibility (randomness sources, seeding) and read-only evaluation."""
import ast

from .. import terms as T
from .common import *  # noqa: F401,F403
from . import api

# functions whose result depends on a random generator
TORCH_DEFAULT_GEN = {
    "torch.randn", "torch.rand", "torch.bernoulli", "torch.randperm", "torch.randint", "torch.normal", "torch.multinomial",
    "torch.rand_like", "torch.randn_like", "torch.randint_like", "torch.poisson",
}
TORCH_DIST_PREFIX = "torch.distributions"
FOREIGN_RNG_PREFIXES = ("numpy.random", "random.", "secrets.", "uuid.", "os.urandom", "time.time_ns")
OTHER_GENERATOR = {"torch.Generator", "torch.random.fork_rng", "torch.set_rng_state", "torch.random.set_rng_state", "torch.seed", "torch.random.seed",
                   "torch.initial_seed"}
INPLACE_RNG_METHODS = {"random_", "uniform_", "normal_", "bernoulli_", "exponential_", "geometric_", "cauchy_", "log_normal_"}


def resolve_ext(prog, mod, expr):
    """Dotted external name an expression (Name / Attribute chain) refers to, else None."""
    # dynamic imports with a literal module name: __import__('random').x / importlib.import_module('random').x
    if isinstance(expr, ast.Attribute) and isinstance(expr.value, ast.Call) and expr.value.args and isinstance(expr.value.args[0], ast.Constant) and isinstance(expr.value.args[0].value, str):
        fn = ast.unparse(expr.value.func)
        if fn in ("__import__", "importlib.import_module", "import_module"):
            return expr.value.args[0].value + "." + expr.attr
    try:
        r = prog.resolve_expr_static(mod, expr)
    except Exception:
        return None
    if r is not None and r[0] == "ext":
        return r[1]
    return None


def _generator_value(prog, mod, expr, parents, depth=0):
    """What a `generator=` argument is: 'default' (torch.default_generator), 'none' (None: the default generator is used),
    'private' (a generator constructed somewhere: torch.Generator(...)), or None when the value is not followed."""
    if depth > 3:
        return None
    if isinstance(expr, ast.Constant) and expr.value is None:
        return "none"
    nm = resolve_ext(prog, mod, expr) if isinstance(expr, (ast.Attribute, ast.Name)) else None
    if nm == "torch.default_generator":
        return "default"
    if isinstance(expr, ast.Call):
        fn = resolve_ext(prog, mod, expr.func) if isinstance(expr.func, (ast.Attribute, ast.Name)) else None
        if fn == "torch.Generator":
            return "private"
        # a helper of this module (function or method of that name): every return must give the same answer
        hname = expr.func.attr if isinstance(expr.func, ast.Attribute) else (expr.func.id if isinstance(expr.func, ast.Name) else None)
        defs = [d for d in ast.walk(mod.tree) if isinstance(d, ast.FunctionDef) and d.name == hname] if hname else []
        if len(defs) == 1:
            rets = [r for r in ast.walk(defs[0]) if isinstance(r, ast.Return)]
            hp = {}
            for q in ast.walk(defs[0]):
                for c in ast.iter_child_nodes(q):
                    hp[c] = q
            vals = {_generator_value(prog, mod, r.value, hp, depth + 1) if r.value is not None else "none" for r in rets}
            if len(vals) == 1:
                return vals.pop()
        return None
    if isinstance(expr, ast.Name):
        # a local name: every assignment to it in the enclosing function must give the same answer
        f = expr
        while f in parents and not isinstance(f, (ast.FunctionDef, ast.Lambda)):
            f = parents[f]
        if isinstance(f, ast.FunctionDef):
            asg = [a for a in ast.walk(f) if isinstance(a, ast.Assign) and any(isinstance(t, ast.Name) and t.id == expr.id for t in a.targets)]
            other = [a for a in ast.walk(f) if isinstance(a, (ast.AugAssign, ast.AnnAssign, ast.For, ast.With, ast.NamedExpr)) and any(isinstance(t, ast.Name) and t.id == expr.id and isinstance(t.ctx, ast.Store) for t in ast.walk(a))]
            if asg and not other and expr.id not in [a.arg for a in f.args.args + f.args.kwonlyargs]:
                vals = {_generator_value(prog, mod, a.value, parents, depth + 1) for a in asg}
                if len(vals) == 1:
                    return vals.pop()
    return None


def scan_randomness(prog, modules):
    """Return list of (kind, name, module, node) for every reference to a randomness source."""
    found = []
    for mod in modules:
        parents = {}
        for n in ast.walk(mod.tree):
            for c in ast.iter_child_nodes(n):
                parents[c] = n
        for n in ast.walk(mod.tree):
            if isinstance(n, (ast.Attribute, ast.Name)) and isinstance(getattr(n, "ctx", None), ast.Load):
                par = parents.get(n)
                if isinstance(par, ast.Attribute) and par.value is n:
                    continue  # inner part of a longer chain
                name = resolve_ext(prog, mod, n)
                if name is None:
                    continue
                if name in TORCH_DEFAULT_GEN:
                    # a generator= keyword would detach the draw from the seeded default generator - unless what is passed IS that
                    # generator (torch.default_generator, directly or through a local name / a helper that returns nothing else)
                    gen_kw = isinstance(par, ast.Call) and par.func is n and any(k.arg == "generator" for k in par.keywords)
                    if gen_kw:
                        gv = next(k.value for k in par.keywords if k.arg == "generator")
                        what = _generator_value(prog, mod, gv, parents)
                        if what == "default":
                            found.append(("torch", name + "(generator=torch.default_generator)", mod, n))
                        elif what == "none":
                            found.append(("torch", name, mod, n))
                        elif what == "private":
                            found.append(("foreign", name + "(generator=...)", mod, n))
                        else:
                            found.append(("unknown-generator", name + "(generator=?)", mod, n))
                    else:
                        found.append(("torch", name, mod, n))
                elif name.startswith(TORCH_DIST_PREFIX) and name.count(".") >= 2 and name.split(".")[-1][0].isupper():
                    found.append(("torch", name, mod, n))
                elif any(name == p.rstrip(".") or name.startswith(p) for p in FOREIGN_RNG_PREFIXES):
                    found.append(("foreign", name, mod, n))
                elif name in OTHER_GENERATOR:
                    found.append(("foreign", name, mod, n))
            elif isinstance(n, ast.Call) and isinstance(n.func, ast.Attribute) and n.func.attr in INPLACE_RNG_METHODS:
                gen_kw = any(k.arg == "generator" for k in n.keywords)
                found.append(("foreign" if gen_kw else "torch", "Tensor." + n.func.attr, mod, n))
            # iteration over a set: order depends on hash randomisation
            if isinstance(n, (ast.For, ast.comprehension)):
                itx = n.iter
                if isinstance(itx, ast.Call) and isinstance(itx.func, ast.Name) and itx.func.id in ("set", "frozenset"):
                    found.append(("set-iter", "iteration over %s" % ast.unparse(itx)[:40], mod, n if isinstance(n, ast.For) else itx))
                elif isinstance(itx, (ast.Set, ast.SetComp)):
                    found.append(("set-iter", "iteration over a set display", mod, n if isinstance(n, ast.For) else itx))
    return found


POSITIVE_EXAMPLE = '''
import numpy as np
import random, os, torch
def f(x):
    a = np.random.rand(3)
    b = random.random()
    c = os.urandom(4)
    g = torch.Generator()
    d = torch.randperm(4, generator=g)
    x.uniform_(0, 1, generator=g)
    for k in set(x):
        pass
    return [q for q in {1, 2}]
'''


SHARED_EXAMPLE = """
import threading
class Model:
    _flag = threading.Event()
    _limit = 20
    def stop(self):
        self._flag.set()
"""

_READ_ONLY = {"is_set", "get", "keys", "values", "items", "copy", "index", "count", "isdisjoint", "issubset", "issuperset", "startswith", "endswith", "format", "join"}


def _immutable_expr(v):
    if isinstance(v, ast.Constant):
        return True
    if isinstance(v, ast.UnaryOp):
        return _immutable_expr(v.operand)
    if isinstance(v, ast.Tuple):
        return all(_immutable_expr(x) for x in v.elts)
    if isinstance(v, (ast.Name, ast.Attribute, ast.Lambda)):
        return True  # an alias of something defined elsewhere (a function, a constant): not created here
    if isinstance(v, ast.Call) and isinstance(v.func, ast.Name) and v.func.id in ("frozenset", "tuple", "property", "staticmethod", "classmethod", "int", "float", "str", "bool"):
        return True
    return False


def shared_class_state(trees, is_descriptor=None):
    """[(kind, class, attribute, site, message)] for every class of the given (relpath, tree) modules."""
    out = []
    # an object of a class with __get__ placed in a class body is a descriptor: reading the attribute on an instance yields what
    # __get__ returns (here: per-instance storage), not the per-class object itself
    descriptors = {c.name for _r, t_ in trees for c in ast.walk(t_) if isinstance(c, ast.ClassDef)
                   and any(isinstance(f, ast.FunctionDef) and f.name == "__get__" for f in c.body)}

    def _is_descriptor(val):
        f = val.func if isinstance(val, ast.Call) else None
        return (isinstance(f, ast.Name) and f.id in descriptors) or (isinstance(f, ast.Attribute) and f.attr in descriptors)

    for rel, tree in trees:
        for cnode in [n for n in ast.walk(tree) if isinstance(n, ast.ClassDef)]:
            shared = {}
            for st in cnode.body:
                tg = None
                if isinstance(st, ast.Assign) and len(st.targets) == 1 and isinstance(st.targets[0], ast.Name):
                    tg, val = st.targets[0].id, st.value
                elif isinstance(st, ast.AnnAssign) and isinstance(st.target, ast.Name) and st.value is not None:
                    tg, val = st.target.id, st.value
                if tg is not None and not _immutable_expr(val) and not _is_descriptor(val) and not (is_descriptor is not None and is_descriptor(cnode.name, tg)):
                    shared[tg] = (st, val)
            if not shared:
                out.append(("ok", cnode.name, "", "%s:%d" % (rel, cnode.lineno), ""))
                continue
            for nm, (st, val) in shared.items():
                muts = []
                # an attribute that __init__ binds on the instance, unconditionally, shadows the class-level object for that
                # instance from then on: what is reached through `self` afterwards is the instance's own
                own_line = None
                for f_ in cnode.body:
                    if isinstance(f_, ast.FunctionDef) and f_.name == "__init__" and f_.args.args:
                        self_nm = f_.args.args[0].arg
                        for st2 in f_.body:
                            if isinstance(st2, ast.Assign) and any(isinstance(t2, ast.Attribute) and t2.attr == nm and isinstance(t2.value, ast.Name) and t2.value.id == self_nm for t2 in st2.targets):
                                own_line = (f_, st2.lineno, self_nm)
                                break

                def is_ref(e, nm=nm):
                    return isinstance(e, ast.Attribute) and e.attr == nm and isinstance(e.value, (ast.Name, ast.Call, ast.Attribute))

                for rel2, tree2 in trees:
                    for n in ast.walk(tree2):
                        if isinstance(n, ast.Call) and isinstance(n.func, ast.Attribute) and is_ref(n.func.value) and n.func.attr not in _READ_ONLY:
                            muts.append((rel2, n, "%s.%s()" % (nm, n.func.attr)))
                        elif isinstance(n, (ast.Assign, ast.AugAssign)):
                            for t_ in (n.targets if isinstance(n, ast.Assign) else [n.target]):
                                if isinstance(t_, ast.Subscript) and is_ref(t_.value):
                                    muts.append((rel2, n, "%s[...] = ..." % nm))
                                elif isinstance(n, ast.AugAssign) and is_ref(t_):
                                    muts.append((rel2, n, "%s op= ..." % nm))
                if own_line is not None:
                    f_, ln_, self_nm = own_line

                    def through_self_after(n_):
                        recv = None
                        for sub in ast.walk(n_):
                            if isinstance(sub, ast.Attribute) and sub.attr == nm and isinstance(sub.value, ast.Name):
                                recv = sub.value.id
                                break
                        inside_init = f_.lineno <= n_.lineno <= (f_.end_lineno or n_.lineno)
                        return recv == self_nm and not (inside_init and n_.lineno < ln_)

                    muts = [m_ for m_ in muts if not (m_[0] == rel and cnode.lineno <= m_[1].lineno <= (cnode.end_lineno or m_[1].lineno) and through_self_after(m_[1]))]
                if muts:
                    rel2, n, how = muts[0]
                    out.append(("violation", cnode.name, nm, "%s:%d" % (rel2, n.lineno),
                                "%s.%s = %s is created once for the class and changed in place (%s): every model in the process sees the change, so a repeated run of the same seeded "
                                "operations behaves differently" % (cnode.name, nm, ast.unparse(val)[:40], how)))
                else:
                    out.append(("ok", cnode.name, nm, "%s:%d" % (rel, st.lineno), ""))
    return out


def run(ck):
    prog = ck.program
    # ------------------------------------------------------------------ R1 randomness sources
    mods = [m for m in prog.modules.values()]
    found = scan_randomness(prog, mods)
    n_torch = 0
    for kind, name, mod, node in found:
        site = "%s:%d" % (mod.relpath, getattr(node, "lineno", 0))
        inst = "%s@%s" % (name, _encl(mod, node))
        if kind == "torch":
            n_torch += 1
            ck.ok("C14.R1", inst, site, source=name)
        elif kind == "foreign":
            ck.violation("C14.R1", inst, site, "randomness drawn from %s, which the library's seeding call does not control" % name)
        elif kind == "unknown-generator":
            ck.undecided("C14.R1", inst, site, "%s: which generator is passed is not followed" % name)
        else:
            ck.violation("C14.R1", inst, site, "%s: iteration order depends on hash randomisation" % name)
    ck.check(n_torch >= 9, "C14.R1", "sources enumerated", "qucumber/", "only %d torch randomness sources found; 11 confirmed by hand (anchors vanished?)" % n_torch)
    # the matcher itself must keep working: embedded positive example
    import types
    from ..model import ModuleInfo

    ex = ModuleInfo("example", "<example>", "<example>", POSITIVE_EXAMPLE)
    for st in ex.tree.body:
        prog._collect_stmt(ex, st)
    exf = scan_randomness(prog, [ex])
    kinds = sorted(k for k, _, _, _ in exf if k != "torch")
    ck.check(kinds.count("foreign") >= 6 and kinds.count("set-iter") >= 2, "C14.R1", "matcher self-test", "<embedded example>",
             "the randomness matcher no longer recognises the embedded positive example: %s" % [(k, n) for k, n, _, _ in exf])
    # ------------------------------------------------------------------ R2 seeding
    srs = prog.func("qucumber", "set_random_seed")
    for gpu in (False, True):
        inst = "set_random_seed/gpu=%s" % gpu
        with ck.guard("C14.R2", inst, srs.site()):
            def th(it):
                seed = VNum("int", T.sym("seed"))
                return it.call_function(VFunc(srs), [seed], {"gpu": VConst(gpu), "quiet": VConst(True)}, None)

            paths = paths_of(prog, th)
            for p in paths:
                seeds = [c for c in p.interp.ext_calls if c[0] == "torch.manual_seed"]
                ok = len(seeds) == 1 and len(seeds[0][1]) == 1 and num_term(seeds[0][1][0]) == T.sym("seed")
                ck.check(p.outcome == "return" and ok, "C14.R2", inst + "/" + ",".join("%s=%s" % (c[1][:24], c[2]) for c in p.conds), srs.site(),
                         "set_random_seed(seed) does not pass the caller's seed to torch.manual_seed exactly once on this path")
                others = [c[0] for c in p.interp.ext_calls if ("seed" in c[0] and c[0] not in ("torch.manual_seed", "torch.cuda.manual_seed", "torch.cuda.manual_seed_all"))]
                ck.check(not others, "C14.R2", inst + ":no other seeding", srs.site(), "unexpected seeding calls %s" % others)
    with ck.guard("C14.R2", "set_random_seed/cpu=False"):
        def th0(it):
            return it.call_function(VFunc(srs), [VNum("int", T.sym("seed"))], {"cpu": VConst(False)}, None)

        for p in paths_of(prog, th0):
            ck.check(not [c for c in p.interp.ext_calls if c[0] == "torch.manual_seed"], "C14.R2", "cpu=False does not seed the CPU generator", srs.site(),
                     "cpu=False still seeds the CPU generator")
    # ------------------------------------------------------------------ R3 read-only evaluation
    n_entries = 0
    for cls in api.STATES:
        for name, fn in api.state_entries(cls):
            n_entries += _readonly(ck, "%s.%s" % (cls, name), lambda it, fn=fn, cls=cls: fn(it, make_state(it, cls)))
        # observables and metrics evaluated on this state type
        for oname in ("SigmaX", "SigmaY", "SigmaZ", "NeighbourInteraction/open", "NeighbourInteraction/periodic", "SWAP/any-region"):
            def obs_apply(it, cls=cls, oname=oname):
                s = make_state(it, cls)
                o = api.observable_instances(it, prog)[oname]
                return call(it, o, "apply", s, tens(it, "samples", ("B", "nv")))

            n_entries += _readonly(ck, "%s/%s.apply" % (cls, oname), obs_apply)
        def obs_stats(it, cls=cls):
            s = make_state(it, cls)
            o = api.observable_instances(it, prog)["SigmaZ"]
            return call(it, o, "statistics", s, api.intsym("num_samples"), num_chains=api.intsym("num_chains"))

        n_entries += _readonly(ck, "%s/SigmaZ.statistics" % cls, obs_stats)
        wf = cls != "DensityMatrix"
        for mname, mfn in api.metric_entries():
            if cls == "PositiveWaveFunction" and mname.endswith("/bases") and mname.startswith("KL"):
                continue  # a positive wavefunction carries no unitary dictionary: KL with bases is not applicable
            n_entries += _readonly(ck, "%s/%s" % (cls, mname), lambda it, mfn=mfn, cls=cls, wf=wf: mfn(it, make_state(it, cls), wf))
        # rotations
        U = "qucumber.utils.unitaries"
        rots = [("rotate_psi", True), ("rotate_psi_inner_prod", True), ("rotate_rho", False), ("rotate_rho_probs", False)]
        for rname, for_wf in rots:
            if for_wf != wf:
                continue
            def rot(it, cls=cls, rname=rname):
                s = make_state(it, cls)
                f = VFunc(prog.func(U, rname))
                arg = tens(it, "space", ("N", "nv"))
                kw = {}
                if cls == "PositiveWaveFunction":
                    kw["unitaries"] = it.call_function(VFunc(prog.func(U, "create_dict")), [], {}, None)
                return it.call_function(f, [s, api.basis_str(it), arg], kw, None)

            n_entries += _readonly(ck, "%s/%s" % (cls, rname), rot)
    for cls in ("BinaryRBM", "PurificationRBM"):
        for name, fn in api.rbm_entries(cls):
            def th(it, cls=cls, fn=fn):
                m = make_rbm(it, cls, "rbm_am")
                del it.effects[:]
                return fn(it, m)

            n_entries += _readonly(ck, "%s.%s" % (cls, name), th)
    # the whitelisted writers must really be seen writing (keeps the effect detector honest)
    for cls in api.STATES:
        for name, fn in (
            ("reinitialize_parameters", lambda it, s: call(it, s, "reinitialize_parameters")),
            ("load", lambda it, s: call(it, s, "load", api.basis_str(it))),
        ):
            inst = "%s.%s writes parameters" % (cls, name)
            with ck.guard("C14.R3", inst):
                paths = paths_of(prog, lambda it, fn=fn, cls=cls: fn(it, make_state(it, cls)), sticky=True)
                ck.check(any(api.param_effects(p) for p in paths), "C14.R3", inst, prog.method(cls, name).site(),
                         "the effect analysis sees no parameter write in %s (detector or anchor broken)" % name)
    # ------------------------------------------------------------------ R7 a repeated evaluation starts afresh
    # "the same seeded sequence of operations gives the same results": the second of two identical statistics() calls draws
    # its chains the way the first did (fresh random start, burn-in first) - it does not continue from what the first left
    for kind, owner in (("observable", "ObservableBase"), ("system", "System")):
        inst = "%s.statistics called twice" % owner
        ssite = prog.method(owner, "statistics").site()
        with ck.guard("C14.R7", inst, ssite):
            def th7(it, kind=kind):
                s = make_state(it, "PositiveWaveFunction")
                obs = api.observable_instances(it, prog)
                recv = obs["SigmaZ"] if kind == "observable" else it.instantiate(prog.cls("System"), [obs["SigmaZ"], obs["SigmaX"]], {}, None)
                kw = {"burn_in": api.intsym("burn_in", pos=False), "steps": api.intsym("steps", pos=False), "num_chains": api.intsym("num_chains")}
                call(it, recv, "statistics", s, api.intsym("num_samples"), **kw)
                n0 = len(it.calls)
                call(it, recv, "statistics", s, api.intsym("num_samples"), **kw)
                return n0

            ps7 = [p for p in paths_of(prog, th7, max_paths=60, sticky=True) if p.outcome == "return"]
            ck.check(bool(ps7), "C14.R7", inst + ":returns", ssite, "two successive statistics() calls never return")
            for p in ps7[:8]:
                def smp(cs):
                    return [c for c in cs if c[0].endswith(".sample") and c[0].split(".")[0] in ("NeuralStateBase", "PositiveWaveFunction")]

                a_, b_ = smp(p.calls[:p.value]), smp(p.calls[p.value:])
                if not a_ or not b_:
                    ck.undecided("C14.R7", inst + " [%s]" % path_tag(p), ssite, "the draws of the two calls were not found")
                    continue
                def sig(c):
                    i0 = c[5].get("initial_state")
                    return (num_term(c[5].get("k")), isinstance(i0, VConst) and i0.value is None)

                ck.check(sig(a_[0]) == sig(b_[0]), "C14.R7", inst + ":the second call starts like the first [%s]" % path_tag(p), ssite,
                         "the first draw of the first call is sample(k=%r, fresh start=%s), that of an identical second call is sample(k=%r, fresh start=%s): the second call continues from state the first one left behind"
                         % (sig(a_[0]) + sig(b_[0])), key="C14.R7|%s|second call continues" % owner)
    # ------------------------------------------------------------------ R6 no state shared between model instances
    # An object created once in a class body is the same object for every instance.  If instances change it (method calls on
    # it, item stores, augmented assignment), what one model does (a stop request, a recorded value) is seen by every other
    # model in the process: the same seeded sequence of operations then gives different results on its second run.
    def is_descr(cname, nm):
        # by value: what the class attribute evaluates to is a descriptor (property(...) object, object with __get__)
        try:
            cl = prog.cls(cname)
        except Exception:
            return False
        ca = cl.class_attrs.get(nm)
        if ca is None or not isinstance(ca, ast.Call):
            return False
        try:
            ps = paths_of(prog, lambda it: it.descriptor_of(cl, nm, "__get__"), max_paths=4)
        except Exception:
            return False
        return bool(ps) and all(p.outcome == "return" and isinstance(p.value, VObj) for p in ps)

    for kind, cname, nm, site, msg in shared_class_state([(m.relpath, m.tree) for m in mods], is_descr):
        if kind == "violation":
            ck.violation("C14.R6", "%s.%s: shared by every instance and changed through instances" % (cname, nm), site, msg)
        else:
            ck.ok("C14.R6", "%s%s" % (cname, (".%s: per-class object never changed in place" % nm) if nm else ": no per-class mutable object"), site)
    pos = shared_class_state([("<example>", ast.parse(SHARED_EXAMPLE))])
    ck.check(any(k == "violation" for k, *_ in pos), "C14.R6", "positive example is recognised", "", "the built-in example of a shared, instance-mutated class attribute is not recognised")
    ck.require_min("C14.R6", 10)
    ck.require_min("C14.R1", 11)
    ck.require_min("C14.R2", 4)
    ck.require_min("C14.R3", 120)
    ck.extra["readonly_entries"] = n_entries
    ck.assumptions += [
        "torch's default CPU generator is the only consumer of torch.manual_seed; determinism of torch kernels is trusted",
        "user-supplied callables (metrics, callbacks, optimizers) touch library state only through the public API",
        "'a different seed gives different draws' is a statistical statement and is not decided",
    ]


def _readonly(ck, inst, thunk):
    with ck.guard("C14.R3", inst):
        paths = paths_of(ck.program, thunk, max_paths=100, sticky=True)
        ck.note_functions(functions_in_paths(paths))
        bad = []
        unk = []
        scratch = []
        for p in paths:
            for e in api.param_effects(p, include_grad=True):
                # a plain attribute the operation assigns without ever having looked at its earlier value is scratch data of this
                # call (derived from the current parameters, overwritten by the next call): not state a later result can depend on
                if e.kind == "setattr" and not getattr(e.obj, "is_parameter", False) and (id(e.obj), e.detail) not in p.interp.read_before_write \
                        and not isinstance(getattr(e.obj, "attrs", {}).get(e.detail), VTens):
                    scratch.append(e)
                    continue
                # "never change any model PARAMETER": an attribute of a network that holds no tensor (a tuple of kept inputs and
                # a result, a counter, None) is bookkeeping of the implementation - whether what is kept there is used correctly
                # is decided where the value is used (the two-call history rules of the property that owns the operation)
                if e.kind == "setattr" and not getattr(e.obj, "is_parameter", False) and hasattr(e.obj, "attrs") and e.detail in e.obj.attrs \
                        and not isinstance(e.obj.attrs.get(e.detail), (VTens, VObj)):
                    scratch.append(e)
                    continue
                bad.append(e)
            unk.extend(api.unknown_effects(p, ("attr:rbm",)))
        if bad:
            e = bad[0]
            ck.violation("C14.R3", inst, e.site, "a read-only operation changes model state: %s on %s (via %s)" % (e.detail, sorted(e.origins), " > ".join(e.stack[-3:])))
        elif unk:
            e, o = unk[0]
            ck.undecided("C14.R3", inst, e.site, "a parameter tensor is handed to an opaque call (%s)" % (e.detail[1],))
        elif not any(p.outcome == "return" for p in paths):
            p0 = paths[0]
            ck.undecided("C14.R3", inst, getattr(p0.value, "site", ""), "the entry context never returns (%s): nothing was analysed" % (p0.value,))
        else:
            ck.ok("C14.R3", inst, "", paths=len(paths), returning=sum(1 for p in paths if p.outcome == "return"))
        return 1
    return 0


def _encl(mod, node):
    best = []
    for n in ast.walk(mod.tree):
        if isinstance(n, (ast.FunctionDef, ast.ClassDef)) and n.lineno <= getattr(node, "lineno", 0) <= n.end_lineno:
            best.append(n.name)
    return ".".join(best) or "<module>"
