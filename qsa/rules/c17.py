"""C17 – periodic callbacks: period gate, record layout and accessors, CSV keys, saver naming."""
from .. import terms as T
from .common import *  # noqa: F401,F403
from . import api

PERIODIC = ("MetricEvaluator", "ObservableEvaluator", "ModelSaver", "Logger", "EarlyStopping")
EVENTS = ("on_train_start", "on_train_end", "on_epoch_start", "on_epoch_end", "on_batch_start", "on_batch_end")


def unk(tag, callable_=None):
    u = VUnknown(tag, "unknown")
    u.not_none = True
    if callable_ is not None:
        u.callable = callable_
    return u


def period():
    return api.intsym("period")


def epoch():
    return VNum("int", T.sym("epoch"), nonneg=True)


def stub_system_statistics(it, func, env, node):
    selfv = env[func.params[0]]
    obs = selfv.inst.attrs["observables"]
    out = {}
    for k in obs.obj.items:
        out[k] = it.new_dict({s: VNum("float", T.sym("%s.%s" % (k, s))) for s in ("mean", "variance", "std_error", "num_samples")})
    return it.new_dict(out)


def make_cb(it, prog, cls, log=False, **over):
    if cls == "MetricEvaluator":
        kw = {"period": period(), "metrics": it.new_dict({"m1": unk("fn1", True), "m2": unk("fn2", True)}), "verbose": VConst(False)}
        if log:
            kw["log"] = api.basis_str(it)
        kw.update(over)
        return it.instantiate(prog.cls(cls), [], kw, None)
    if cls == "ObservableEvaluator":
        obs = api.observable_instances(it, prog)
        kw = {"period": period(), "observables": it.new_list([obs["SigmaZ"], obs["SigmaX"]]), "verbose": VConst(False), "num_samples": VConst(100)}
        if log:
            kw["log"] = api.basis_str(it)
        kw.update(over)
        return it.instantiate(prog.cls(cls), [], kw, None)
    if cls == "ModelSaver":
        kw = {"period": period(), "folder_path": VConst("out"), "file_name": VConst("model_{}.pt"), "save_initial": VConst(True), "metadata": VConst(None), "metadata_only": VConst(False)}
        kw.update(over)
        return it.instantiate(prog.cls(cls), [], kw, None)
    if cls == "Logger":
        kw = {"period": period(), "logger_fn": unk("logger_fn", True), "msg_gen": unk("msg_gen", True)}
        kw.update(over)
        return it.instantiate(prog.cls(cls), [], kw, None)
    if cls == "EarlyStopping":
        ev = make_cb(it, prog, "MetricEvaluator")
        ev.inst.attrs["past_values"] = it.new_list(None)
        kw = {"period": period(), "tolerance": VNum("float", T.sym("tol")), "patience": api.intsym("p"), "evaluator_callback": ev, "quantity_name": VConst("m1")}
        kw.update(over)
        return it.instantiate(prog.cls(cls), [], kw, None)
    raise AnalysisError("unknown callback class " + cls)


def gate_decisions(p):
    """Outcomes of decisions whose condition is  epoch % period == 0."""
    wants = [T.app("cmp_Eq", T.app("mod", T.sym(e), T.sym("period")), T.ZERO) for e in ("epoch", "epoch2")]
    wants_neg = [T.app("cmp_NotEq", T.app("mod", T.sym(e), T.sym("period")), T.ZERO) for e in ("epoch", "epoch2")]
    out = []
    for c in p.conds:
        v = c[3] if len(c) > 3 else None
        t = getattr(v, "term", None)
        if t is not None and t in wants:
            out.append(c[2])
        elif t is not None and t in wants_neg:
            out.append(not c[2])
    return out


def visible_effects(p, since=0):
    return [e for e in p.effects[since:] if e.kind in ("setattr", "container", "ext", "ext-call", "write", "params", "grad", "rebind-param")]


STUBS = {"System.statistics": stub_system_statistics}


def run(ck):
    prog = ck.program
    base = prog.cls("CallbackBase")
    # ------------------------------------------------------------------ R1 period gate
    for cls in PERIODIC:
        c = prog.cls(cls)
        m = c.find_method("on_epoch_end")
        inst = cls + ".on_epoch_end"
        with ck.guard("C17.R1", inst, m.site()):
            def th(it):
                cb = make_cb(it, prog, cls, log=cls in ("MetricEvaluator", "ObservableEvaluator"))
                st = unk("nn_state")
                n0 = len(it.effects)
                call(it, cb, "on_epoch_end", st, epoch())
                return n0

            paths = paths_of(prog, th, max_paths=60, sticky=True, stubs=STUBS)
            acted = idle = 0
            for p in paths:
                if p.outcome != "return":
                    continue
                eff = visible_effects(p, p.value)
                g = gate_decisions(p)
                if eff:
                    acted += 1
                    ck.check(bool(g) and g[0] is True, "C17.R1", inst + ":acts only on multiples of the period [%s]" % _c(p), eff[0].site,
                             "the callback acts (%s) on a path where `epoch %% period == 0` was not established" % eff[0].detail if not isinstance(eff[0].detail, tuple) else
                             "the callback acts (%s) on a path where `epoch %% period == 0` was not established" % (eff[0].detail[1],))
                else:
                    idle += 1
                    if g and g[0] is True and cls != "EarlyStopping":
                        ck.violation("C17.R1", inst + ":acts on every multiple of the period", m.site(), "on a multiple of the period the callback does nothing")
            ck.check(acted >= 1 and idle >= 1, "C17.R1", inst + ":both outcomes seen", m.site(), "expected an acting and an idle path; saw %d / %d" % (acted, idle))
        for ev in EVENTS:
            if ev == "on_epoch_end":
                continue
            f = c.find_method(ev)
            if f is base.methods[ev]:
                ck.ok("C17.R1", "%s.%s inherited no-op" % (cls, ev), f.site())
                continue
            if cls == "ModelSaver" and ev == "on_train_start":
                for si in (True, False):
                    with ck.guard("C17.R1", "ModelSaver.on_train_start/save_initial=%s" % si, f.site()):
                        def th2(it, si=si):
                            cb = make_cb(it, prog, cls, save_initial=VConst(si))
                            st = unk("nn_state")
                            n0 = len(it.effects)
                            call(it, cb, ev, st)
                            return n0

                        for p in paths_of(prog, th2, sticky=True):
                            eff = visible_effects(p, p.value)
                            ck.check(bool(eff) == si, "C17.R1", "ModelSaver.on_train_start/save_initial=%s" % si, f.site(),
                                     "initial save %s although save_initial=%s" % ("happens" if eff else "is skipped", si))

                        # the same saver used for a second run (another fit, possibly of another model): its initial state is saved as well
                        def th3(it, si=si):
                            cb = make_cb(it, prog, cls, save_initial=VConst(si))
                            call(it, cb, ev, unk("nn_state"))
                            call(it, cb, "on_epoch_end", unk("nn_state"), VNum("int", T.sym("epoch"), pos=True))
                            call(it, cb, "on_train_end", unk("nn_state"))
                            n0 = len(it.effects)
                            call(it, cb, ev, unk("nn_state2"))
                            return n0

                        for p in paths_of(prog, th3, sticky=True):
                            eff = visible_effects(p, p.value)
                            ck.check(bool(eff) == si, "C17.R1", "ModelSaver.on_train_start/save_initial=%s/second run with the same saver" % si, f.site(),
                                     "in a second run the initial save %s although save_initial=%s: the file named 'initial' does not hold the parameters that run started from" % ("happens" if eff else "is skipped", si),
                                     key="C17.R1|ModelSaver|second run initial")
                continue
            ck.violation("C17.R1", "%s.%s overridden" % (cls, ev), f.site(), "%s acts on %s; periodic callbacks must act only at epoch ends" % (cls, ev))
    # ------------------------------------------------------------------ R2 record layout & accessors
    for cls in ("MetricEvaluator", "ObservableEvaluator"):
        c = prog.cls(cls)
        m = c.find_method("on_epoch_end")
        with ck.guard("C17.R2", cls, m.site()):
            def th(it):
                cb = make_cb(it, prog, cls, log=True)
                st = unk("nn_state")
                ep0 = VNum("int", T.sym("epoch2"), nonneg=True)
                call(it, cb, "on_epoch_end", st, ep0)
                ep = epoch()
                call(it, cb, "on_epoch_end", st, ep)
                pv = cb.inst.attrs.get("past_values")
                last = cb.inst.attrs.get("last")
                name = "m1" if cls == "MetricEvaluator" else "SigmaZ"
                acc = {
                    "len": it.ops.call_ext(it, "builtins.len", [cb], {}, None),
                    "get": call(it, cb, "get_value", VConst(name)),
                    "get-1": call(it, cb, "get_value", VConst(name), VConst(-1)),
                    "get0": call(it, cb, "get_value", VConst(name), VConst(0)),
                    "get-2": call(it, cb, "get_value", VConst(name), VConst(-2)),
                    "epochs": it.get_attr(cb, "epochs", None),
                    "names": it.get_attr(cb, "names", None),
                    "attr": it.get_attr(cb, name, None),
                    "item": it.ops.subscript(it, cb, VConst(name), None),
                }
                csvw = [c[4].inst for c in it.ext_calls if c[0] == "csv.DictWriter" and isinstance(c[4], VObj)]
                call(it, cb, "clear_history")
                _pv, _la = cb.inst.attrs.get("past_values"), cb.inst.attrs.get("last")
                cleared = (isinstance(_pv, VList) and _pv.obj.items == [], isinstance(_la, VDict) and _la.obj.items == {})
                # a second run after clear_history: the same number of evaluations, other values
                call(it, cb, "on_epoch_end", st, VNum("int", T.sym("epoch3"), nonneg=True))
                call(it, cb, "on_epoch_end", st, VNum("int", T.sym("epoch4"), nonneg=True))
                acc["run2"] = {"pv": cb.inst.attrs.get("past_values"), "attr": it.get_attr(cb, name, None), "item": it.ops.subscript(it, cb, VConst(name), None),
                               "get": call(it, cb, "get_value", VConst(name)), "len": it.ops.call_ext(it, "builtins.len", [cb], {}, None), "epochs": it.get_attr(cb, "epochs", None)}
                acc["cleared"] = cleared
                return cb, ep, pv, last, acc, name, csvw

            allp = paths_of(prog, th, max_paths=60, sticky=True, stubs=STUBS)
            paths = [p for p in allp if p.outcome == "return" and gate_decisions(p)[:1] == [True]]
            ck.check(len(paths) >= 1, "C17.R2", cls + ":evaluation path", m.site(), "no returning path evaluates on a multiple of the period")
            for p in allp:
                if p.outcome == "raise" and gate_decisions(p)[:1] == [True]:
                    ck.violation("C17.R2", cls + ":history readable after two evaluations [%s]" % _c(p), getattr(p.value, "site", m.site()),
                                 "after two evaluations (the second one possibly at the same epoch number) reading the history fails: %s" % (str(p.value)[:120],))
            for p in paths:
                it = p.interp
                cb, ep, pv, last, acc, name, csvw = p.value
                items = pv.obj.items if isinstance(pv, VList) else None
                ok = items is not None and len(items) == 2 and all(isinstance(x, VTuple) and len(x.items) == 2 for x in items) and items[1].items[0] is ep and items[0].items[0] is not ep
                ck.check(ok, "C17.R2", cls + ":one (epoch, values) record per evaluation", m.site(), "two evaluations do not append exactly one (epoch, values) tuple each, in order, to past_values")
                if not ok:
                    continue
                vals = items[1].items[1]
                vals0 = items[0].items[1]
                okl = isinstance(last, VDict) and isinstance(vals, VDict) and last.obj.items is not None and vals.obj.items is not None and \
                    list(last.obj.items.keys()) == list(vals.obj.items.keys()) and all(last.obj.items[k] is vals.obj.items[k] for k in vals.obj.items)
                ck.check(okl, "C17.R2", cls + ":last == recorded values", m.site(), "`last` does not hold the values recorded for this epoch")
                keys = list(vals.obj.items.keys())
                want_keys = ["m1", "m2"] if cls == "MetricEvaluator" else ["SigmaZ", "SigmaX"]
                ck.check(keys == want_keys, "C17.R2", cls + ":one value per tracked name", m.site(), "recorded names %s, expected %s" % (keys, want_keys))
                v = vals.obj.items[name]
                if cls == "MetricEvaluator":
                    # "agrees with the values computed at those epochs": what is recorded under a name is what that name's metric
                    # returned - the object itself or a conversion that keeps the value (float(), .item(), a float64 tensor); a
                    # detour through a float32 tensor rounds a python float (which is what the library's own metrics return)
                    for nm_, fn_ in (("m1", "fn1"), ("m2", "fn2")):
                        rv = vals.obj.items.get(nm_)
                        tag_ok = lambda u_: isinstance(u_, VUnknown) and getattr(u_, "callee", None) is not None and getattr(u_.callee, "tag", None) == fn_  # noqa: E731
                        rt = getattr(rv, "term", None) if not isinstance(rv, VUnknown) else None
                        at_ = rt.single_atom() if rt is not None and hasattr(rt, "single_atom") else None
                        while isinstance(at_, T.App) and at_.op in ("float", "npfloat64", "double") and len(at_.args) == 1 and rt == T.P(at_):
                            rt = at_.args[0] if hasattr(at_.args[0], "single_atom") else T.P(at_.args[0])  # float(x): the same value in double precision
                            at_ = rt.single_atom()
                        inst_ = cls + ":the recorded value of %s is what its metric returned" % nm_
                        if isinstance(at_, T.Sym) and rt == T.P(at_):
                            nm0 = at_.name
                            while nm0.startswith("float(") and nm0.endswith(")"):
                                nm0 = nm0[6:-1]  # float(x): the same value as a python float (double precision)
                            at_ = T.Sym(nm0) if nm0 != at_.name else at_
                            rt = T.P(at_)
                        if tag_ok(rv):
                            ck.ok("C17.R2", inst_, m.site())
                        elif isinstance(at_, T.Sym) and (at_.name.startswith("val:ret(%s)" % fn_) or at_.name.startswith("ret(%s)" % fn_)) and rt == T.P(at_):
                            src_t = getattr(rv, "from_tensor", None)
                            nar = [n_ for n_ in it.narrowings if src_t is not None and n_[2] in src_t.obj.roots()]
                            ck.check(not nar, "C17.R2", inst_, nar[0][0] if nar else m.site(),
                                     "the value recorded for '%s' went through a conversion that does not keep it: %s - past_values, last, get_value, the per-name arrays and the CSV log differ from the "
                                     "value the metric computed (relative error about 1e-8; early stopping compares these records)" % (nm_, nar[0][1] if nar else ""), key="C17.R2|MetricEvaluator|recorded value narrowed")
                        elif rt is not None and not any(fn_ in s_ for s_ in rt.syms()) and not isinstance(rv, VUnknown):
                            ck.violation("C17.R2", inst_, m.site(), "the value recorded for '%s' is %s: it does not depend on what the metric '%s' returned" % (nm_, str(rt)[:120], nm_))
                        else:
                            ck.undecided("C17.R2", inst_, m.site(), "the recorded value %r is not traced back to the metric's return value" % (rv,))
                ok_, ln = const_of(acc["len"])
                ck.check(ok_ and ln == 2, "C17.R2", cls + ":__len__", c.find_method("__len__").site(), "len() is %s after two evaluations" % (acc["len"],))
                v0 = vals0.obj.items[name] if isinstance(vals0, VDict) and vals0.obj.items else None
                for k, wv in (("get", v), ("get-1", v), ("get0", v0), ("get-2", v0)):
                    ck.check(acc[k] is wv, "C17.R2", cls + ":get_value/" + k, c.find_method("get_value").site(),
                             "get_value(%s) does not return the recorded value of the requested evaluation (default = most recent)" % k)
                nm = it.concrete_items(acc["names"])
                ck.check(nm is not None and [x.value for x in nm] == want_keys, "C17.R2", cls + ":names", m.site(), "names accessor disagrees with the recorded keys")
                et = acc["epochs"].term if isinstance(acc["epochs"], VTens) else None
                ck.check(et == T.stack0(T.sym("epoch2"), T.sym("epoch")), "C17.R2", cls + ":epochs", m.site(), "epochs accessor is not the list of recorded epochs in order: %r" % (et,))
                if cls == "MetricEvaluator":
                    for k in ("attr", "item"):
                        a = acc[k]
                        ck.check(shape_is(a, (2,)), "C17.R2", cls + ":__getattr__/__getitem__ " + k, m.site(), "per-name value array has shape %s after two evaluations" % (getattr(a, "shape", None),))
                else:
                    for k in ("attr", "item"):
                        a = acc[k]
                        okd = isinstance(a, VObj) and a.inst.cls is prog.cls("ObservableStatistics") and isinstance(a.inst.attrs.get("data"), VList) and \
                            a.inst.attrs["data"].obj.items is not None and len(a.inst.attrs["data"].obj.items) == 2 and a.inst.attrs["data"].obj.items[1] is v and a.inst.attrs["data"].obj.items[0] is v0
                        ck.check(okd, "C17.R2", cls + ":__getattr__/__getitem__ " + k, m.site(), "per-observable accessor does not wrap the recorded statistics")
                pv2, last2 = acc["cleared"]
                ck.check(pv2 is True and last2 is True, "C17.R2", cls + ":clear_history", c.find_method("clear_history").site(),
                         "clear_history does not reset both past_values and last")
                # second run: everything exposed afterwards agrees with the values of the second run
                r2 = acc["run2"]
                items2 = r2["pv"].obj.items if isinstance(r2["pv"], VList) else None
                ok2 = items2 is not None and len(items2) == 2 and all(isinstance(x, VTuple) and len(x.items) == 2 and isinstance(x.items[1], VDict) and x.items[1].obj.items for x in items2)
                ck.check(ok2, "C17.R2", cls + ":second run recorded", m.site(), "after clear_history two further evaluations do not leave exactly two records")
                if ok2:
                    w3, w4 = items2[0].items[1].obj.items.get(name), items2[1].items[1].obj.items.get(name)
                    ck.check(r2["get"] is w4, "C17.R2", cls + ":get_value after a second run", c.find_method("get_value").site(), "after clear_history and a second run get_value() does not return the latest value of the second run")
                    et2 = r2["epochs"].term if isinstance(r2["epochs"], VTens) else None
                    ck.check(et2 == T.stack0(T.sym("epoch3"), T.sym("epoch4")), "C17.R2", cls + ":epochs after a second run", m.site(), "epochs after the second run: %r" % (et2,))
                    for k in ("attr", "item"):
                        a2 = r2[k]
                        if cls == "MetricEvaluator":
                            want2 = T.stack0(*[(getattr(w, "term", None) if getattr(w, "term", None) is not None else T.sym("val:" + w.tag)) if isinstance(w, VUnknown) else num_term(w) for w in (w3, w4)]) \
                                if all(isinstance(w, VUnknown) or num_term(w) is not None for w in (w3, w4)) else None
                            got2 = a2.term if isinstance(a2, VTens) else None
                            ck.check(None if (want2 is None or got2 is None) else got2 == want2, "C17.R2", cls + ":%s after a second run" % k, m.site(),
                                     "after clear_history and a second run with as many evaluations, the per-name array is %r; the second run recorded %r (values of the first run are served)" % (got2, want2))
                        else:
                            dl = a2.inst.attrs.get("data") if isinstance(a2, VObj) else None
                            okd2 = isinstance(dl, VList) and dl.obj.items is not None and len(dl.obj.items) == 2 and dl.obj.items[0] is w3 and dl.obj.items[1] is w4
                            ck.check(okd2, "C17.R2", cls + ":%s after a second run" % k, m.site(), "after clear_history and a second run the per-observable accessor does not wrap the second run's statistics")
                # ---------------- R3 CSV header == row keys
                fields = cb.inst.attrs.get("csv_fields")
                fl = [x.value for x in it.concrete_items(fields)] if fields is not None and it.concrete_items(fields) is not None else None
                rows = []
                for w in csvw:
                    for nme, a, k in w.attrs.get("__calls__", []):
                        if nme == "writerow" and a and isinstance(a[0], VDict) and a[0].obj.items is not None and not a[0].obj.extra_unknown:
                            rows.append(list(a[0].obj.items.keys()))
                # the file has one header line, written before the first row - also when the history is cleared and a second run
                # follows (this scenario: two evaluations, clear_history(), two more)
                csv_all = [c_[4].inst for c_ in p.interp.ext_calls if c_[0] == "csv.DictWriter" and isinstance(c_[4], VObj)]
                seq_ = [nme for w in csv_all for nme, a, k in w.attrs.get("__calls__", []) if nme in ("writeheader", "writerow")]
                if seq_ and "writeheader" in seq_:
                    ck.check(seq_.count("writeheader") == 1 and seq_[0] == "writeheader", "C17.R3", cls + ":csv one header, first", m.site(),
                             "over two runs with clear_history() in between the log receives %s: the header must be written once, before the first row (a second header in the middle makes the file's "
                             "rows disagree with the evaluations)" % (seq_,), key="C17.R3|%s|csv header repeated" % cls)
                if fl is None or not rows:
                    ck.undecided("C17.R3", cls + ":csv", m.site(), "CSV header / row not found (fields=%s rows=%d)" % (fl, len(rows)))
                else:
                    row = rows[-1]
                    if cls == "MetricEvaluator":
                        ck.check(fl == row, "C17.R3", cls + ":csv header == row keys", m.site(), "CSV header %s differs from the keys of a written row %s" % (fl, row))
                        # the log "agrees with the values computed at those epochs": what is written under a metric's name is the recorded
                        # value itself, not something derived from it (a rounded / formatted copy)
                        rowd = None
                        for w in csvw:
                            for nme, a, k in w.attrs.get("__calls__", []):
                                if nme == "writerow" and a and isinstance(a[0], VDict) and a[0].obj.items is not None:
                                    rowd = a[0].obj.items
                        recorded = {}
                        for lst in (pv, acc.get("run2", {}).get("pv")):
                            for rec_ in (it.concrete_items(lst) or []) if lst is not None else []:
                                parts = it.concrete_items(rec_) if isinstance(rec_, (VTuple, VList)) else None
                                d_ = parts[1] if parts and len(parts) == 2 else None
                                if isinstance(d_, VDict) and d_.obj.items is not None:
                                    for k_, v_ in d_.obj.items.items():
                                        recorded.setdefault(k_, []).append(v_)
                        if rowd is not None and recorded:
                            for k_, v_ in rowd.items():
                                if k_ == "epoch" or k_ not in recorded:
                                    continue
                                same = any(v_ is x or (getattr(v_, "term", None) is not None and getattr(v_, "term", None) == getattr(x, "term", 0)) or
                                           (isinstance(v_, VUnknown) and isinstance(x, VUnknown) and v_.tag == x.tag) for x in recorded[k_])
                                ck.check(bool(same), "C17.R3", cls + ":csv row holds the recorded value of %s" % k_, m.site(),
                                         "the CSV row holds %r under %r, which is none of the values recorded for the evaluations (%s): the log does not agree with the computed values "
                                         "(a formatted / rounded copy loses small values entirely)" % (v_, k_, [repr(x) for x in recorded[k_]][:3]), key="C17.R3|MetricEvaluator|csv value")
                    else:
                        ck.check(set(fl) <= set(row) and fl[0] == "epoch", "C17.R3", cls + ":csv header within row keys", m.site(), "CSV header fields %s are not all produced by a row %s" % (fl, row))
                        want = ["epoch"] + ["%s_%s" % (o, s) for o in want_keys for s in ("mean", "variance", "std_error")]
                        ck.check(fl == want, "C17.R3", cls + ":csv header lists mean/variance/std_error per observable", m.site(), "CSV header is %s, expected %s" % (fl, want))
                        # "the CSV log agrees with the values computed at those epochs": the column <observable>_<statistic> holds that
                        # statistic of that observable (by value - however the row was assembled)
                        rowd = None
                        for w in csvw:
                            for nme, a, k in w.attrs.get("__calls__", []):
                                if nme == "writerow" and a and isinstance(a[0], VDict) and a[0].obj.items is not None and not a[0].obj.extra_unknown:
                                    rowd = a[0].obj.items
                        for k_, v_ in (rowd or {}).items():
                            hit = [(o, s_) for o in want_keys for s_ in ("mean", "variance", "std_error", "num_samples") if k_ == "%s_%s" % (o, s_)]
                            vt_ = num_term(v_)
                            if not hit or k_ not in fl:
                                continue
                            wt_ = T.sym("%s.%s" % hit[0])
                            ck.check((vt_ == wt_) if vt_ is not None else None, "C17.R3", cls + ":csv column %s holds that statistic" % k_, m.site(),
                                     "the CSV column '%s' is written with %s, not with the %s of %s: the columns of the second and later observables are shifted" % (k_, vt_, hit[0][1], hit[0][0]),
                                     key="C17.R3|ObservableEvaluator|csv column value")
    # keys produced by the real System.statistics (sibling of the stub above)
    with ck.guard("C17.R3", "System.statistics keys"):
        def ths(it):
            s = make_state(it, "PositiveWaveFunction")
            obs = api.observable_instances(it, prog)
            sy = it.instantiate(prog.cls("System"), [obs["SigmaZ"]], {}, None)
            return call(it, sy, "statistics", s, api.intsym("num_samples"), num_chains=VConst(0), burn_in=VConst(1))

        ps = [p for p in paths_of(prog, ths, max_paths=40, sticky=True) if p.outcome == "return"]
        ok = False
        if ps:
            r = ps[0].value
            if isinstance(r, VDict) and r.obj.items and isinstance(list(r.obj.items.values())[0], VDict):
                ok = set(list(r.obj.items.values())[0].obj.items.keys()) == {"mean", "variance", "std_error", "num_samples"}
        ck.check(ok if ps else None, "C17.R3", "System.statistics keys", prog.method("System", "statistics").site(),
                 "System.statistics does not return mean / variance / std_error / num_samples per observable (the CSV columns rely on these keys)")
    # ------------------------------------------------------------------ R4 ModelSaver
    ms = prog.cls("ModelSaver")
    ssite = ms.find_method("_save").site()
    metas = {
        "None": lambda it: VConst(None),
        "dict": lambda it: it.new_dict({"note": VConst("x")}, origin="param:metadata"),
        "callable": lambda it: unk("meta_fn", True),
    }
    for mname, mb in metas.items():
        for only in (False, True):
            inst = "ModelSaver/metadata=%s/metadata_only=%s" % (mname, only)
            with ck.guard("C17.R4", inst, ssite):
                def th(it):
                    md = mb(it)
                    cb = make_cb(it, prog, "ModelSaver", metadata=md, metadata_only=VConst(only))
                    st = make_state(it, "ComplexWaveFunction")
                    ep = epoch()
                    n0 = len(it.ext_calls)
                    call(it, cb, "on_epoch_end", st, ep)
                    return cb, st, ep, md, n0

                paths = [p for p in paths_of(prog, th, max_paths=40, sticky=True) if p.outcome == "return" and gate_decisions(p)[:1] == [True]]
                ck.check(len(paths) >= 1, "C17.R4", inst + ":saving path", ssite, "no returning path saves on a multiple of the period")
                for p in paths:
                    it = p.interp
                    cb, st, ep, md, n0 = p.value
                    saves = [c for c in it.ext_calls[n0:] if c[0] == "torch.save"]
                    scalls = [c for c in p.calls if c[0] == "NeuralStateBase.save"]
                    fm = [c for c in p.calls if False]
                    # file name formatted with the epoch
                    fmt = [u for u in it.opaque_log] if hasattr(it, "opaque_log") else []
                    if only:
                        ck.check(len(saves) == 1 and not scalls, "C17.R4", inst + ":only the metadata is written", ssite, "metadata_only=True does not write exactly the metadata")
                        payload = saves[0][1][0] if saves else None
                    else:
                        if not scalls and saves:
                            # the file is written some other way than through nn_state.save (the property does not name the routine):
                            # what reaches the file is not followed here
                            ck.undecided("C17.R4", inst + ":nn_state.save called once", ssite, "the model file is written by torch.save without a call of nn_state.save: what is written is not followed")
                            continue
                        ck.check(len(scalls) == 1, "C17.R4", inst + ":nn_state.save called once", ssite, "nn_state.save is called %d times" % len(scalls))
                        payload = scalls[0][5].get("metadata") if scalls else None
                    if mname == "dict":
                        ck.check(isinstance(payload, VDict) and payload.obj is md.obj, "C17.R4", inst + ":dict passed as is", ssite, "the metadata dict handed to the saver is not what is saved")
                    elif mname == "None":
                        ck.check(isinstance(payload, VDict) and payload.obj.items == {} or (isinstance(payload, VDict) and not payload.obj.items), "C17.R4", inst + ":None -> {}", ssite, "absent metadata is not saved as an empty dict")
                    else:
                        mc = [u for u in fmt if u[0] == "meta_fn"]
                        ck.check(len(mc) == 1 and len(mc[0][1]) == 2 and mc[0][1][0] is st and mc[0][1][1] is ep, "C17.R4", inst + ":callable gets (nn_state, epoch)", ssite,
                                 "the metadata callable is not called once with (nn_state, epoch)")
                        ck.check(isinstance(payload, VUnknown) and payload.tag.startswith("ret(meta_fn)"), "C17.R4", inst + ":callable result saved", ssite, "the result of the metadata callable is not what is saved")
                    # the file name: file_name.format(epoch)
                    fcalls = _format_calls(it)
                    ck.check(any(a and a[0] is ep for a in fcalls), "C17.R4", inst + ":file named by the epoch", ms.find_method("on_epoch_end").site(), "the file name is not formatted with the epoch number")
    with ck.guard("C17.R4", "ModelSaver/initial"):
        def thi(it):
            cb = make_cb(it, prog, "ModelSaver", metadata=unk("meta_fn", True))
            st = make_state(it, "ComplexWaveFunction")
            call(it, cb, "on_train_start", st)
            return st

        for p in paths_of(prog, thi, sticky=True):
            it = p.interp
            fc = _format_calls(it)
            ck.check(any(a and isinstance(a[0], VConst) and a[0].value == "initial" for a in fc), "C17.R4", "ModelSaver/initial:file named 'initial'", ms.find_method("on_train_start").site(),
                     "the initial save is not named with the word 'initial'")
            # the metadata callable is documented as f(nn_state, epoch): for the initial save the epoch is a number too (0: before the first
            # epoch), not the file label
            mc = [u for u in getattr(it, "opaque_log", []) if u[0] == "meta_fn"]
            if mc and p.outcome == "return":
                a1 = mc[0][1][1] if len(mc[0][1]) == 2 else None
                isnum = (isinstance(a1, VConst) and isinstance(a1.value, int) and not isinstance(a1.value, bool)) or (isinstance(a1, VNum) and a1.kind == "int")
                ck.check(len(mc) == 1 and getattr(mc[0][1][0], "inst", 0) is getattr(p.value, "inst", 1) and isnum, "C17.R4", "ModelSaver/initial:callable gets (nn_state, <epoch number>)", ms.find_method("on_train_start").site(),
                         "for the initial save the metadata callable is called with %r as its epoch argument (a number is what callables written for f(nn_state, epoch) expect)" % (a1,),
                         key="C17.R4|ModelSaver|initial metadata epoch")
    ck.require_min("C17.R1", 30)
    ck.require_min("C17.R2", 24)
    ck.require_min("C17.R3", 4)
    ck.require_min("C17.R4", 18)
    ck.assumptions += [
        "metric functions, msg_gen and logger_fn are opaque user callables; file contents are not decided",
        "csv.DictWriter writes exactly the given row under the given field names",
    ]


def _c(p):
    return ",".join("%s=%s" % (c[1][:24], c[2]) for c in p.conds[-3:])


def _format_calls(it):
    """Arguments of str.format calls on the saver's file_name template."""
    out = []
    for c in getattr(it, "str_calls", []):
        if c[0] == "format":
            out.append(c[1])
    return out
