"""C12 – event protocol of fit and stop requests (typestate over the CFG)."""
import ast

from .. import terms as T
from ..cfg import CFG, calls_in
from .. import protocol as P
from .common import *  # noqa: F401,F403
from . import api

STATES = ("PositiveWaveFunction", "ComplexWaveFunction", "DensityMatrix")


def fit_effect_lines(ck, cls, fit_func):
    """Lines of NeuralStateBase.fit whose execution changes a model parameter (from the effect
    facet of the abstract interpreter, all paths)."""
    def th(it):
        s = make_state(it, cls)
        data = tens(it, "data", ("N", "nv"))
        kw = {}
        if cls != "PositiveWaveFunction":
            kw["input_bases"] = tens(it, "input_bases", ("N", "nv"), kind="ndarray")
        return call(it, s, "fit", data, scheduler=VExt("torch.optim.lr_scheduler.StepLR"), **kw)

    from ..ctx import stub_grad_lists

    paths = paths_of(ck.program, th, max_paths=200, sticky=True, stubs={"NeuralStateBase.compute_batch_gradients": stub_grad_lists})
    ck.note_functions(functions_in_paths(paths))
    lines = {}
    for p in paths:
        for e in p.effects:
            is_param = e.kind in ("params", "rebind-param") or (e.kind == "write" and any(o.startswith("attr:rbm_") for o in e.origins))
            if not is_param:
                continue
            for q, ln in e.lines:
                # every frame of the effect: the statement of fit, and the statements of the private stages fit is split into
                # (the CFG splices those in; the innermost spliced statement carries the effect)
                lines.setdefault((q, ln), set()).add(e.detail)
    return lines, len(paths)


def run(ck):
    prog = ck.program
    fit = prog.method("NeuralStateBase", "fit")
    site = fit.site()
    from ..model import private_helper_resolver

    cfg = CFG(fit.node, resolver=private_helper_resolver(prog), owner=fit.qualname)
    ck.extra["cfg_nodes"] = len(cfg.nodes)
    ck.extra["spliced_helpers"] = sorted({n.owner for n in cfg.nodes if n.inst})
    ck.extra["cfg_edges"] = sum(len(n.succ) for n in cfg.nodes)
    # ------------------------------------------------------------------ effects per class
    eff_lines = {}
    for cls in STATES:
        with ck.guard("C12.R2", "effects/" + cls, site):
            lines, npaths = fit_effect_lines(ck, cls, fit)
            ck.check(bool(lines), "C12.R2", "effects/%s:found" % cls, site, "no parameter-changing statement found in fit (vanished anchor: optimizer.step)")
            for ln, what in lines.items():
                eff_lines.setdefault(ln, set()).update(what)
    if not eff_lines:
        ck.undecided("C12.R2", "effects", site, "could not determine the parameter effects of fit")
        return
    ck.extra["effect_lines"] = {"%s:%s" % k if isinstance(k, tuple) else str(k): sorted(v) for k, v in eff_lines.items() if not isinstance(k, tuple) or k[0] in {n.owner for n in cfg.nodes}}
    # event calls must go through the local CallbackList
    ev_calls = [c for n in cfg.nodes for c in calls_in(n) if isinstance(c.func, ast.Attribute) and c.func.attr in P.EVENTS]
    ck.check(len(ev_calls) >= 6 and {c.func.attr for c in ev_calls} == set(P.EVENTS), "C12.R1", "six events dispatched", site,
             "fit dispatches %s; expected all six events" % sorted({c.func.attr for c in ev_calls}))
    # ------------------------------------------------------------------ R1/R2 automaton comparison
    states = trans = 0
    for flag0 in (0, 1):
        impl, problems = P.impl_automaton(cfg, flag0, set(eff_lines))
        for ln, msg in problems:
            ck.undecided("C12.R1", "flag-test", "%s:%s:%d" % (fit.module.relpath, fit.qualname, ln), msg)
        spec = P.spec_automaton(flag0)
        s, t = impl.size()
        states += s
        trans += t
        inst = "flag-at-entry=%d" % flag0
        ok, tr = P.included(impl, spec)
        ck.check(ok, "C12.R2", inst + ":impl within protocol (with effects)", site,
                 "fit can produce the event/effect sequence [%s], which the documented protocol does not allow" % ", ".join(tr or ()), trace=list(tr or ()))
        ok2, tr2 = P.included(spec.erase("eff"), impl.erase("eff"))
        ck.check(ok2, "C12.R1", inst + ":protocol within impl (events)", site,
                 "the documented event sequence [%s] cannot be produced by fit" % ", ".join(tr2 or ()), trace=list(tr2 or ()))
        ok3, tr3 = P.included(impl.erase("eff"), spec.erase("eff"))
        ck.check(ok3, "C12.R1", inst + ":impl within protocol (events)", site,
                 "fit can emit the event sequence [%s], which the documented protocol does not allow" % ", ".join(tr3 or ()), trace=list(tr3 or ()))
    ck.extra["states"] = states
    ck.extra["transitions"] = trans
    # ------------------------------------------------------------------ R3 loop ranges and event arguments
    with ck.guard("C12.R3", "loops", site):
        loops = [n for n in cfg.nodes if n.kind == "for"]
        ev_nodes = {}
        for n in cfg.nodes:
            for c in calls_in(n):
                if isinstance(c.func, ast.Attribute) and c.func.attr in P.EVENTS:
                    ev_nodes.setdefault(c.func.attr, []).append((n, c))
        ep_loop = b_loop = None
        for nme in ("on_epoch_start",):
            for n, c in ev_nodes.get(nme, []):
                encl = cfg.enclosing_loops(n.id)
                if encl:
                    ep_loop = encl[-1]
        for n, c in ev_nodes.get("on_batch_start", []):
            encl = cfg.enclosing_loops(n.id)
            if len(encl) >= 2:
                b_loop = encl[-1]
        if ep_loop is None or b_loop is None:
            ck.undecided("C12.R3", "loops", site, "epoch / batch loops not found around the events")
        else:
            # Decided on values, not spellings: fit is interpreted with symbolic (starting_epoch, epochs) = (S0, E); the epoch
            # loop must run over range(S0, E + 1) and every event must receive (state, its epoch[, its batch index from 0]).
            for cls in STATES:
                def thv(it, cls=cls):
                    st_ = make_state(it, cls)
                    data = tens(it, "data", ("N", "nv"))
                    kw = {}
                    if cls != "PositiveWaveFunction":
                        kw["input_bases"] = tens(it, "input_bases", ("N", "nv"), kind="ndarray")
                    call(it, st_, "fit", data, epochs=api.intsym("E"), starting_epoch=api.intsym("S0"), **kw)
                    return st_

                from ..ctx import stub_grad_lists

                vpaths = [q for q in paths_of(prog, thv, max_paths=100, sticky=True, stubs={"NeuralStateBase.compute_batch_gradients": stub_grad_lists}) if q.outcome == "return"]
                ck.check(bool(vpaths), "C12.R3", "fit/%s returns" % cls, site, "fit never returns")
                for q in vpaths:
                    it = q.interp
                    lsite = "%s:%s:%d" % (fit.module.relpath, fit.qualname, ep_loop.lineno)
                    # every epoch's batch loop runs over this epoch's batches: an iterator object (zip, generator) that an earlier
                    # epoch already walked through is empty - the epoch then has no batch events and trains nothing
                    ex_ = [e for e in it.exhausted if any(fn_.endswith(".fit") for fn_ in e[2])]
                    ck.check(not ex_, "C12.R3", "each epoch's batch loop runs over a fresh iterator/%s [%s]" % (cls, path_tag(q)), ex_[0][0] if ex_ else lsite,
                             "a loop inside fit runs over a %s object that an earlier iteration of the epoch loop already consumed: from the second epoch on there are no batches (no batch events, no training)"
                             % (ex_[0][1] if ex_ else ""), key="C12.R3|fit|exhausted iterator")
                    li = [l for l in it.loops if l.get("node") is ep_loop.ast]
                    if len(li) != 1:
                        ck.undecided("C12.R3", "epoch range/%s" % cls, lsite, "the epoch loop was entered %d times on this path" % len(li))
                        continue
                    rg = li[0]["iter"]
                    S0, E = T.sym("S0"), T.sym("E")
                    if not isinstance(rg, VRange):
                        ck.undecided("C12.R3", "epoch range/%s" % cls, lsite, "the epoch loop does not iterate over a range (or a wrapper that passes it through)")
                        continue
                    a_, b_, c_ = num_term(rg.start), num_term(rg.stop), num_term(rg.step)
                    if a_ is None or b_ is None or c_ is None:
                        ck.undecided("C12.R3", "epoch range/%s" % cls, lsite, "epoch range bounds are not arithmetic in (starting_epoch, epochs)")
                    else:
                        ck.check(a_ == S0 and b_ == E + 1 and c_ == T.ONE, "C12.R3", "epoch range/%s [%s]" % (cls, path_tag(q)), lsite,
                                 "epoch loop iterates over range(%r, %r, %r); expected range(starting_epoch, epochs + 1)" % (a_, b_, c_))
                    evs = [(n_, r_) for _k, n_, r_ in it.timeline if n_.startswith("CallbackList.on_") and n_.split(".")[1] in P.EVENTS]
                    cur_ep = cur_b = None
                    nb = 0
                    for n_, r_ in evs:
                        ev = n_.split(".")[1]
                        vals = list(r_[1])[1:] if len(r_) > 1 else []  # drop the CallbackList receiver
                        tv = [num_term(x) if not isinstance(x, VObj) else None for x in vals]
                        esite = r_[3]
                        okself = bool(vals) and isinstance(vals[0], VObj) and vals[0].inst is q.value.inst
                        ck.check(okself, "C12.R3", "%s receives the state/%s" % (ev, cls), esite, "%s is not given the training state as first argument" % ev)
                        if ev in ("on_train_start", "on_train_end"):
                            ck.check(len(vals) == 1, "C12.R3", "%s arguments/%s" % (ev, cls), esite, "%s is called with %d arguments; expected (state)" % (ev, len(vals)))
                            continue
                        ep_t = tv[1] if len(tv) > 1 else None
                        if ev == "on_epoch_start":
                            first_epoch = cur_ep is None
                            want_ep = S0 if first_epoch else None
                            isloop = ep_t is not None and ep_t.single_atom() is not None and isinstance(ep_t.single_atom(), T.Sym) and ep_t.single_atom().name.startswith("i@")
                            ck.check(ep_t is not None and (ep_t == S0 if first_epoch else isloop), "C12.R3", "on_epoch_start epoch number/%s" % cls, esite,
                                     "on_epoch_start receives epoch %r; expected %s" % (ep_t, "starting_epoch in the first epoch" if first_epoch else "the loop's epoch number"))
                            cur_ep = ep_t
                            nb = 0
                            ck.check(len(vals) == 2, "C12.R3", "on_epoch_start arguments/%s" % cls, esite, "on_epoch_start is called with %d arguments; expected (state, epoch)" % len(vals))
                            continue
                        ck.check(ep_t is not None and ep_t == cur_ep, "C12.R3", "%s epoch number/%s" % (ev, cls), esite, "%s receives epoch %r inside epoch %r" % (ev, ep_t, cur_ep))
                        if ev == "on_epoch_end":
                            ck.check(len(vals) == 2, "C12.R3", "on_epoch_end arguments/%s" % cls, esite, "on_epoch_end is called with %d arguments; expected (state, epoch)" % len(vals))
                            continue
                        b_t = tv[2] if len(tv) > 2 else None
                        ck.check(len(vals) == 3, "C12.R3", "%s arguments/%s" % (ev, cls), esite, "%s is called with %d arguments; expected (state, epoch, batch)" % (ev, len(vals)))
                        if ev == "on_batch_start":
                            nb += 1
                            cur_b = b_t
                            if nb == 1:
                                # the statement fixes order and multiplicity, not the numbering base: another base is left undecided
                                ck.check(True if (b_t is not None and b_t == T.ZERO) else None, "C12.R3", "first batch of an epoch is batch 0/%s" % cls, esite, "the first batch of an epoch is announced as batch %r" % (b_t,))
                            else:
                                at = b_t.single_atom() if b_t is not None else None
                                ck.check(True if (at is not None and isinstance(at, T.Sym) and (at.name.startswith("enum_i@") or at.name.startswith("i@"))) else None, "C12.R3", "later batches numbered consecutively from 0/%s" % cls, esite,
                                         "a later batch is announced as batch %r; expected its position in the epoch (counted from 0)" % (b_t,))
                        else:
                            ck.check(b_t is not None and b_t == cur_b, "C12.R3", "on_batch_end batch number/%s" % cls, esite, "on_batch_end receives batch %r after on_batch_start announced %r" % (b_t, cur_b))
    # ------------------------------------------------------------------ R4 dispatchers and arities
    cbl = prog.cls("CallbackList")
    base = prog.cls("CallbackBase")
    for ev in P.EVENTS:
        inst = "CallbackList." + ev
        with ck.guard("C12.R4", inst):
            m = cbl.methods.get(ev)
            if m is None:
                ck.violation("C12.R4", inst, cbl.module.relpath + ":CallbackList", "CallbackList does not override %s: the event is dropped" % ev)
                continue
            nargs = len(base.methods[ev].params) - 1

            def th(it, ev=ev, nargs=nargs):
                cbs = [VUnknown("cb%d" % i, "unknown") for i in range(3)]
                lst = it.instantiate(cbl, [it.new_list(cbs)], {}, None)
                args = [VUnknown("arg%d" % i, "unknown") for i in range(nargs)]
                del it.effects[:]
                call(it, lst, ev, *args)
                return args

            for p in returning(paths_of(prog, th), inst):
                args = p.value
                seq = []
                for e in p.effects:
                    if e.kind == "ext-call" and isinstance(e.detail, tuple):
                        seq.append(e.detail[1])
                want = ["cb%d.%s" % (i, ev) for i in range(3)]
                # a list that leaves out callbacks it found to merely inherit the empty hook of the base class skips nothing that
                # could be observed: on a path that decided such an identity test of a callback's hook, the callbacks notified must
                # still come in list order, each at most once (which ones were taken for inheriting is the path's assumption)
                hook_tests = [c for c in p.conds if len(c) > 3 and isinstance(c[3], VUnknown) and c[3].tag == "is" and getattr(c[3], "operands", None) is not None
                              and any(isinstance(o_, VFunc) and getattr(o_.func, "cls", None) is base for o_ in c[3].operands)]
                if hook_tests and seq != want:
                    it_ = iter(want)
                    in_order = all(any(x == y for y in it_) for x in seq)
                    ck.check(True if in_order else False, "C12.R4", inst + ":order (callbacks that inherit the empty hook left out)", m.site(), "dispatch calls %s are not in list order" % (seq,))
                    recs = [u for u in _opaque_calls(p)]
                    ck.check(all(a[len(a) - len(args):] == args for tag, a in recs), "C12.R4", inst + ":arguments", m.site(), "arguments are not forwarded unchanged to every callback")
                    continue
                ck.check(seq == want, "C12.R4", inst + ":order", m.site(), "dispatch calls %s; expected %s" % (seq, want))
                # argument forwarding from the call records
                fw = [c for c in p.interp.effects if c.kind == "ext-call"]
                okargs = True
                for e in p.effects:
                    pass
                recs = [u for u in _opaque_calls(p)]
                for tag, a in recs:
                    if a[len(a) - len(args):] != args:
                        okargs = False
                ck.check(okargs and len(recs) == 3, "C12.R4", inst + ":arguments", m.site(), "arguments are not forwarded unchanged to every callback")
    lam = prog.cls("LambdaCallback")
    with ck.guard("C12.R4", "LambdaCallback"):
        def th2(it):
            fns = {ev: VUnknown("fn_" + ev, "unknown") for ev in P.EVENTS}
            for f in fns.values():
                f.callable = True
                f.not_none = True
            obj = it.instantiate(lam, [], dict(fns), None)
            return fns, obj

        paths = paths_of(prog, th2, max_paths=200)
        rets = [p for p in paths if p.outcome == "return"]
        ck.check(len(rets) >= 1, "C12.R4", "LambdaCallback:constructible", lam.module.relpath + ":LambdaCallback", "no path constructs a LambdaCallback from six callables")
    # by behaviour: every event of a LambdaCallback calls the function given for it (and nothing else) with the event's arguments -
    # also when another LambdaCallback, with other functions or with none for that event, has been built in between
    NARGS = {"on_train_start": 1, "on_train_end": 1, "on_epoch_start": 2, "on_epoch_end": 2, "on_batch_start": 3, "on_batch_end": 3}
    with ck.guard("C12.R4", "LambdaCallback/dispatch"):
        def th3(it):
            def mkfns(pfx, evs):
                out = {}
                for ev in evs:
                    f = VUnknown("%s_%s" % (pfx, ev), "unknown")
                    f.callable = True
                    f.not_none = True
                    out[ev] = f
                return out

            f1 = mkfns("f", P.EVENTS)
            cb1 = it.instantiate(lam, [], dict(f1), None)
            g2 = mkfns("g", ["on_epoch_end"])
            cb2 = it.instantiate(lam, [], dict(g2), None)
            st = VUnknown("nn_state", "unknown")
            rec = {}
            for who, cb in (("first", cb1), ("second", cb2)):
                for ev in P.EVENTS:
                    a = [st, VNum("int", T.sym("epoch"), pos=True), VNum("int", T.sym("batch"), nonneg=True)][:NARGS[ev]]
                    n0 = len(getattr(it, "opaque_log", []))
                    call(it, cb, ev, *a)
                    rec[(who, ev)] = ([u for u in getattr(it, "opaque_log", [])[n0:]], a)
            return rec

        for p in [q for q in paths_of(prog, th3, max_paths=60, sticky=True) if q.outcome == "return"]:
            for (who, ev), (calls_, a) in p.value.items():
                user = [(str(u[0]), u[1]) for u in calls_ if str(u[0]).startswith(("f_", "g_"))]
                want = [("f_" + ev, a)] if who == "first" else ([("g_" + ev, a)] if ev == "on_epoch_end" else [])
                okc = [t_ for t_, _ in user] == [t_ for t_, _ in want] and all(len(x[1]) == len(y[1]) and all(p_ is q_ for p_, q_ in zip(x[1], y[1])) for x, y in zip(user, want))
                ck.check(okc, "C12.R4", "LambdaCallback.%s of the %s callback calls its own function" % (ev, who), lam.module.relpath + ":LambdaCallback.__init__",
                         "%s of the %s of two LambdaCallbacks calls %s; expected %s (the functions of one callback must not be visible to another)" % (ev, who, [t_ for t_, _ in user], [t_ for t_, _ in want]),
                         key="C12.R4|LambdaCallback|%s %s" % (who, ev))
    # ... and through a CallbackList: a callback whose hooks are installed per instance (LambdaCallback) receives every event the
    # list emits, the per-batch ones included, with the event's arguments
    with ck.guard("C12.R4", "CallbackList/LambdaCallback"):
        def th4(it):
            fns = {}
            for ev in P.EVENTS:
                f = VUnknown("h_%s" % ev, "unknown")
                f.callable = True
                f.not_none = True
                fns[ev] = f
            cb = it.instantiate(lam, [], dict(fns), None)
            lst = it.instantiate(cbl, [it.new_list([cb])], {}, None)
            st = VUnknown("nn_state", "unknown")
            rec = {}
            for ev in P.EVENTS:
                a = [st, VNum("int", T.sym("epoch"), pos=True), VNum("int", T.sym("batch"), nonneg=True)][:NARGS[ev]]
                n0 = len(getattr(it, "opaque_log", []))
                call(it, lst, ev, *a)
                rec[ev] = ([u for u in getattr(it, "opaque_log", [])[n0:]], a)
            return rec

        for p in [q for q in paths_of(prog, th4, max_paths=60, sticky=True) if q.outcome == "return"]:
            # (a path that took the caller's function for the base class's own empty hook assumes something that cannot be: the
            # function is the caller's object)
            if any(len(c) > 3 and isinstance(c[3], VUnknown) and c[3].tag == "is" and getattr(c[3], "operands", None) is not None
                   and any(isinstance(o_, VFunc) and getattr(o_.func, "cls", None) is base for o_ in c[3].operands)
                   and c[2] is (not getattr(c[3], "negated", False)) for c in p.conds):
                continue
            for ev, (calls_, a) in p.value.items():
                user = [str(u[0]) for u in calls_ if str(u[0]).startswith("h_")]
                ck.check(user == ["h_" + ev], "C12.R4", "CallbackList.%s reaches the function of a LambdaCallback in the list" % ev, cbl.module.relpath + ":CallbackList",
                         "a CallbackList holding one LambdaCallback calls %s for %s; expected its function for that event exactly once (hooks installed per instance are hooks too)" % (user, ev),
                         key="C12.R4|CallbackList|lambda %s" % ev)
    # ... and a callback put into the list after its construction (insert; append / extend / += go through it) is in the list
    with ck.guard("C12.R4", "CallbackList/inserted later"):
        def th5(it):
            fns = {}
            for ev in P.EVENTS:
                f = VUnknown("k_%s" % ev, "unknown")
                f.callable = True
                f.not_none = True
                fns[ev] = f
            cb = it.instantiate(lam, [], dict(fns), None)
            lst = it.instantiate(cbl, [it.new_list([])], {}, None)
            call(it, lst, "insert", VConst(0), cb)
            st = VUnknown("nn_state", "unknown")
            rec = {}
            for ev in ("on_train_start", "on_epoch_end"):
                a = [st, VNum("int", T.sym("epoch"), pos=True), VNum("int", T.sym("batch"), nonneg=True)][:NARGS[ev]]
                n0 = len(getattr(it, "opaque_log", []))
                call(it, lst, ev, *a)
                rec[ev] = [u for u in getattr(it, "opaque_log", [])[n0:]]
            return rec

        for p in [q for q in paths_of(prog, th5, max_paths=40, sticky=True) if q.outcome == "return"]:
            for ev, calls_ in p.value.items():
                user = [str(u[0]) for u in calls_ if str(u[0]).startswith("k_")]
                ck.check(user == ["k_" + ev], "C12.R4", "CallbackList.insert: the callback receives %s" % ev, cbl.module.relpath + ":CallbackList.insert",
                         "a callback inserted into an existing CallbackList is called %s for %s; expected once (insert does not reach the list the events are dispatched from: append, extend, += and "
                         "fit(time=True)'s Timer are lost with it)" % (user, ev), key="C12.R4|CallbackList|insert %s" % ev)
    with ck.guard("C12.R4", "LambdaCallback/validation"):
        paths = paths_of(prog, th2, max_paths=200)
        rets = [p for p in paths if p.outcome == "return"]
        for p in rets:
            fns, obj = p.value
            vcalls = [c for c in p.calls if c[0].endswith("_validate_function")]
            seen = {}
            for c in vcalls:
                env = c[5]
                okn, nm = const_of(argp(env, -1))  # _validate_function(fn, num_params, name) by position
                okp, np_ = const_of(argp(env, -2))
                if okn and okp:
                    seen[nm] = np_
            for ev in P.EVENTS:
                want = len(base.methods[ev].params) - 1
                ck.check(seen.get(ev) == want if ev in seen else None, "C12.R4", "LambdaCallback.%s arity" % ev, lam.module.relpath + ":LambdaCallback.__init__",
                         "arity demanded for %s is %s; CallbackBase.%s takes %d arguments" % (ev, seen.get(ev), ev, want))
    with ck.guard("C12.R4", "LambdaCallback/non-callable"):
        def th3(it):
            return it.instantiate(lam, [], {"on_epoch_end": VConst(3)}, None)

        paths = paths_of(prog, th3)
        ck.check(all(p.outcome == "raise" and p.value.exc_name == "TypeError" for p in paths), "C12.R4", "LambdaCallback:rejects non-callable",
                 lam.module.relpath + ":LambdaCallback._validate_function", "a non-callable, non-None argument is accepted")
    # ------------------------------------------------------------------ R5 stickiness
    flag_names = ("stop_training", "_stop_training")
    nb = prog.cls("NeuralStateBase")
    writes = 0
    for mod in prog.modules.values():
        for node in ast.walk(mod.tree):
            tgts = []
            if isinstance(node, ast.Assign):
                tgts = [(t, node.value) for t in node.targets]
            elif isinstance(node, ast.AugAssign):
                tgts = [(node.target, None)]
            for t, val in tgts:
                if isinstance(t, ast.Attribute) and t.attr in flag_names:
                    writes += 1
                    where = "%s:%d" % (mod.relpath, node.lineno)
                    in_setter = _inside_setter(mod, node, flag_names)
                    if isinstance(val, ast.Constant) and val.value is True:
                        ck.ok("C12.R5", "write@%s" % _encl(mod, node), where)
                    elif in_setter:
                        ck.ok("C12.R5", "setter-store", where)
                    elif isinstance(val, ast.Constant) and val.value is False:
                        ck.violation("C12.R5", "write@%s" % _encl(mod, node), where, "library code clears the stop request (%s): the request must persist" % ast.unparse(node))
                    else:
                        ck.undecided("C12.R5", "write@%s" % _encl(mod, node), where, "stop flag assigned a non-constant value: %s" % ast.unparse(node))
            if isinstance(node, ast.Call) and isinstance(node.func, ast.Name) and node.func.id == "setattr" and len(node.args) >= 2 and isinstance(node.args[1], ast.Constant) and node.args[1].value in flag_names:
                ck.undecided("C12.R5", "setattr", "%s:%d" % (mod.relpath, node.lineno), "stop flag written through setattr")
    ck.check(writes >= 2, "C12.R5", "writers found", nb.module.relpath, "expected at least the setter and EarlyStopping to write the flag; found %d" % writes)
    with ck.guard("C12.R5", "setter"):
        for val, should_raise in ((VConst(1), True), (VConst("yes"), True), (VConst(None), True), (VConst(True), False)):
            def th4(it, val=val):
                s = make_state(it, "PositiveWaveFunction")
                it.set_attr(s, "stop_training", val, None)
                return it.get_attr(s, "stop_training", None)

            paths = paths_of(prog, th4)
            if should_raise:
                ck.check(all(p.outcome == "raise" for p in paths), "C12.R5", "setter rejects %r" % (val.value,), nb.module.relpath + ":NeuralStateBase.stop_training",
                         "stop_training accepts the non-boolean value %r" % (val.value,))
            else:
                ck.check(all(p.outcome == "return" and isinstance(p.value, VConst) and p.value.value is True for p in paths), "C12.R5", "setter stores True",
                         nb.module.relpath + ":NeuralStateBase.stop_training", "setting stop_training = True is not reflected by the property")
    ck.require_min("C12.R1", 5)
    ck.require_min("C12.R2", 5)
    ck.require_min("C12.R3", 8)
    ck.require_min("C12.R4", 25)
    ck.require_min("C12.R5", 7)
    ck.assumptions += [
        "callbacks are user code: any event may set the stop flag; exceptions raised by callbacks and tqdm are out of scope",
        "optimizer.step() is the only statement class of fit that changes parameters (effect facet, all state classes)",
    ]


def _opaque_calls(p):
    out = []
    for e in p.effects:
        if e.kind == "ext-call" and isinstance(e.detail, tuple):
            pass
    # ext-call effects carry (tag, touched); arguments are in the VUnknown results -> use notes
    for u in getattr(p.interp, "opaque_log", []):
        out.append((u[0], u[1]))
    return out


def _inside_setter(mod, node, names):
    for cls in mod.classes.values():
        for nm in names:
            pr = cls.props.get(nm)
            if pr and "set" in pr:
                f = pr["set"].node
                if f.lineno <= node.lineno <= f.end_lineno:
                    return True
    return False


def _encl(mod, node):
    best = "<module>"
    for n in ast.walk(mod.tree):
        if isinstance(n, (ast.FunctionDef, ast.ClassDef)) and n.lineno <= node.lineno <= n.end_lineno:
            best = n.name if best == "<module>" else best + "." + n.name
    return best
