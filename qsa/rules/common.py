"""Helpers shared by the rule modules."""
from fractions import Fraction

from .. import terms as T
from ..ctx import make_state, make_rbm, tens, call, single, dimval, state_networks, returning, path_tag
from ..ctx import run as paths_of
from ..interp import RaiseEx, explore
from ..values import VConst, VNum, VTens, VObj, VList, VTuple, VDict, VUnknown, VFunc, VRange, VIter, VExt, VClass, VBound, VSlice, Unsupported, num_term, const_of
from ..model import AnalysisError
from ..ops_ext import module_params


def params_by_shape(it, modv):
    """Map role -> (attr name, VTens) from the shapes the constructor gave the parameters."""
    roles = {}
    # the module's own sizes name the roles (hidden = the module's num_hidden, whatever symbol the constructor bound to it)
    from ..ops import dim_of

    def size(attr, default):
        v = modv.inst.attrs.get(attr) if isinstance(modv, VObj) else None
        d = dim_of(v) if v is not None else None
        return d if isinstance(d, (str, int)) and d != "?" else default

    nv_, nh_, na_ = size("num_visible", "nv"), size("num_hidden", "nh"), size("num_aux", "na")
    for n, p in module_params(it, modv):
        s = p.shape
        role = None
        if s == (nh_, nv_):
            role = "W"
        elif s == (na_, nv_):
            role = "U"
        elif s == (nv_,):
            role = "b"
        elif s == (nh_,):
            role = "c"
        elif s == (na_,):
            role = "d"
        if role is None or role in roles:
            raise Unsupported("parameter %s has unexpected/duplicate shape %s" % (n, s))
        roles[role] = (n, p)
    return roles


def mod_dim(modv, attr, default):
    """Dimension symbol bound to a size attribute of a module instance (num_visible / num_hidden / num_aux)."""
    from ..ops import dim_of

    v = modv.inst.attrs.get(attr) if isinstance(modv, VObj) else None
    d = dim_of(v) if v is not None else None
    return d if isinstance(d, (str, int)) and d != "?" else default


def role_terms(it, modv):
    return {r: p.term for r, (n, p) in params_by_shape(it, modv).items()}


def role_shapes(it, modv, extra=None):
    """symbol name -> shape for a module's parameters (and `extra` symbols): what term_dim / distribute_cat read sizes from."""
    out = dict(extra or {})
    for _r, (_n, p) in params_by_shape(it, modv).items():
        a = p.term.single_atom() if p.term is not None else None
        if isinstance(a, T.Sym):
            out[a.name] = tuple(p.shape)
    return out


def aff(v, W, c):
    """x W^T + c : the normal form of F.linear(x, W, c)."""
    return T.app("matmul", v, T.app("t", W)) + c


def sp_sum(pre, axes=(-1,)):
    return T.app("sum", T.softplus(pre), axes)


def ref_energy(v, R):
    """Reference effective energy from role terms R (W,b,c[,U,d])."""
    e = T.app("matmul", v, R["b"]) + sp_sum(aff(v, R["W"], R["c"]))
    if "U" in R:
        e = e + sp_sum(aff(v, R["U"], R["d"]))
    return -e


def lin_diff(actual, expected, _cases=True):
    """Compare two polys monomial-wise.  Returns ('equal',) | ('coeff', mono, a, e) |
    ('dep-missing', syms) | ('dep-extra', syms) | ('unknown', detail)."""
    if actual is None or expected is None:
        return ("unknown", "no term")
    if actual == expected:
        return ("equal",)
    # a finite clamp inside the value: equal to the definition only inside the bounds
    cl = [a for a in actual.all_atoms() if isinstance(a, T.App) and a.op == "clamp"]
    if cl and not any(isinstance(a, T.App) and a.op == "clamp" for a in expected.all_atoms()):
        def strip(a):
            if isinstance(a, T.App) and a.op == "clamp":
                return T.P(a.args[0])
            return None
        try:
            if T.subst(actual, strip) == expected:
                b = cl[0].args[1:]
                return ("clamped", "%r" % (cl[0].args[0],), "%r" % (b,))
        except Exception:
            pass
    sa, se = actual.syms(), expected.syms()
    sa = {s for s in sa if not s.startswith("lit:")}
    se = {s for s in se if not s.startswith("lit:")}
    if se - sa:
        return ("dep-missing", sorted(se - sa))
    if sa - se:
        return ("dep-extra", sorted(sa - se))
    ma, me = set(actual.terms), set(expected.terms)
    if ma == me:
        for m in ma:
            if actual.terms[m] != expected.terms[m]:
                return ("coeff", T._mono_repr(m), str(actual.terms[m]), str(expected.terms[m]))
    # a monomial present on one side only counts as coefficient 0 on the other side when it is built from
    # atoms that both sides share (or is the constant term): then the difference is a definite coefficient error
    common_atoms = {a for m in ma & me for a, _ in m}
    odd = (ma ^ me)
    if (ma & me or () in odd) and odd and all(all(a in common_atoms for a, _ in m) for m in odd):
        m = sorted(odd, key=T._mono_repr)[0]
        return ("coeff", T._mono_repr(m), str(actual.terms.get(m, 0)), str(expected.terms.get(m, 0)))
    nd = nested_coeff_diff(actual, expected)
    if nd is not None:
        return ("coeff", nd[0], nd[1], nd[2])
    # the same summand, but summed over an axis the definition keeps: c * sum(X, axes) where c * X is expected, everything else
    # equal - each entry of the result is then the total over that axis instead of its own value
    only_a, only_e = ma - me, me - ma
    if only_a and len(only_a) == len(only_e) and all(actual.terms[m] == expected.terms[m] for m in ma & me):
        pairs = []
        for m1 in only_a:
            a1 = m1[0][0] if len(m1) == 1 and m1[0][1] == 1 else None
            if not (isinstance(a1, T.App) and a1.op == "sum" and len(a1.args) == 2):
                break
            inner = a1.args[0]
            hit = [m2 for m2 in only_e if T.Poly({m2: T.Fraction(1)}) == inner and expected.terms[m2] == actual.terms[m1]]
            if len(hit) != 1:
                break
            pairs.append((inner, a1.args[1]))
        else:
            return ("reduced", str(pairs[0][0])[:80], str(tuple(pairs[0][1])))
    if _cases:
        cd = case_diff(actual, expected)
        if cd is not None and cd[0] != "unknown":
            return cd
    return ("unknown", "normal forms differ structurally: %r  vs  %r" % (actual, expected))


# strictly increasing in their first argument, element by element (sum: of the summands)
_INCREASING = {"softplus", "exp", "sigmoid", "sum", "tanh", "logsumexp", "unsq", "sq"}


def _free_positive(mono):
    """A monomial that can be made positive in every component by choosing its free symbols: x, or matmul / t of free symbols."""
    def freeatom(a):
        if isinstance(a, T.Sym):
            return not a.name.startswith("lit:")
        if isinstance(a, T.App) and a.op in ("matmul", "t", "unsq"):
            return all(not hasattr(x, "all_atoms") or (x.single_atom() is not None and freeatom(x.single_atom())) for x in a.args)
        return False

    return bool(mono) and all(e == 1 and freeatom(a) for a, e in mono)


def nested_coeff_diff(actual, expected, depth=0):
    """Two normal forms that are the same expression except for ONE coefficient somewhere inside arguments of strictly increasing
    functions (softplus(A + b) vs softplus(A + b/2)) are different functions: choose the free symbol of the differing monomial
    positive in every component, then every enclosing function is strictly larger on one side.  Returns (where, got, want) or None."""
    if depth > 6 or not hasattr(actual, "terms") or not hasattr(expected, "terms"):
        return None
    ma, me = set(actual.terms), set(expected.terms)
    if ma == me:
        diff = [m for m in ma if actual.terms[m] != expected.terms[m]]
        if len(diff) == 1 and _free_positive(diff[0]):
            m = diff[0]
            return (T._mono_repr(m), str(actual.terms[m]), str(expected.terms[m]))
        return None
    only_a, only_e = ma - me, me - ma
    if len(only_a) == 1 and len(only_e) == 1 and all(actual.terms[m] == expected.terms[m] for m in ma & me):
        m1, m2 = next(iter(only_a)), next(iter(only_e))
        if len(m1) == 1 and len(m2) == 1 and m1[0][1] == 1 and m2[0][1] == 1 and actual.terms[m1] == expected.terms[m2]:
            a1, a2 = m1[0][0], m2[0][0]
            if isinstance(a1, T.App) and isinstance(a2, T.App) and a1.op == a2.op and a1.op in _INCREASING and len(a1.args) == len(a2.args) and a1.args[1:] == a2.args[1:]:
                r = nested_coeff_diff(a1.args[0], a2.args[0], depth + 1)
                if r is not None:
                    return ("%s inside %s(...)" % (r[0], a1.op), r[1], r[2])
    return None


def regularisers(term):
    """Numerical 'safety' devices inside a value: ('clamp', (lo, hi), atom) and ('eps', c, atom) for a denominator / radicand
    / log argument written as (X + c) with a small non-zero constant c (|c| <= 1e-3) next to a non-constant X.  They change the
    value wherever X is not large against c - for unnormalised amplitudes and probabilities that is most of the parameter space."""
    from fractions import Fraction

    out = []
    if term is None or not hasattr(term, "all_atoms"):
        return out
    for a in term.all_atoms():
        if isinstance(a, T.App) and a.op == "clamp":
            out.append(("clamp", a.args[1:], a))
        elif isinstance(a, T.App) and a.op in ("group", "plog", "log", "sqrt") and a.args and hasattr(a.args[0], "terms"):
            q = a.args[0]
            c = q.terms.get((), 0)
            if c != 0 and len(q.terms) > 1 and abs(c) <= Fraction(1, 1000):
                out.append(("eps", c, a))
    return out


def strip_regularisers(term):
    """The value with every clamp and every small additive constant (see `regularisers`) removed."""
    from fractions import Fraction

    memo = {}

    def drop_eps(q):
        c = q.terms.get((), 0)
        if c != 0 and len(q.terms) > 1 and abs(c) <= Fraction(1, 1000):
            return q - T.const(c)
        return q

    def sp(p):
        if not isinstance(p, T.Poly):
            return tuple(sp(x) for x in p) if isinstance(p, tuple) else p
        if p in memo:
            return memo[p]
        total = T.ZERO
        for mono, c in p.terms.items():
            m = T.const(c)
            for a, pw in mono:
                m = m * T.powq(sa(a), pw)
            total = total + m
        memo[p] = total
        return total

    def sa(a):
        if isinstance(a, T.Sym):
            return T.P(a)
        if isinstance(a, T.Exp):
            return T.exp(sp(a.arg))
        if a.op == "clamp":
            return sp(a.args[0])
        if a.op == "group":
            return drop_eps(sp(a.args[0]))
        if a.op in ("plog", "log", "sqrt") and a.args and isinstance(a.args[0], T.Poly):
            return T.rebuild(a.op, [drop_eps(sp(a.args[0]))] + [sp(x) for x in a.args[1:]])
        return T.rebuild(a.op, [sp(x) for x in a.args])

    return sp(term)


def regulariser_msg(regs):
    k, d, a = regs[0]
    if k == "clamp":
        return "the value passes through a clamp %r: wherever the clamped quantity leaves the bounds (unnormalised weights below / above them are ordinary) the result is the bound, not the defined value" % (tuple(str(x) for x in d),)
    return "a constant %.3g is added inside %s(...): the result is the defined value only where the regularised quantity is large against the constant" % (float(d), a.op if a.op != "group" else "a denominator")


def unregularised(ck, rule, inst, site, name, term, key=None, allow=None):
    """Report clamps / small additive constants inside `term` (a violation: the value is the defined one only away from them) and
    return the term without them, so that the remaining algebra can still be decided.  allow(reg) -> True exempts one."""
    if term is None:
        return term
    regs = [r for r in regularisers(term) if not (allow and allow(r))]
    ck.check(not regs, rule, "%s:%s is not regularised" % (inst, name), site, "%s: %s" % (name, regulariser_msg(regs) if regs else ""), key=key or "%s|%s|%s regularised" % (rule, inst, name))
    return strip_regularisers(term) if regularisers(term) else term


def row_of_broadcast_compare(term):
    """M = (A[None, :] == arange(K)[:, None]) is the table M[r, c] = (A[c] == r); its row k is the mask (A == k).  Rewrites
    index(cmp(unsq(A, front), unsq(arange(K), back)), [k]) -> cmp(A, k) wherever it occurs (also with the operands exchanged)."""
    if term is None or not hasattr(term, "all_atoms"):
        return term

    def fn(a):
        if not (isinstance(a, T.App) and a.op == "index" and len(a.args) == 2 and len(a.args[1]) == 1 and hasattr(a.args[0], "single_atom")):
            return None
        k = a.args[1][0]
        if isinstance(k, (tuple, list)):
            return None
        c = a.args[0].single_atom()
        if not (isinstance(c, T.App) and c.op in ("cmp_Eq", "cmp_NotEq") and len(c.args) == 2):
            return None

        def parts(x):
            xa = x.single_atom() if hasattr(x, "single_atom") else None
            if isinstance(xa, T.App) and xa.op == "unsq" and len(xa.args) >= 2:
                return xa.args[0], xa.args[1]
            return None, None

        (x0, ax0), (x1, ax1) = parts(c.args[0]), parts(c.args[1])
        for (xa_, axa), (xb_, axb) in (((x0, ax0), (x1, ax1)), ((x1, ax1), (x0, ax0))):
            if xa_ is None or xb_ is None:
                continue
            ba = xb_.single_atom() if hasattr(xb_, "single_atom") else None
            # xa_ broadcast along the rows (new leading axis: -2 of 2, 0, 'front'), xb_ = arange(K) along the rows (new trailing axis)
            if axa in (-2, 0, "front") and axb in (-1, 1) and isinstance(ba, T.App) and ba.op == "arange" and len(ba.args) == 1:
                kt = k if hasattr(k, "terms") else (T.const(k) if isinstance(k, int) else None)
                if kt is not None:
                    return T.app(c.op, xa_, kt)
        return None

    return T.subst(term, fn)


def within(c, fname):
    """Was the recorded call `c` (a record of interp.calls or interp.ext_calls) made inside `fname` - directly, or in a helper
    that fname calls?  (the call site for direct calls, the recorded stack for calls made further down)"""
    if fname in str(c[3]):
        return True
    st = c[8] if len(c) > 8 else (c[5] if len(c) == 6 and isinstance(c[5], tuple) else ())
    return any(q == fname or q.endswith("." + fname) for q in st)


def where_cases(term, limit=4):
    """Case split of a value built with np.where / torch.where(c, a, b): yields (assignment, term) for every truth assignment
    of the (at most `limit`) distinct conditions, each `where` replaced by the branch its condition selects.  Elementwise
    selection: the value is right iff it is right in every case."""
    conds = []
    for a in term.all_atoms():
        if isinstance(a, T.App) and a.op in ("where", "x:numpy.where", "x:torch.where") and len(a.args) == 3 and a.args[0] not in conds:
            conds.append(a.args[0])
    if len(conds) > limit:
        return None
    out = []
    for bits in range(2 ** len(conds)):
        asg = {i: bool(bits >> i & 1) for i in range(len(conds))}

        def pick(a):
            if isinstance(a, T.App) and a.op in ("where", "x:numpy.where", "x:torch.where") and len(a.args) == 3 and a.args[0] in conds:
                b = a.args[1] if asg[conds.index(a.args[0])] else a.args[2]
                return T.subst(T.P(b), pick)
            return None

        t = term
        for _ in range(4):  # nested selections
            t2 = T.subst(t, pick)
            if t2 == t:
                break
            t = t2
        out.append((_CaseTag([(str(c)[:40], asg[i]) for i, c in enumerate(conds)], [(c, asg[i]) for i, c in enumerate(conds)]), t))
    return out


class _CaseTag(list):
    """printable [(condition text, truth)]; .terms holds [(condition term, truth)]"""
    def __init__(self, shown, terms):
        super().__init__(shown)
        self.terms = terms


def case_diff(actual, expected):
    """A value built with elementwise selections (`where`) against a closed-form expectation: every case must equal the
    expectation.  Recognises the *saturation* shortcut softplus(x) -> x: exact (torch's own softplus does it) only under a
    condition that implies x > threshold >= 20; under any other condition (|x| > 20, x < -20, ...) the case is wrong, because
    softplus(x) -> 0, not x, for large negative x.  Returns a lin_diff outcome or None (no selection inside)."""
    cases = where_cases(actual) if actual is not None and hasattr(actual, "all_atoms") else None
    if not cases or (len(cases) == 1 and not cases[0][0]):
        return None
    worst = ("equal",)
    for tag, t in cases:
        d = lin_diff(t, expected, _cases=False)
        if d[0] == "equal":
            continue
        if diff_verdict(d) is False:
            return d
        sat = _saturation(t, expected)
        if sat is not None:
            x = sat
            ok = False
            for c, truth in tag.terms:
                ca = c.single_atom() if hasattr(c, "single_atom") else None
                if truth and isinstance(ca, T.App) and ca.op in ("cmp_Gt", "cmp_GtE") and ca.args[0] == x and hasattr(ca.args[1], "const_value") and (ca.args[1].const_value() or 0) >= 20:
                    ok = True
            if ok:
                continue
            return ("coeff", "softplus(%s)" % (str(x)[:60],), "replaced by its argument in the case %s" % (list(tag),), "softplus itself (it tends to 0, not to x, for large negative x)")
        worst = d
    return worst


def _saturation(t, expected):
    """X such that t is `expected` with one softplus(X) (or sum of it) replaced by X; else None."""
    if not hasattr(t, "terms") or not hasattr(expected, "terms"):
        return None
    ma, me = set(t.terms), set(expected.terms)
    extra_e = [m for m in me if m not in ma or t.terms[m] != expected.terms[m]]
    if len(extra_e) != 1:
        return None
    m = extra_e[0]
    if len(m) != 1 or m[0][1] != 1 or not isinstance(m[0][0], T.App):
        return None
    a = m[0][0]
    c = expected.terms[m]
    rest_e = T.Poly({k: v for k, v in expected.terms.items() if k != m})
    delta = t - rest_e  # what t has in place of c * a
    if a.op == "softplus":
        x = a.args[0]
        return x if delta == T.const(c) * x else None
    if a.op == "sum" and hasattr(a.args[0], "single_atom"):
        ia = a.args[0].single_atom()
        if isinstance(ia, T.App) and ia.op == "softplus":
            x = ia.args[0]
            return x if delta == T.const(c) * T.app("sum", x, *a.args[1:]) else None
    return None


def count_coeff_diff(actual, expected, int_syms):
    """Two sums whose terms agree except for their *count coefficients* (expressions in batch sizes / sample numbers: N // b,
    ceil(N / b), 1 / b ...): decide each coefficient exactly on a grid of the integer symbols.  Returns a lin_diff outcome or None."""
    from .. import ints

    def split(p):
        out = {}
        for mono, c in p.terms.items():
            cnt, rest = T.const(c), []
            for a, pw in mono:
                sy = T.P(a).syms()
                is_cnt = (isinstance(a, T.Sym) and a.name in int_syms) or (isinstance(a, T.App) and a.op in ints._COUNT_OPS + ("group",) and sy and sy <= set(int_syms))
                if is_cnt:
                    cnt = cnt * T.powq(T.P(a), pw)
                else:
                    rest.append((a, pw))
            key = tuple(rest)
            out[key] = out.get(key, T.ZERO) + cnt
        return out

    if actual is None or expected is None or not hasattr(actual, "terms") or not hasattr(expected, "terms"):
        return None
    sa, se = split(actual), split(expected)
    if set(sa) != set(se):
        return None
    for key in sorted(sa, key=repr):
        r = ints.count_compare(sa[key], se[key], int_syms)
        if r is None:
            return None
        if r[0] == "differs":
            w = r[1]
            return ("coeff", T._mono_repr(key)[:80] or "1", "%s = %s at %s" % (str(sa[key])[:60], w["got"], w["env"]), "%s = %s" % (str(se[key])[:40], w["want"]))
    return ("equal",)


def _cat_parts(p, axis):
    a = p.single_atom() if isinstance(p, T.Poly) else None
    if isinstance(a, T.App) and a.op == "cat" and a.args[1] == axis and isinstance(a.args[0], tuple):
        return list(a.args[0])
    return None


def term_dim(p, axis, shapes):
    """Size (symbol name or int) of the last (-1) or second-to-last (-2) axis of a term, from the shapes of the symbols in it;
    None when it cannot be told."""
    if isinstance(p, T.Poly):
        for mono in p.terms:
            for a, _ in mono:
                d = term_dim(a, axis, shapes)
                if d is not None:
                    return d
        return None
    if isinstance(p, T.Sym):
        sh = shapes.get(p.name)
        return sh[axis] if sh is not None and len(sh) >= -axis else None
    if isinstance(p, T.App):
        if p.op == "t":
            return term_dim(p.args[0], -3 - axis, shapes)
        if p.op == "matmul":
            return term_dim(p.args[1], -1, shapes) if axis == -1 else term_dim(p.args[0], -2, shapes)
        if p.op == "cat" and isinstance(p.args[0], tuple):
            ds = [term_dim(x, axis, shapes) for x in p.args[0]]
            if p.args[1] == axis:
                return ("+",) + tuple(ds) if all(d is not None for d in ds) else None
            return next((d for d in ds if d is not None), None)
        if p.op in ("softplus", "sigmoid", "tanh", "abs", "neg", "bern"):
            return term_dim(p.args[0], axis, shapes)
    if isinstance(p, T.Exp):
        return term_dim(p.arg, axis, shapes)
    return None


def distribute_cat(term, shapes):
    """Push concatenations outwards: t(cat_-2) = cat_-1 of t; matmul(x, cat_-1) = cat_-1 of matmul; a sum of concatenations whose
    segments have pairwise equal sizes = the concatenation of the sums; an elementwise function of a concatenation = the
    concatenation of the function values; sum over the concatenated axis = the sum of the segments' sums.  Exact rewrites; a
    sum of concatenations whose segment sizes are not known to agree is left as it is."""
    def fn(a):
        if not isinstance(a, T.App):
            return None
        if a.op == "t":
            xs = _cat_parts(a.args[0], -2)
            if xs is not None:
                return T.app("cat", tuple(T.app("t", x) for x in xs), -1)
        if a.op == "matmul":
            xs = _cat_parts(a.args[1], -1)
            if xs is not None and term_dim(a.args[1], -2, shapes) is not None:
                return T.app("cat", tuple(T.app("matmul", a.args[0], x) for x in xs), -1)
        if a.op == "index" and len(a.args[1]) == 2 and a.args[1][0] == "ellipsis" and isinstance(a.args[1][1], tuple) and a.args[1][1] and a.args[1][1][0] == "slice" and a.args[1][1][3] is None:
            # a slice of the concatenated axis that falls on segment boundaries: those segments
            xs = _cat_parts(a.args[0], -1)
            if xs is not None:
                ds = [term_dim(x, -1, shapes) for x in xs]
                if all(d is not None for d in ds):
                    def _dt(d):
                        if isinstance(d, tuple) and d and d[0] == "+":
                            return sum((_dt(q) for q in d[1:]), T.ZERO)
                        return T.sym(d) if isinstance(d, str) else T.const(d)

                    cum = [T.ZERO]
                    for d in ds:
                        cum.append(cum[-1] + _dt(d))
                    lo, hi = a.args[1][1][1], a.args[1][1][2]
                    lo = T.ZERO if lo is None else T.P(lo)
                    hi = cum[-1] if hi is None else T.P(hi)
                    if lo in cum and hi in cum and cum.index(lo) < cum.index(hi):
                        seg = xs[cum.index(lo):cum.index(hi)]
                        return seg[0] if len(seg) == 1 else T.app("cat", tuple(seg), -1)
        if a.op in ("softplus", "sigmoid", "tanh", "bern"):
            arg = a.args[0]
            xs = _cat_parts(arg, -1)
            if xs is None and isinstance(arg, T.Poly) and len(arg.terms) > 1:
                cols = []
                for mono, c in arg.terms.items():
                    if len(mono) != 1 or mono[0][1] != 1:
                        return None
                    ps = _cat_parts(T.P(mono[0][0]), -1)
                    if ps is None:
                        return None
                    cols.append((c, ps))
                n = len(cols[0][1])
                if any(len(ps) != n for _, ps in cols):
                    return None
                for k in range(n):
                    ds = {term_dim(ps[k], -1, shapes) for _, ps in cols}
                    if len(ds) != 1 or None in ds:
                        return None
                xs = [sum((T.const(c) * ps[k] for c, ps in cols), T.ZERO) for k in range(n)]
            if xs is not None:
                return T.app("cat", tuple(T.rebuild(a.op, [x]) for x in xs), -1)
        if a.op == "sum" and len(a.args) >= 2 and tuple(a.args[1]) == (-1,):
            xs = _cat_parts(a.args[0], -1)
            if xs is not None:
                return sum((T.app("sum", x, *a.args[1:]) for x in xs), T.ZERO)
        return None

    try:
        return T.subst(term, fn)
    except Exception:
        return term


def pairing_diff(actual, expected):
    """Both sides are a common part plus sums, over a layer, of softplus(x W_k^T + q_k) with W_k, q_k plain parameter symbols:
    they are the same function of (x, parameters) only if the same weight is paired with the same bias (softplus ridge functions
    with different (weight, bias) pairs are linearly independent for generic parameter values).  Returns a description of a
    mismatched pairing, or None when this form does not apply or the pairings agree."""
    def split(p):
        rest, pairs = T.ZERO, {}
        for mono, c in p.terms.items():
            key = None
            if len(mono) == 1 and mono[0][1] == 1 and isinstance(mono[0][0], T.App) and mono[0][0].op == "sum":
                arg = mono[0][0].args[0]
                sa = arg.single_atom() if isinstance(arg, T.Poly) else None
                if isinstance(sa, T.App) and sa.op == "softplus" and isinstance(sa.args[0], T.Poly) and len(sa.args[0].terms) == 2:
                    w = q = None
                    for m2, c2 in sa.args[0].terms.items():
                        if c2 != 1 or len(m2) != 1 or m2[0][1] != 1:
                            w = q = None
                            break
                        a2 = m2[0][0]
                        if isinstance(a2, T.Sym):
                            q = a2
                        elif isinstance(a2, T.App) and a2.op == "matmul":
                            ta = a2.args[1].single_atom() if isinstance(a2.args[1], T.Poly) else None
                            wa = ta.args[0].single_atom() if isinstance(ta, T.App) and ta.op == "t" and isinstance(ta.args[0], T.Poly) else None
                            if isinstance(wa, T.Sym):
                                w = (a2.args[0], wa)
                    if w is not None and q is not None:
                        key = (w[0], w[1], q, mono[0][0].args[1:])
            if key is None:
                rest = rest + T.Poly({mono: c})
            else:
                pairs[key] = pairs.get(key, 0) + c
        return rest, pairs

    if not isinstance(actual, T.Poly) or not isinstance(expected, T.Poly):
        return None
    ra, pa = split(actual)
    re_, pe = split(expected)
    if not pa or not pe or ra != re_ or pa == pe:
        return None
    # the same weights and the same biases on both sides, differently matched
    if sorted((repr(k[1]), str(c)) for k, c in pa.items()) != sorted((repr(k[1]), str(c)) for k, c in pe.items()):
        return None
    if sorted(repr(k[2]) for k in pa) != sorted(repr(k[2]) for k in pe):
        return None
    if len({k[1] for k in pa}) != len(pa) or len({k[2] for k in pa}) != len(pa):
        return None
    bad = sorted((repr(k[1]), repr(k[2])) for k in pa if k not in pe)
    want = {repr(k[1]): repr(k[2]) for k in pe}
    return "; ".join("%s is combined with %s, expected %s" % (w, q, want.get(w)) for w, q in bad)


def shape_is(v, want):
    """True / False / None (the analyser lost the shape: undecided) for `v` is a tensor of shape `want`."""
    if not isinstance(v, VTens) or v.shape is None:
        return None if isinstance(v, (VTens, VUnknown)) else False
    sh = tuple(v.shape)
    if any(str(d) == "?" for d in sh):
        return None
    return sh == tuple(want)


def affine_pairs(term):
    """{(weight symbol, bias symbol)} of every sub-term f(x W^T + q) (f = sigmoid / softplus, W and q plain parameter symbols)
    anywhere inside `term`: which bias each weight matrix is combined with."""
    out = set()
    for a in (term.all_atoms() if isinstance(term, T.Poly) else []):
        if isinstance(a, T.App) and a.op in ("sigmoid", "softplus") and isinstance(a.args[0], T.Poly) and len(a.args[0].terms) == 2:
            w = q = None
            for m2, c2 in a.args[0].terms.items():
                if c2 != 1 or len(m2) != 1 or m2[0][1] != 1:
                    w = q = None
                    break
                a2 = m2[0][0]
                if isinstance(a2, T.Sym):
                    q = a2
                elif isinstance(a2, T.App) and a2.op == "matmul" and isinstance(a2.args[1], T.Poly):
                    ta = a2.args[1].single_atom()
                    wa = ta.args[0].single_atom() if isinstance(ta, T.App) and ta.op == "t" and isinstance(ta.args[0], T.Poly) else None
                    if isinstance(wa, T.Sym):
                        w = wa
            if w is not None and q is not None:
                out.add((w.name, q.name))
    return out


def stacked_layer_verdict(got, want, shapes):
    """A value written with concatenated weights / biases against its reference: ('equal',) after pushing the layers apart
    (for all sizes), ('pairing', text) when - in the instance where the concatenated segments have equal sizes - a weight
    matrix meets another layer's bias, else None."""
    if got is None or want is None:
        return None
    g1 = distribute_cat(got, shapes)
    if g1 == want:
        return ("equal",)
    sizes = {str(sh[0]) for nm_, sh in shapes.items() if len(sh) == 2}
    if len(sizes) != 2:
        return None
    keep = sorted(sizes)[0]
    eq = {nm_: tuple(keep if str(x) in sizes else x for x in sh) for nm_, sh in shapes.items()}
    g2 = distribute_cat(got, eq)
    if g2 == got or g2 == want:
        return None
    pg, pw = affine_pairs(g2), affine_pairs(want)
    if pg and pw and pg != pw and {w for w, _ in pg} == {w for w, _ in pw} and {q for _, q in pg} == {q for _, q in pw}:
        wantd = dict(pw)
        bad = sorted((w, q) for w, q in pg if wantd.get(w) != q)
        return ("pairing", "; ".join("%s is combined with %s, expected %s" % (w, q, wantd.get(w)) for w, q in bad))
    return None


def scaled_root_square(t, scalar):
    """t = c * scalar^a * sqrt(Q) where inside Q every summand of every sum(...) carries the same power scalar^b: returns the
    polynomial t^2 = c^2 * scalar^(2a + b) * Q' with the scalar pulled out of the sums (Q' free of it), or None when t is not of
    that form.  (What `m * sqrt(sum((x / m)^2))` - a root taken after scaling by m - is the square root of.)"""
    S = T.Sym(scalar)
    if not isinstance(t, T.Poly) or len(t.terms) != 1:
        return None
    (mono, c), = t.terms.items()
    a_pow, root = 0, None
    for a, pw in mono:
        if a == S:
            a_pow = pw
        elif isinstance(a, T.App) and a.op == "sqrt" and pw == 1 and root is None:
            root = a.args[0]
        else:
            return None
    if root is None:
        return None
    total, b_pow = T.ZERO, None
    for m2, c2 in root.terms.items():
        if len(m2) != 1 or m2[0][1] != 1 or not (isinstance(m2[0][0], T.App) and m2[0][0].op == "sum"):
            return None
        sm = m2[0][0]
        inner = T.ZERO
        for m3, c3 in sm.args[0].terms.items():
            pw_s = sum(pw for a, pw in m3 if a == S)
            if b_pow is None:
                b_pow = pw_s
            if pw_s != b_pow:
                return None
            inner = inner + T.Poly({tuple((a, pw) for a, pw in m3 if a != S): c3})
        total = total + T.const(c2) * T.app("sum", inner, *sm.args[1:])
    return T.const(c * c) * T.powq(T.P(S), 2 * a_pow + (b_pow or 0)) * total


def diff_verdict(d):
    """True (pass) / False (definite) / None (undecided) from lin_diff outcome."""
    if d[0] == "equal":
        return True
    if d[0] in ("coeff", "dep-missing", "dep-extra", "clamped", "reduced"):
        return False
    return None


def diff_msg(d):
    if d[0] == "coeff":
        return "coefficient of %s is %s, expected %s" % (d[1], d[2], d[3])
    if d[0] == "dep-missing":
        return "does not depend on %s" % ", ".join(d[1])
    if d[0] == "dep-extra":
        return "depends on %s, which it must not" % ", ".join(d[1])
    if d[0] == "clamped":
        return "equals the definition only while %s stays inside the clamp bounds %s; beyond them the value saturates" % (d[1], d[2])
    if d[0] == "reduced":
        return "%s is summed over the axes %s that the definition keeps: every entry holds the total over those axes (the other rows of the batch) instead of its own value" % (d[1], d[2])
    if d[0] == "unknown":
        return d[1]
    return "equal"


def shape_err_verdict(ck, rule, inst, paths, site=""):
    """Any shape error inside the evaluated slice is a definite structural violation (symbolic
    dimensions nv, nh, na, B are pairwise distinct)."""
    bad = []
    for p in paths:
        bad.extend(p.interp.shape_errors)
    if bad:
        s, m = bad[0]
        ck.violation(rule, inst + ":shape", s, "shape error with nv, nh, na distinct: %s" % m)
        return False
    return True


def exp_arg(t):
    """If t == c * exp(L) (single monomial, one Exp atom) return (c, L, other_atoms)."""
    sm = t.single_mono() if t is not None else None
    if sm is None:
        return None
    mono, c = sm
    L = None
    others = []
    for a, pw in mono:
        if isinstance(a, T.Exp) and pw == 1 and L is None:
            L = a.arg
        else:
            others.append((a, pw))
    if L is None:
        return None
    return c, L, tuple(others)


def functions_in_paths(paths):
    out = set()
    for p in paths:
        for c in p.interp.calls:
            out.add(c[0])
    return out


def batch_of_one(term, var="v"):
    """The vector call form of a rank-polymorphic function: the batched computation applied to a
    batch of one and squeezed (what auto_unsqueeze_args implements)."""
    t = T.rename_syms(term, {var: T.app("unsq", T.sym(var), -2, 2)})
    return T.app("sq", t, -1)


def cond_truths(p, pred):
    """Outcomes, on path p, of the branch conditions whose canonical comparison (interp._cond_key: ('eq'|'gt', a, b)
    or ('t', term)) satisfies pred(key).  Conditions are found by their *value* (a term), never by the spelling of
    the test in the source, so renaming a local or inverting a test does not change what is found.
    Returns the list of truth values of the canonical comparisons (x != y True is reported as eq False)."""
    from ..interp import _cond_key

    out = []
    for c in p.conds:
        v = c[3] if len(c) > 3 else None
        t = getattr(v, "term", None)
        if t is None:
            continue
        key, flip = _cond_key(t)
        try:
            hit = pred(key)
        except Exception:
            hit = False
        if hit:
            out.append(c[2] != flip)
    return out


def _syms(x):
    return x.syms() if hasattr(x, "syms") else set()


_INDEX_OPS = ("nonzero", "x:numpy.flatnonzero", "x:numpy.argwhere", "x:numpy.nonzero")


def index_truthiness(p):
    """Branch conditions of path p that test the truth VALUE of a selection of indices (`idx.any()`, `idx.all()`, `idx.sum()`,
    `bool(idx)` for idx = np.where(mask)[0] / np.flatnonzero(mask)) instead of their NUMBER: index 0 is falsy, so a selection
    holding only site 0 counts as empty.  Returns [(site, text)]."""
    out = []
    for c in p.conds:
        t = getattr(c[3] if len(c) > 3 else None, "term", None)
        if t is None or not hasattr(t, "single_atom"):
            continue
        at = t.single_atom()
        seen = 0
        while isinstance(at, T.App) and seen < 4:
            seen += 1
            if at.op in ("any", "all", "sum", "cmp_NotEq", "cmp_Eq", "cmp_Gt", "max", "min") and at.args and hasattr(at.args[0], "single_atom"):
                inner = at.args[0].single_atom()
                if isinstance(inner, T.App) and inner.op in _INDEX_OPS:
                    out.append((c[0], c[1]))
                    break
                at = inner
            else:
                break
    return out


def check_index_truthiness(ck, rule, inst, site, paths, what="rotated sites"):
    for p in paths:
        bad = index_truthiness(p)
        ck.check(not bad, rule, "%s:emptiness of the %s is decided on their number [%s]" % (inst, what, ",".join("%s=%s" % (c[1][:18], c[2]) for c in p.conds[:2])), bad[0][0] if bad else site,
                 "the branch `%s` tests the truth value of the selected site indices, not whether any site was selected: a selection that holds only site 0 is taken for empty "
                 "(a basis rotated on its first site only is treated as the reference basis)" % (bad[0][1][:60] if bad else ""), key="%s|%s|index truthiness" % (rule, inst))


def some_selected(p, where=""):
    """Did path p decide that a numpy.where(...) selection (made in a function whose site contains `where`) is
    non-empty?  True / False / None (no such decision on the path).  The count is the named dimension nnz<k>@site."""
    # the selections made while `where` was running - in that function itself or in a helper it calls (by call stack, not by the
    # name of the function the call is written in)
    sel_sites = {c[3] for c in getattr(p.interp, "ext_calls", []) if len(c) > 5 and str(c[0]).split(".")[-1] in ("where", "flatnonzero", "nonzero", "argwhere") and (not where or within(c, where))}

    def pred(key):
        if key[0] not in ("eq", "gt"):
            return False
        a, b = key[1], key[2]
        sy = _syms(a) | _syms(b)
        return any(s.startswith("nnz") and (where in s or s.split("@", 1)[-1] in sel_sites) for s in sy) and (a.is_zero() or b.is_zero())

    from ..interp import _cond_key

    res = []
    for c in p.conds:
        t = getattr(c[3] if len(c) > 3 else None, "term", None)
        if t is None:
            continue
        key, flip = _cond_key(t)
        # the same decision taken on the mask itself: any(basis != 'Z') - some site selected; all(basis == 'Z') - none
        if key[0] == "t" and hasattr(key[1], "single_atom") and (not where or where in c[0]):
            a_ = key[1].single_atom()
            if isinstance(a_, T.App) and a_.op in ("any", "all") and hasattr(a_.args[0], "single_atom"):
                m_ = a_.args[0].single_atom()
                if isinstance(m_, T.App) and m_.op in ("cmp_NotEq", "cmp_Eq") and any(x.startswith("lit:") for x in m_.args[1].syms() | m_.args[0].syms()):
                    truth = c[2] != flip
                    if a_.op == "any" and m_.op == "cmp_NotEq":
                        res.append(truth)
                        continue
                    if a_.op == "all" and m_.op == "cmp_Eq":
                        res.append(not truth)
                        continue
        if not pred(key):
            continue
        truth = c[2] != flip
        if key[0] == "eq":
            res.append(not truth)  # count == 0 true -> nothing selected
        else:
            # gt(a, b): count > 0  or  0 > count (impossible for a count)
            res.append(truth if key[2].is_zero() else False)
    if not res:
        return None
    return all(res) if all(res) or not any(res) else None


def affine_arange(e):
    """e = c0 + c1 * arange(...) with a unit-step arange  ->  (first, step, length) as terms, else None.
    arange(a, b, s) - 1 and arange(a - 1, b - 1, s) are the same progression; comparing (first, step, length)
    instead of the spelling keeps both forms decided."""
    ar = [a for a in e.atoms() if isinstance(a, T.App) and a.op == "arange"]
    if len(ar) != 1:
        return None
    A = ar[0]
    c1 = e.coeff_of_atom(A)
    rest = e - T.P(A) * T.const(c1)
    if c1 == 0 or any(isinstance(a, T.App) and a.op == "arange" for a in rest.all_atoms()):
        return None
    args = [T.P(x) for x in A.args]
    if len(args) == 1:
        a, b, s = T.ZERO, args[0], T.ONE
    elif len(args) == 2:
        a, b, s = args[0], args[1], T.ONE
    else:
        a, b, s = args
    sv = s.const_value()
    if sv not in (1, -1):
        return None
    return rest + a * T.const(c1), T.const(c1) * s, (b - a) * s


def argp(env, i):
    """i-th bound parameter of a recorded call (declaration order, receiver included for methods).  Private helpers are
    looked up by position: their parameter names are not part of any interface and may be renamed freely."""
    vals = list(env.values())
    return vals[i] if -len(vals) <= i < len(vals) else None


def loops_enclosing(it, *callee_suffixes):
    """The summarised loops (in whichever function they are written) whose body holds a call resolved to a callee whose
    qualified name ends with one of the suffixes.  Loops are found through what they do, not through the name of the
    function they are written in (a loop moved into a helper is the same loop)."""
    import ast as _ast

    nodes = [n for k, l in it.call_ast.items() if any(k.endswith(sfx) for sfx in callee_suffixes) for n in l]
    out = []
    for l in it.loops:
        nd = l.get("node")
        if nd is not None and any(x is n for n in nodes for x in _ast.walk(nd)) and not any(l is o for o in out):
            out.append(l)
    # innermost only: drop a loop that encloses another candidate
    inner = []
    for l in out:
        if not any((o is not l) and any(x is o["node"] for x in _ast.walk(l["node"])) for o in out):
            inner.append(l)
    return inner


def row_mask_table(mask, arr="bases", lit="lit:'Z'", nsites=2):
    """Truth table of a row mask over an array of letters: for every assignment 'site j holds the literal / does not' of a row
    with `nsites` sites, whether the mask keeps the row.  Complete for masks built from ==, != against the literal, all / any
    along the site axis, logical not, and / or of such masks; None if the term uses anything else."""
    import itertools

    A, L = T.sym(arr), T.sym(lit)

    def ev(t, row):
        """-> ('vec', [bool]*nsites) | ('row', bool) | None"""
        at = t.single_atom() if hasattr(t, "single_atom") else None
        if at is None or not isinstance(at, T.App):
            return None
        if at.op in ("cmp_Eq", "cmp_NotEq") and len(at.args) == 2:
            a, b = at.args
            if {repr(a), repr(b)} == {repr(A), repr(L)}:
                v = list(row) if at.op == "cmp_Eq" else [not x for x in row]
                return ("vec", v)
            return None
        if at.op in ("all", "any", "x:numpy.all", "x:numpy.any") and at.args:
            r = ev(at.args[0], row)
            if r is None or r[0] != "vec":
                return None
            return ("row", all(r[1]) if at.op.endswith("all") else any(r[1]))
        if at.op in ("lnot", "logical_not"):
            r = ev(at.args[0], row)
            if r is None:
                return None
            return (r[0], [not x for x in r[1]]) if r[0] == "vec" else ("row", not r[1])
        if at.op in ("land", "lor", "logical_and", "logical_or", "bitand", "bitor") and len(at.args) == 2:
            r1, r2 = ev(at.args[0], row), ev(at.args[1], row)
            if r1 is None or r2 is None or r1[0] != r2[0]:
                return None
            f = (lambda x, y: x and y) if "and" in at.op else (lambda x, y: x or y)
            return (r1[0], [f(x, y) for x, y in zip(r1[1], r2[1])]) if r1[0] == "vec" else ("row", f(r1[1], r2[1]))
        if at.op in ("eq0",):
            return None
        return None

    table = {}
    for row in itertools.product((True, False), repeat=nsites):
        r = ev(mask, row)
        if r is None or r[0] != "row":
            return None
        table[row] = r[1]
    return table


def vec_dot_normal(t):
    """Normal form for contractions of *vectors* (the caller knows the operands have rank 1): sum(a*b, [-1]) and matmul(a, b)
    are the same number, and the order of the two vectors does not matter.  Everything becomes dot(a, b) with a <= b."""
    if t is None or not hasattr(t, "all_atoms"):
        return t

    def fn(a):
        if isinstance(a, T.App) and a.op == "matmul" and len(a.args) == 2:
            x, y = sorted((a.args[0], a.args[1]), key=repr)
            return T.P(T.App("dot", (x, y)))
        if isinstance(a, T.App) and a.op == "sum" and len(a.args) == 2 and isinstance(a.args[1], (tuple, list)) and tuple(a.args[1]) in ((-1,), (0,)):
            inner = a.args[0]
            total = T.ZERO
            for mono, c in inner.terms.items():
                fs = [(x, pw) for x, pw in mono]
                if len(fs) == 2 and all(pw == 1 for _, pw in fs):
                    x, y = sorted((T.P(fs[0][0]), T.P(fs[1][0])), key=repr)
                elif len(fs) == 1 and fs[0][1] == 2:
                    x = y = T.P(fs[0][0])
                else:
                    return None
                total = total + T.const(c) * T.P(T.App("dot", (x, y)))
            return total
        return None

    return T.subst(t, fn)


def pull_scalars(t, scalars):
    """Bilinearity of dot / matmul: scalar factors (symbols named in `scalars`, and sqrt / powers of them) inside an operand are
    moved in front: dot(P * Z^-1/2, t) -> Z^-1/2 * dot(P, t)."""
    if t is None or not hasattr(t, "all_atoms"):
        return t

    def is_scalar(a):
        if isinstance(a, T.Sym):
            return a.name in scalars
        if isinstance(a, T.App) and a.op in ("sqrt", "group"):
            return bool(T.P(a).syms()) and T.P(a).syms() <= set(scalars)
        return False

    def fn(a):
        if not (isinstance(a, T.App) and a.op in ("dot", "matmul") and len(a.args) == 2):
            return None
        coef = T.ONE
        new = []
        for x in a.args:
            sm = x.single_mono() if hasattr(x, "single_mono") else None
            if sm is None:
                new.append(x)
                continue
            mono, c = sm
            keep = T.const(c)
            for at, pw in mono:
                if is_scalar(at):
                    coef = coef * T.powq(T.P(at), pw)
                else:
                    keep = keep * T.powq(T.P(at), pw)
            new.append(keep)
        if coef == T.ONE:
            return None
        return coef * T.P(T.App(a.op, tuple(new)))

    return T.subst(t, fn)


def batch_reductions(p, batch_syms=("B",), within=None):
    """Reductions (sum, mean, ...) that run over a batch axis: in a row-wise function every row's value may depend on that
    row only, so a reduction over the batch axis mixes the rows.  `within`: only reductions executed while a function whose
    qualified name contains this string is on the call stack."""
    out = []
    for site, op, dims, stack in p.interp.reductions:
        if within is not None and not any(within in q for q in stack):
            continue
        if any(d in batch_syms for d in dims):
            out.append((site, op, dims))
    return out


def occurs_outside(term, name, ops):
    """Does the symbol `name` occur in `term` anywhere that is not underneath an application of one of `ops`?"""
    def walk(x):
        if isinstance(x, T.Poly):
            return any(walk(a) for mono in x.terms for a, _pw in mono)
        if isinstance(x, T.Sym):
            return x.name == name
        if isinstance(x, T.Exp):
            return walk(x.arg)
        if isinstance(x, T.App):
            if x.op in ops:
                return False
            return any(walk(a) for a in x.args)
        if isinstance(x, (tuple, list)):
            return any(walk(a) for a in x)
        return False

    return walk(term)


def uses_part(term, op, k):
    """Is component k (idx0(<op>(...), k)) of a tuple-valued application used anywhere in the term?"""
    for a in term.all_atoms():
        if isinstance(a, T.App) and a.op == "idx0" and a.args[1] == k:
            inner = a.args[0].single_atom() if hasattr(a.args[0], "single_atom") else None
            if inner is not None and isinstance(inner, T.App) and inner.op == op:
                return True
    return False


def drop_bias_broadcast(term, bias_names):
    """A rank-1 parameter (a bias) with size-1 axes put in front of its only axis - or taken away again - broadcasts against a
    batch exactly as the bare parameter does: unsq(d, ax <= -2, ..) and sq(d, ax <= -2) are d.  `bias_names`: the symbols of the
    networks' rank-1 parameters (by the shapes the role table gives).  Used by rules that compare sums in which the same bias
    was wrapped differently on the two sides ((x + d) spread over rows minus (x' + d) spread over columns)."""
    if term is None or not bias_names:
        return term

    def fn(a):
        if isinstance(a, T.App) and a.op in ("unsq", "sq") and len(a.args) >= 2 and isinstance(a.args[1], int) and a.args[1] <= -2 and hasattr(a.args[0], "single_atom"):
            x = a.args[0].single_atom()
            if isinstance(x, T.Sym) and x.name in bias_names:
                return a.args[0]
        return None

    return T.subst(term, fn)
