"""C01 – Born rule for wavefunction states (structure of the defining formulas)."""
from fractions import Fraction

from .. import terms as T
from .common import *  # noqa: F401,F403

WF = ("PositiveWaveFunction", "ComplexWaveFunction")
FORMS = {"batched": ("B", "nv"), "vector": ("nv",)}
Z = lambda: VNum("float", T.sym("Z"), pos=True)  # noqa: E731


def _eval(ck, cls, form, fn):
    """Evaluate fn(it, state, v) in one context; returns (paths)."""
    shape = FORMS[form]

    def th(it):
        s = make_state(it, cls)
        v = tens(it, "v", shape)
        return fn(it, s, v)

    paths = paths_of(ck.program, th)
    ck.note_functions(functions_in_paths(paths))
    return paths


def run(ck):
    prog = ck.program
    for cls in WF:
        for form in FORMS:
            inst = "%s/%s" % (cls, form)
            # ---------------- R1 + R2 + R3 + R6 in one evaluation
            with ck.guard("C01.R1", inst):
                def fn(it, s, v):
                    rbm_am = it.get_attr(s, "rbm_am", None)
                    R = role_terms(it, rbm_am)
                    out = {
                        "amp": call(it, s, "amplitude", v),
                        "prob": call(it, s, "probability", v, Z()),
                        "psi": call(it, s, "psi", v),
                        "phase": call(it, s, "phase", v),
                        "E_am": call(it, rbm_am, "effective_energy", v),
                        "R_am": R,
                    }
                    if "rbm_ph" in state_networks(it, s):
                        rbm_ph = it.get_attr(s, "rbm_ph", None)
                        out["E_ph"] = call(it, rbm_ph, "effective_energy", v)
                        out["R_ph"] = role_terms(it, rbm_ph)
                    return out

                paths = _eval(ck, cls, form, fn)
                for p in returning(paths, inst):
                    # floating-point hazards of rewrites that are exact over the reals (a small catalogue, see interp.numeric)
                    haz = [h for h in p.interp.numeric]
                    ck.check(not haz, "C01.R4", inst + ":no catastrophic cancellation in the energy", haz[0][0] if haz else prog.method("BinaryRBM", "effective_energy").site(),
                             "%s with x = %s: %s, so the energy / amplitude / probability are infinite or NaN where the definition (log(1 + e^x) = x + log(1 + e^-x)) is finite" % (
                                 (haz[0][1], str(haz[0][2])[:80], "exp(x) overflows to inf for x > 709.78" if "overflow" in haz[0][1] else
                                  "in double precision 1 - sigmoid(x) is exactly 0 for x > 36.74 and the logarithm is -inf (hidden pre-activations of that size are ordinary parameter values)") if haz else ("", "", "")))
                    mixed = batch_reductions(p) if form == "batched" else []
                    ck.check(not mixed, "C01.R7", inst + ":each row's value depends on that row only", mixed[0][0] if mixed else prog.method(cls, "amplitude").site(),
                             "%s over the axes %s, which include the batch axis: every row of a batch receives a contribution from all the other rows (the single-vector and one-row forms are unaffected)"
                             % ((mixed[0][1], mixed[0][2]) if mixed else ("", "")))
                    if not shape_err_verdict(ck, "C01.R7", inst, paths):
                        continue
                    o = p.value
                    site = prog.method(cls, "amplitude").site()
                    amp, prob, psi, phase, E = (o[k].term for k in ("amp", "prob", "psi", "phase", "E_am"))
                    # clamps and small additive constants ("for stability") change the value wherever the unnormalised weight is
                    # small or large against them: reported once, then the algebra is decided on the value without them
                    for nm_, tm_ in (("amplitude", amp), ("probability", prob), ("psi", psi), ("phase", phase), ("effective energy", E)):
                        regs = regularisers(tm_)
                        ck.check(not regs, "C01.R1", inst + ":%s is not regularised" % nm_, site, "%s: %s" % (nm_, regulariser_msg(regs) if regs else ""), key="C01.R1|%s|%s regularised" % (cls, nm_))
                    amp, prob, psi, phase, E = (strip_regularisers(x) if x is not None else None for x in (amp, prob, psi, phase, E))
                    ea, ep = exp_arg(amp), exp_arg(prob)
                    # R1: |psi|^2 == p~ == exp(-E_lambda)
                    if ea is None or ep is None:
                        ck.undecided("C01.R1", inst, site, "amplitude/probability are not of the form c*exp(L): %r ; %r" % (amp, prob))
                    else:
                        ca, La, oa = ea
                        cp, Lp, op_ = ep
                        zinv = ((T.Sym("Z"), -1),)
                        ck.check(ca == 1 and oa == (), "C01.R1", inst + ":amp-prefactor", site,
                                 "amplitude has prefactor %s %s" % (ca, oa))
                        ck.check(cp == 1 and op_ == zinv, "C01.R1", inst + ":prob-Z", prog.method(cls, "probability").site(),
                                 "probability must be exp(.)/Z exactly once; got coefficient %s, factors %s" % (cp, op_))
                        d = lin_diff(2 * La, Lp)
                        ck.check(diff_verdict(d), "C01.R1", inst + ":amp^2=prob", site,
                                 "amplitude^2 vs unnormalised probability: " + diff_msg(d), amp=amp, prob=prob)
                        d = lin_diff(Lp, -E)
                        ck.check(diff_verdict(d), "C01.R1", inst + ":prob=exp(-E)", prog.method(cls, "probability").site(),
                                 "log-probability vs -effective_energy(rbm_am): " + diff_msg(d), logp=Lp, E=E)
                    # R4: energy normal form
                    Eref = ref_energy(T.sym("v"), o["R_am"])
                    if form == "vector":
                        Eref = batch_of_one(Eref)
                    d = lin_diff(E, Eref)
                    ck.check(diff_verdict(d), "C01.R4", inst + ":energy", prog.method("BinaryRBM", "effective_energy").site(),
                             "effective energy vs -v.b - sum softplus(W v + c): " + diff_msg(d), E=E)
                    # R2: psi = A (cos phi, sin phi)
                    comps = T.as_stack0(psi)
                    psite = prog.method(cls, "psi").site()
                    if comps is None or len(comps) != 2:
                        ck.undecided("C01.R2", inst, psite, "psi is not a (re, im) pair: %r" % (psi,))
                    else:
                        re, im = comps
                        if cls == "PositiveWaveFunction":
                            ck.check(re == amp, "C01.R2", inst + ":re=amp", psite, "real part of psi differs from amplitude", re=re)
                            ck.check(im.is_zero(), "C01.R2", inst + ":im=0", psite, "imaginary part of a positive wavefunction is not 0: %r" % (im,))
                            ck.check(phase.is_zero(), "C01.R2", inst + ":phase=0", prog.method(cls, "phase").site(),
                                     "phase of a positive wavefunction is not 0: %r" % (phase,))
                        else:
                            _check_polar(ck, inst, psite, re, im, amp, phase)
                    # R3: phase = -E_mu / 2
                    if cls == "ComplexWaveFunction":
                        d = lin_diff(phase, Fraction(-1, 2) * o["E_ph"].term)
                        ck.check(diff_verdict(d), "C01.R3", inst, prog.method(cls, "phase").site(),
                                 "phase vs -effective_energy(rbm_ph)/2: " + diff_msg(d), phase=phase)
                        Eref_ph = ref_energy(T.sym("v"), o["R_ph"])
                        d = lin_diff(o["E_ph"].term, batch_of_one(Eref_ph) if form == "vector" else Eref_ph)
                        ck.check(diff_verdict(d), "C01.R4", inst + ":energy_ph", prog.method("BinaryRBM", "effective_energy").site(),
                                 "phase-network energy: " + diff_msg(d))
                    # R6: dependence sets
                    am = {t.single_atom().name for t in o["R_am"].values()}
                    ph = {t.single_atom().name for t in o.get("R_ph", {}).values()}
                    for nm, term, want in (("amplitude", amp, am | {"v"}), ("probability", prob, am | {"v", "Z"}),
                                           ("phase", phase, (ph | {"v"}) if cls == "ComplexWaveFunction" else set())):
                        got = term.syms()
                        ck.check(got == want, "C01.R6", "%s:%s" % (inst, nm), prog.method(cls, nm).site(),
                                 "dependence set is %s, expected %s" % (sorted(got), sorted(want)), deps=sorted(got))
                    # R7: call-form shapes
                    lead = () if form == "vector" else ("B",)
                    for nm, want in (("amp", lead), ("prob", lead), ("phase", lead), ("psi", (2,) + lead)):
                        got = o[nm].shape
                        ck.check(None if got is None else got == want, "C01.R7", "%s:%s" % (inst, nm), site,
                                 "shape %s, expected %s" % (got, want))
        # ---------------- R5 partition / normalization
        inst = cls
        with ck.guard("C01.R5", inst):
            def th(it):
                s = make_state(it, cls)
                space = tens(it, "space", ("N", "nv"))
                rbm_am = it.get_attr(s, "rbm_am", None)
                return {
                    "norm": call(it, s, "normalization", space),
                    "cnorm": call(it, s, "compute_normalization", space),
                    "part": call(it, rbm_am, "partition", space),
                    "E": call(it, rbm_am, "effective_energy", space),
                    "R_am": role_terms(it, rbm_am),
                }

            paths = paths_of(prog, th, sticky=True, max_paths=80)
            ck.note_functions(functions_in_paths(paths))
            for p in returning(paths, inst):
                if shape_err_verdict(ck, "C01.R5", inst, paths):
                    o = p.value
                    ref = T.app("sum", T.exp(-o["E"].term), (-1,))
                    site = prog.method("BinaryRBM", "partition").site()
                    part = o["part"].term
                    ok = part == ref
                    if not ok:
                        d = lin_diff(part, ref)
                        ck.check(diff_verdict(d), "C01.R5", inst + ":partition", site, "partition vs sum_space exp(-E): " + diff_msg(d), part=part)
                    else:
                        ck.ok("C01.R5", inst + ":partition", site, part=part)
                    ck.check(o["norm"].term == part, "C01.R5", inst + ":normalization", prog.method(cls, "normalization").site(),
                             "normalization(space) is not rbm_am.partition(space)")
                    ck.check(o["cnorm"].term == part, "C01.R5", inst + ":compute_normalization", prog.method(cls, "compute_normalization").site(),
                             "compute_normalization(space) is not normalization(space)")
                    ck.check(shape_is(o["part"], ()), "C01.R5", inst + ":scalar", site, "partition is not a scalar: %s" % (o["part"].shape,))
                    # R6: the normalisation depends on every amplitude parameter (and on nothing of the phase network)
                    am = {t.single_atom().name for t in o["R_am"].values()}
                    got = o["norm"].term.syms() if o["norm"].term is not None else None
                    ck.check(None if got is None else got == am | {"space"}, "C01.R6", inst + ":normalization deps [%s]" % path_tag(p), prog.method(cls, "normalization").site(),
                             "normalization depends on %s; expected exactly %s" % (sorted(got or []), sorted(am | {"space"})))
    # ------------------------------------------------------------------ R8 history independence (two-call protocol)
    from .history import check_history

    for cls in WF:
        for mname, mk in (
            ("psi", lambda it, c: call(it, c[0], "psi", c[1])),
            ("amplitude", lambda it, c: call(it, c[0], "amplitude", c[1])),
            ("phase", lambda it, c: call(it, c[0], "phase", c[1])),
            ("probability", lambda it, c: call(it, c[0], "probability", c[1], Z())),
            ("normalization", lambda it, c: call(it, c[0], "normalization", c[1])),
            ("compute_normalization", lambda it, c: call(it, c[0], "compute_normalization", c[1])),
        ):
            def make(it, cls=cls, mname=mname):
                s = make_state(it, cls)
                x = tens(it, "space", ("N", "nv")) if "normalization" in mname else tens(it, "v", ("B", "nv"))
                return (s, x)

            check_history(ck, "C01.R8", "%s.%s" % (cls, mname), prog.method(cls, mname).site(), make, mk)
    ck.require_min("C01.R8", 12)
    ck.require_min("C01.R1", 16)
    ck.require_min("C01.R2", 8)
    ck.require_min("C01.R3", 2)
    ck.require_min("C01.R4", 6)
    ck.require_min("C01.R5", 8)
    ck.require_min("C01.R6", 12)
    ck.require_min("C01.R7", 16)
    ck.assumptions += [
        "softplus(x) = log sum_{h in {0,1}} exp(h x): the hidden-unit marginal of the Boltzmann weight (trusted identity)",
        "term identities are over the reals; floating-point rounding and overflow of exp are not decided",
        "F.linear, matmul, softplus, exp, sqrt, cos, sin, cat follow the torch semantics encoded in the op tables",
    ]


def _check_polar(ck, inst, site, re, im, amp, phase):
    """re == amp*cos(phase), im == amp*sin(phase) with the same amp / phase terms."""
    want_re = amp * T.cos(phase)
    want_im = amp * T.sin(phase)
    if re == want_re and im == want_im:
        ck.ok("C01.R2", inst + ":polar", site, re=re, im=im)
        return
    # definite diagnoses
    if re == want_im and im == want_re:
        ck.violation("C01.R2", inst + ":polar", site, "cos and sin are swapped between real and imaginary part")
        return
    if re == want_re and im == -want_im:
        ck.violation("C01.R2", inst + ":polar", site, "imaginary part has the wrong sign (psi is conjugated)")
        return
    for nm, got, want in (("re", re, want_re), ("im", im, want_im)):
        q = got * T.inv(amp)
        at = q.single_atom()
        if at is not None and isinstance(at, T.App) and at.op in ("cos", "sin"):
            d = lin_diff(at.args[0], T.rebuild(at.op, [phase]).single_atom().args[0] if not phase.is_zero() else phase)
            if at.op != ("cos" if nm == "re" else "sin"):
                ck.violation("C01.R2", inst + ":polar-" + nm, site, "%s part uses %s" % (nm, at.op))
                return
            if diff_verdict(d) is False:
                ck.violation("C01.R2", inst + ":polar-" + nm, site, "angle of %s part is not phase(v): %s" % (nm, diff_msg(d)))
                return
        if got.syms() != want.syms():
            ck.violation("C01.R2", inst + ":polar-" + nm, site, "%s part depends on %s, expected %s" % (nm, sorted(got.syms()), sorted(want.syms())))
            return
    ck.undecided("C01.R2", inst + ":polar", site, "psi components not recognised: %r ; %r" % (re, im))

