"""C10 – fidelity, KL, NLL: plain real numbers, normalisation exactly once, argument order / signs /
averaging, target and model rotated alike."""
from .. import terms as T
from .common import *  # noqa: F401,F403
from . import api

M = "qucumber.utils.training_statistics"
STATES = api.STATES


def is_plain_real(v):
    """python float / numpy float scalar (np.float64 is a float subclass)."""
    if isinstance(v, VNum) and v.kind in ("float", "npfloat"):
        return True
    if isinstance(v, VConst) and isinstance(v.value, float):
        return True
    if isinstance(v, VTens) and v.kind == "ndarray" and v.shape == ():
        return True  # full numpy reduction yields a numpy scalar
    return False


def z_power(term, zatom):
    """Set of powers with which zatom occurs in the monomials of term (0 if absent)."""
    out = set()
    for mono in term.terms:
        pw = 0
        for a, p in mono:
            if a == zatom:
                pw += p
        out.add(pw)
    return out


def z_degree(term, zatom):
    """Homogeneity degree of `term` in the scalar atom zatom, looking through (multi)linear operations;
    None if the term is not homogeneous in it."""
    from fractions import Fraction

    def deg_atom(a):
        if a == zatom:
            return Fraction(1)
        if isinstance(a, T.Sym):
            return Fraction(0)
        if isinstance(a, T.Exp):
            d = deg_poly(a.arg)
            return Fraction(0) if d == 0 else None
        if isinstance(a, T.App):
            if a.op == "sqrt":
                d = deg_poly(a.args[0])
                return None if d is None else d / 2
            if a.op == "group":
                return deg_poly(a.args[0])
            if a.op == "stack0":
                ds = {deg_poly(x) for x in a.args}
                return ds.pop() if len(ds) == 1 else None
            lin = T.LINEAR.get(a.op)
            if lin:
                tot = Fraction(0)
                for i in lin:
                    d = deg_poly(a.args[i])
                    if d is None:
                        return None
                    tot += d
                return tot
            if a.op in ("npreal", "npimag", "abs", "idx0"):
                return deg_poly(a.args[0])
            ds = [deg_poly(x) for x in a.args if isinstance(x, T.Poly)]
            return Fraction(0) if all(d == 0 for d in ds) else None
        return Fraction(0)

    def deg_poly(p):
        if not isinstance(p, T.Poly):
            return Fraction(0)
        if p.is_zero():
            return Fraction(0)
        ds = set()
        for mono in p.terms:
            tot = Fraction(0)
            for a, pw in mono:
                d = deg_atom(a)
                if d is None:
                    return None
                tot += d * pw
            ds.add(tot)
        return ds.pop() if len(ds) == 1 else None

    return deg_poly(term)


def model_dep(t):
    return any(s.startswith("rbm_") for s in t.syms())


def run(ck):
    prog = ck.program
    ent = dict(api.metric_entries())
    for cls in STATES:
        wf = cls != "DensityMatrix"
        for mname, mfn in ent.items():
            fname = mname.split("/")[0]
            f = prog.func(M, fname)
            inst = "%s/%s" % (mname, cls)
            with ck.guard("C10.R1", inst, f.site()):
                def th(it):
                    s = make_state(it, cls)
                    r = mfn(it, s, wf)
                    Zv = call(it, s, "normalization", tens(it, "space", ("N", "nv")))
                    return r, Zv, s

                paths = paths_of(prog, th, sticky=True, max_paths=80)
                ck.note_functions(functions_in_paths(paths))
                rets = [p for p in paths if p.outcome == "return"]
                ck.check(bool(rets), "C10.R1", inst + ":returns", f.site(), "the metric never returns: %s" % [str(p.value)[:70] for p in paths][:2], key="C10.R1|%s|%s|never-returns" % (fname, cls))
                if "bases" in mname and rets:
                    check_index_truthiness(ck, "C10.R3", inst, f.site(), rets)
                # every code path returns a number: a feasible path that ends in an error raised by the language itself (a missing
                # attribute, an index out of range) is a path on which the metric reports nothing
                for p in paths:
                    if p.outcome == "raise" and getattr(p.value, "definite_bug", False) and rets:
                        ck.violation("C10.R1", inst + ":no path ends in an accidental error [%s]" % _c(p), getattr(p.value, "site", f.site()),
                                     "on this path the metric does not return: %s" % (str(p.value)[:160],), key="C10.R1|%s|%s|accidental-error" % (fname, cls))
                for p in rets:
                    r, Zv, s = p.value
                    pn = _c(p)
                    # ---------------- R1 plain real number
                    if is_plain_real(r):
                        ck.ok("C10.R1", inst + ":plain real number [%s]" % pn, f.site(), kind=getattr(r, "kind", "float"))
                    elif isinstance(r, VTens):
                        ck.violation("C10.R1", inst + ":plain real number [%s]" % pn, f.site(),
                                     "the metric returns a %s of shape %s on this path, not a Python real number" % ("torch.Tensor" if r.kind == "tensor" else "numpy array", r.shape),
                                     key="C10.R1|%s|returns-tensor" % fname)
                    else:
                        ck.undecided("C10.R1", inst + ":plain real number [%s]" % pn, f.site(), "return value %r of unknown kind" % (r,))
                    # ---------------- R2 normalisation exactly once
                    t = getattr(r, "term", None)
                    zat = Zv.term.single_atom() if isinstance(Zv, VTens) and Zv.term is not None else None
                    if t is None or zat is None:
                        continue
                    plogs = [a for a in t.all_atoms() if isinstance(a, T.App) and a.op == "plog" and model_dep(a.args[0])]
                    for a in plogs:
                        pw = z_degree(a.args[0], zat)
                        ck.check(pw == -1, "C10.R2", inst + ":model probabilities divided by Z once [%s]" % pn, f.site(),
                                 "model probabilities inside the logarithm have degree %s in Z (must be exactly -1: divided by Z once)" % pw, arg=a.args[0])
                    if fname == "fidelity" and wf:
                        pw = z_degree(t, zat)
                        ck.check(pw == -1, "C10.R2", inst + ":|<target|psi>|^2 / Z [%s]" % pn, f.site(), "the squared overlap has degree %s in Z (must be exactly -1: psi/sqrt(Z) on one side)" % pw)
                    # ---------------- R3 outer structure
                    if fname == "NLL":
                        _check_nll(ck, inst, f, p, t, mname)
                    if fname == "KL":
                        _check_kl(ck, inst, f, p, t, mname, cls)
                # R2 for the mixed-state fidelity: rho / Z exactly once before leaving torch
                if fname == "fidelity" and not wf:
                    for p in rets:
                        it = p.interp
                        nc = [c for c in p.calls if c[0].endswith("cplx.numpy")]
                        zat = p.value[1].term.single_atom()
                        ok = None  # no model matrix recognised on its way out of torch: undecided
                        for c in nc:
                            a = c[7].get("x")
                            comps = T.as_stack0(a) if a is not None else None
                            if comps is not None and all(model_dep(x) for x in comps):
                                ok = all(z_degree(x, zat) == -1 for x in comps)
                                if not ok and any(n_.startswith(("ret(", "x:", "m:", "unk")) or "ret(" in n_ for x in comps for n_ in x.syms()):
                                    ok = None  # a factor the analyser does not follow (a value handed back by an unmodelled call) may be Z
                        ck.check(ok, "C10.R2", inst + ":rho / Z once", f.site(), "the model density matrix entering the fidelity is not divided by Z exactly once")
    # ------------------------------------------------------------------ R3 pure-state fidelity = |<target|psi>|^2 / Z, by value
    # psi(space) and the normalisation are replaced by symbols (they are C01's matter): what is decided here is how the metric
    # combines them with the target - which parts are multiplied with which, the conjugation, the squared modulus, one division by Z
    fid = prog.func(M, "fidelity")

    def _stub_psi(it, func, env, node):
        o = it.new_tobj("tensor", T.stack0(T.sym("Pr"), T.sym("Pi")), (2, "N"), "fresh")
        o.fw = 64
        return VTens(o)

    def _stub_Z(it, func, env, node):
        o = it.new_tobj("tensor", T.sym("Z"), (), "fresh")
        o.fw = 64
        return VTens(o)

    FSTUBS = {"ComplexWaveFunction.psi": _stub_psi, "PositiveWaveFunction.psi": _stub_psi, "WaveFunctionBase.psi": _stub_psi, "NeuralStateBase.normalization": _stub_Z}
    for cls in ("PositiveWaveFunction", "ComplexWaveFunction"):
        inst = "fidelity/%s:|<target|psi>|^2 / Z" % cls
        with ck.guard("C10.R3", inst, fid.site()):
            def thf(it, cls=cls):
                s = make_state(it, cls)
                return it.call_function(VFunc(fid), [s, api.cx_t(it, "target", ("N",))], {"space": tens(it, "space", ("N", "nv"))}, None)

            for p in returning(paths_of(prog, thf, sticky=True, max_paths=30, stubs=FSTUBS), inst):
                got = getattr(p.value, "term", None)
                tr, ti, Pr, Pi, Z = (T.sym(x) for x in ("targetr", "targeti", "Pr", "Pi", "Z"))
                mm_ = lambda a_, b_: T.app("matmul", a_, b_)  # noqa: E731
                re_ = mm_(tr, Pr) + mm_(ti, Pi)
                im_ = mm_(tr, Pi) - mm_(ti, Pr)
                want = (re_ * re_ + im_ * im_) * T.inv(Z)
                if got is None:
                    ck.undecided("C10.R3", inst + " [%s]" % _c(p), fid.site(), "the fidelity is not a term the analyser can follow")
                    continue
                from .common import vec_dot_normal

                g_ = pull_scalars(vec_dot_normal(got), {"Z"})
                want = vec_dot_normal(want)
                ok = g_ == want or T.ratfun_equal(g_, want)
                if ok:
                    ck.ok("C10.R3", inst + " [%s]" % _c(p), fid.site())
                else:
                    d = lin_diff(g_, want)
                    # both sides are polynomials (over Z) in the four overlaps dot(target part, psi part) of free vectors, which are
                    # algebraically independent: different polynomials are different functions
                    def _plain(a_):
                        return isinstance(a_, T.Sym) or (isinstance(a_, T.App) and a_.op == "dot" and all(hasattr(z, "single_atom") and isinstance(z.single_atom(), T.Sym) for z in a_.args))

                    if d[0] == "unknown" and all(_plain(a_) for a_ in (g_ - want).atoms()):
                        extra = sorted(str(T.P(a_)) for a_ in set(g_.atoms()) - set(want.atoms()))
                        d = ("coeff", "the overlaps", "the polynomial %s" % (str(g_)[:160],), "(tr.Pr + ti.Pi)^2 + (tr.Pi - ti.Pr)^2 over Z" + (" (unexpected overlaps: %s)" % extra if extra else ""))
                    ck.check(diff_verdict(d), "C10.R3", inst + " [%s]" % _c(p), fid.site(),
                             "the pure-state fidelity is not (Re<t|psi>)^2 + (Im<t|psi>)^2 over Z with <t|psi> = sum conj(t) psi: " + diff_msg(d), got=str(g_)[:300])
    # ------------------------------------------------------------------ R3 KL with a per-basis target dictionary: basis b's target meets basis b's model distribution
    # (whatever the order in which the caller lists the bases; the dictionary's insertion order is not the list's order)
    klf = prog.func(M, "KL")
    rp = prog.func("qucumber.utils.unitaries", "rotate_psi")

    def _stub_rot(it, func, env, node):
        b = argp(env, 1)
        given = env.get("psi")
        if given is not None and not (isinstance(given, VConst) and given.value is None):
            return given  # an explicit state is not what this rule is about
        bt_ = getattr(b, "tag", None) or {"XZ": "basisA", "ZX": "basisB"}.get(getattr(b, "value", None), "?")
        o = it.new_tobj("tensor", T.stack0(T.sym("rot[%s]r" % bt_), T.sym("rot[%s]i" % bt_)), (2, "N"), "fresh")
        o.fw = 64
        return VTens(o)

    inst = "KL/dict target, bases listed in another order"
    with ck.guard("C10.R3", inst, klf.site()):
        def thd(it):
            s = make_state(it, "ComplexWaveFunction")
            # two different basis strings (their rotations are summarised: only which target meets which basis matters)
            b1, b2 = VConst("XZ"), VConst("ZX")
            tgt = it.new_dict({"XZ": api.cx_t(it, "tA", ("N",)), "ZX": api.cx_t(it, "tB", ("N",))})
            return it.call_function(VFunc(klf), [s, tgt], {"space": tens(it, "space", ("N", "nv")), "bases": it.new_list([b2, b1])}, None)

        for p in returning(paths_of(prog, thd, sticky=True, max_paths=30, stubs={rp.qualname: _stub_rot}), inst):
            sk = [c for c in p.calls if c[0].endswith("_single_basis_KL")]
            if len(sk) != 2:
                ck.undecided("C10.R3", inst + " [%s]" % _c(p), klf.site(), "expected one single-basis KL per listed basis, found %d" % len(sk))
                continue
            for c in sk:
                a0, a1 = argp(c[7], 0), argp(c[7], 1)
                s0 = a0.syms() if a0 is not None and hasattr(a0, "syms") else set()
                s1 = a1.syms() if a1 is not None and hasattr(a1, "syms") else set()
                tk = {"A" for x in s0 if x.startswith("tA")} | {"B" for x in s0 if x.startswith("tB")}
                mk_ = {"A" for x in s1 if x.startswith("rot[basisA]")} | {"B" for x in s1 if x.startswith("rot[basisB]")}
                ck.check((tk == mk_) if (len(tk) == 1 and len(mk_) == 1) else None, "C10.R3", inst + ":target and model distribution of the same basis [%s]" % _c(p), klf.site(),
                         "the target given for basis %s is compared with the model distribution rotated into basis %s: the dictionary's values are paired with the listed bases by position"
                         % (sorted(tk), sorted(mk_)), key="C10.R3|KL|dict target misaligned")
    # ------------------------------------------------------------------ R3 single-basis KL
    skl = prog.func(M, "_single_basis_KL")
    with ck.guard("C10.R3", "_single_basis_KL", skl.site()):
        def thk(it):
            return it.call_function(VFunc(skl), [tens(it, "t", ("N",)), tens(it, "m", ("N",))], {}, None)

        for p in returning(paths_of(prog, thk), "_single_basis_KL"):
            t_, m_ = T.sym("t"), T.sym("m")
            # sum_x t(x) log t(x) - sum_x t(x) log m(x); a sum of an element-wise product of two vectors is their dot product
            want = T.app("matmul", t_, T.app("plog", t_)) - T.app("matmul", t_, T.app("plog", m_))
            got = p.value.term
            # the trusted logarithm is probs_to_logits: log of the probability clamped at the float64 machine epsilon.  The same written
            # out by hand is the same; a clamp at any other bound (float32's 1.19e-7, 1e-12, ...) changes KL for legitimate small probabilities
            EPS64 = T.const(__import__("fractions").Fraction(2.220446049250313e-16))

            def _plog(a):
                if isinstance(a, T.App) and a.op == "log" and hasattr(a.args[0], "single_atom"):
                    c_ = a.args[0].single_atom()
                    if isinstance(c_, T.App) and c_.op == "clamp" and c_.args[1] == EPS64 and (c_.args[2] is None or c_.args[2] == T.ONE - EPS64):
                        return T.app("plog", c_.args[0])
                return None

            if got is not None and regularisers(got):
                got = T.subst(got, _plog)
                got = unregularised(ck, "C10.R3", "_single_basis_KL", skl.site(), "logarithm argument", got, key="C10.R3|_single_basis_KL|regularised")
                got = T.subst(got, lambda a: T.app("plog", a.args[0]) if isinstance(a, T.App) and a.op == "log" else None)
            if got == want:
                ck.ok("C10.R3", "_single_basis_KL = sum t log t - sum t log m", skl.site())
            else:
                d = lin_diff(got, want)
                if got == -want:
                    d = ("coeff", "both sums", "negated", "sum t log t - sum t log m")
                elif got == T.rename_syms(want, {"t": "m", "m": "t"}):
                    d = ("dep-extra", ["arguments exchanged: computes KL(model || target)"])
                ck.check(diff_verdict(d), "C10.R3", "_single_basis_KL = sum t log t - sum t log m", skl.site(), "single-basis KL: " + diff_msg(d), got=got)
    # ------------------------------------------------------------------ R4 the rotations KL / NLL rely on
    # KL and NLL in a rotated basis are only the named quantities if the rotation is the tensor-product unitary with
    # site 0 leftmost and if U rho U^dagger binds rows/columns correctly: these C04 rules are necessary conditions here.
    from ..core import Checker
    from . import c04

    nb = Checker.__new__(Checker)
    nb.__dict__.update(ck.__dict__)
    nb.results = []
    nb.min_counts = {}
    nb.extra = {}
    try:
        c04.run(nb)
        for r in nb.results:
            if (r.rule.startswith("C04.R2") or r.rule.startswith("C04.R4")) and r.instance != "instance-count":
                r.rule = "C10.R4<-" + r.rule
                ck.results.append(r)
    except Exception as e:
        ck.undecided("C10.R4", "rotation rules", "", "could not evaluate the rotation rules: %s" % e)
    # ------------------------------------------------------------------ R5 history independence (three-call protocol)
    from .history import check_history

    for cls in STATES:
        wf = cls != "DensityMatrix"
        for mname in ("fidelity", "KL", "NLL"):
            if mname == "fidelity" and not wf:
                continue  # leaves torch (numpy eigenvalues): no term to compare
            fn_ = prog.func(M, mname)

            def mk(it, cls=cls, wf=wf, mname=mname):
                s = make_state(it, cls)
                x = tens(it, "samples", ("B", "nv")) if mname == "NLL" else api.cx_t(it, "target", ("N",) if wf else ("N", "N"))
                return (s, x, tens(it, "space", ("N", "nv")))

            check_history(ck, "C10.R5", "%s/%s" % (mname, cls), fn_.site(), mk, lambda it, c, fn_=fn_: it.call_function(VFunc(fn_), [c[0], c[1]], {"space": c[2]}, None), max_paths=40)
    ck.require_min("C10.R5", 7)
    ck.require_min("C10.R1", 20)
    ck.require_min("C10.R2", 10)
    ck.require_min("C10.R3", 12)
    ck.require_min("C10.R4", 4)
    ck.assumptions += [
        "probs_to_logits(p) = log(clamped p) for non-binary probabilities (torch.distributions.utils)",
        "not decided: the Uhlmann formula / eigenvalue computation, ranges [0,1] and >= 0, invariance under a global phase (numeric)",
        "the rotation routines themselves are decided by C04",
    ]


def _c(p):
    return ",".join("%s=%s" % (c[1][:20], c[2]) for c in p.conds[:4])


def _check_nll(ck, inst, f, p, t, mname):
    B = T.sym("B")
    if mname.endswith("no-bases"):
        at = t.single_mono()
        ok = None
        if at is not None:
            mono, c = at
            ok = c == -1 and len(mono) == 1 and isinstance(mono[0][0], T.App) and mono[0][0].op == "mean" and isinstance(mono[0][0].args[0].single_atom(), T.App) and mono[0][0].args[0].single_atom().op == "plog"
            if c == 1 and len(mono) == 1:
                ok = False
            if not ok and len(mono) == 2:
                # the mean written as the sum over the batch divided by its length
                atoms = dict(mono)
                sums = [a for a in atoms if isinstance(a, T.App) and a.op == "sum" and atoms[a] == 1 and a.args[1] in ("all", (-1,)) and isinstance(a.args[0].single_atom(), T.App) and a.args[0].single_atom().op == "plog"]
                if len(sums) == 1 and atoms.get(B.single_atom()) == -1:
                    ok = c == -1
                else:
                    ok = None
            elif not ok and not (c == 1 and len(mono) == 1):
                ok = None  # another shape: not decided
        ck.check(ok, "C10.R3", inst + ":NLL = -mean log p", f.site(), "NLL without bases is %r; expected minus the mean log-probability" % (t,))
        return
    # with bases: (1/len(samples)) * accumulated (-sum log p) over basis groups
    sm = t.single_mono()
    ok = None
    if sm is not None:
        mono, c = sm
        atoms = dict(mono)
        acc = [a for a in atoms if isinstance(a, T.App) and a.op == "accum"]
        if len(acc) == 1 and atoms.get(B.single_atom()) == -1 and c in (1, -1) and len(mono) == 2:
            rest = acc[0].args[3]
            rs = rest.single_mono()
            # -(sum of +sum log p) and +(sum of -sum log p) are the same value: the overall sign is c times the increment's sign
            ok = rs is not None and rs[1] * c == -1 and len(rs[0]) == 1 and isinstance(rs[0][0][0], T.App) and rs[0][0][0].op == "sum" and rs[0][0][0].args[1] in ("all", (-1,))
            if rs is not None and rs[1] * c == 1:
                ok = False
        elif len(acc) == 1 and c == 1 and B.single_atom() not in atoms:
            ck.violation("C10.R3", inst + ":NLL = -(1/N) sum_groups sum log p [%s]" % _c(p), f.site(), "the summed log-likelihood is not divided by the number of samples")
            return
    ck.check(ok, "C10.R3", inst + ":NLL = -(1/N) sum_groups sum log p [%s]" % _c(p), f.site(), "NLL with bases is %r; expected -(1/len(samples)) * sum over basis groups of sum log p" % (str(t)[:300],))
    # grouping idiom as in gradient()
    it = p.interp
    un = [c for c in it.ext_calls if c[0] == "numpy.unique"]
    ck.check((len(un) == 1 and isinstance(un[0][1][0], VTens) and un[0][1][0].term == T.sym("sample_bases")) if un else None, "C10.R3", inst + ":groups = unique bases rows [%s]" % _c(p), f.site(),
             "samples are not grouped by np.unique(sample_bases, axis=0)")
    for c in p.calls:
        if c[0].endswith("rotate_psi_inner_prod") or c[0].endswith("rotate_rho_probs"):
            a = c[7]
            isym = [s for s in (a.get("states").syms() if a.get("states") is not None else []) if s.startswith(("i@", "last@"))]
            bsym = [s for s in (a.get("basis").syms() if a.get("basis") is not None else []) if s.startswith(("i@", "last@"))]
            if isym or bsym:
                # a side on which no group index is visible (another way of selecting the group's rows) is undecided, not wrong
                ck.check((isym == bsym) if (isym and bsym) else None, "C10.R4", inst + ":group's samples rotated with the group's basis", f.site(), "samples of group %s are rotated with the basis of group %s" % (isym, bsym))


def _kl_convention(ck):
    """In which order _single_basis_KL takes (target, model): found once from what it returns for two named distributions."""
    if "_c10_kl_conv" in ck.__dict__:
        return ck.__dict__["_c10_kl_conv"]
    conv = None
    try:
        prog = ck.program
        skl = prog.func(M, "_single_basis_KL")
        ps = [q for q in paths_of(prog, lambda it: it.call_function(VFunc(skl), [tens(it, "t", ("N",)), tens(it, "m", ("N",))], {}, None)) if q.outcome == "return"]
        t_, m_ = T.sym("t"), T.sym("m")
        want = T.app("matmul", t_, T.app("plog", t_)) - T.app("matmul", t_, T.app("plog", m_))
        wsum = T.app("sum", t_ * T.app("plog", t_), "all") - T.app("sum", t_ * T.app("plog", m_), "all")
        gots = {q.value.term for q in ps if getattr(q.value, "term", None) is not None}
        if len(gots) == 1:
            g = gots.pop()
            if g in (want, wsum):
                conv = "target-first"
            elif g in (T.rename_syms(want, {"t": "m", "m": "t"}), T.rename_syms(wsum, {"t": "m", "m": "t"})):
                conv = "model-first"
    except Exception:
        conv = None
    ck.__dict__["_c10_kl_conv"] = conv
    return conv


def _check_kl(ck, inst, f, p, t, mname, cls):
    it = p.interp
    kc = [c for c in p.calls if c[0].endswith("_single_basis_KL")]
    ck.check(len(kc) >= 1, "C10.R3", inst + ":single-basis KL used [%s]" % _c(p), f.site(), "_single_basis_KL is never called")
    for c in kc:
        a = c[7]
        tp, mp = argp(a, 0), argp(a, 1)  # _single_basis_KL(target, model) by position
        if tp is None or mp is None:
            continue
        if model_dep(tp) and not model_dep(mp):
            tp, mp = mp, tp  # roles by value (the target is the distribution that does not depend on the model), not by position
            pos_swapped = True
        else:
            pos_swapped = False
        # both arguments are distributions over the same N basis states
        e_ = c[5]
        sh_t, sh_m = getattr(argp(e_, 0), "shape", None), getattr(argp(e_, 1), "shape", None)
        if sh_t is not None and sh_m is not None:
            ck.check(tuple(sh_t) == tuple(sh_m) and len(sh_t) == 1, "C10.R3", inst + ":target and model distributions over the same basis states [%s]" % _c(p), f.site(),
                     "the single-basis KL compares a target array of shape %s with model probabilities of shape %s: the target's Born distribution has one entry per basis state%s"
                     % (sh_t, sh_m, " (for a density matrix: its diagonal, not |rho_ij|^2)" if len(sh_t) == 2 else ""))
        if mname.endswith("no-bases"):
            tr_, ti_ = T.sym("targetr"), T.sym("targeti")
            want_t = tr_ * tr_ + ti_ * ti_ if cls != "DensityMatrix" else T.app("diagonal", tr_)
            if tp == want_t:
                ck.ok("C10.R3", inst + ":target Born distribution [%s]" % _c(p), f.site(), got=tp)
            elif cls == "DensityMatrix" and tp == tr_ * tr_ + ti_ * ti_:
                ck.violation("C10.R3", inst + ":target Born distribution [%s]" % _c(p), f.site(),
                             "for a density-matrix target the reference-basis distribution is taken as |rho_ij|^2 (all N x N entries) instead of the diagonal of rho")
            else:
                ck.undecided("C10.R3", inst + ":target Born distribution [%s]" % _c(p), f.site(), "target probabilities %r not recognised" % (tp,))
        ok = (not model_dep(tp)) and model_dep(mp) and not pos_swapped
        swapped = pos_swapped
        if swapped:
            tp, mp = mp, tp  # back to positions for the verdict below
        # which argument plays which role is the helper's own matter: decided by what the call returned - the divergence of the
        # model from the target, sum t (log t - log m) with t the distribution that does not depend on the model
        rt_ = c[6] if len(c) > 6 else None
        if rt_ is not None and (ok or swapped):
            t_, m_ = (tp, mp) if ok else (mp, tp)
            fwd = T.app("sum", t_ * T.app("plog", t_), "all") - T.app("sum", t_ * T.app("plog", m_), "all")
            rev = T.app("sum", m_ * T.app("plog", m_), "all") - T.app("sum", m_ * T.app("plog", t_), "all")
            if rt_ == fwd:
                ck.ok("C10.R3", inst + ":KL(target || model) argument order [%s]" % _c(p), f.site())
                continue
            if rt_ == rev:
                ck.violation("C10.R3", inst + ":KL(target || model) argument order [%s]" % _c(p), f.site(),
                             "this call of the single-basis KL returns sum m (log m - log t), the divergence of the target from the model: the divergence is taken in the wrong direction",
                             key="C10.R3|KL|reverse divergence")
                continue
        # what this call returns is not followed: by position then, under the order the routine itself was found to use
        conv_ = _kl_convention(ck)
        if conv_ == "target-first":
            verdict_ = True if ok else (False if swapped else None)
        elif conv_ == "model-first":
            verdict_ = True if swapped else (False if ok else None)
        else:
            verdict_ = True if ok else None
        ck.check(verdict_, "C10.R3", inst + ":KL(target || model) argument order [%s]" % _c(p), f.site(),
                 "the single-basis KL receives its two distributions in the other order than the one it takes them in: the divergence is taken in the wrong direction")
    if mname.endswith("/bases"):
        # same rotation of target and model in each basis
        rots = [c for c in p.calls if c[0].endswith("unitaries.rotate_psi") or c[0].endswith("unitaries.rotate_rho_probs")]
        by = {}
        for c in rots:
            by.setdefault(id(c[5].get("basis")), []).append(c)
        for k, lst in by.items():
            if len(lst) == 2:
                a, b = lst
                same = a[5].get("basis") is b[5].get("basis") and (a[5].get("space") if "space" in a[5] else a[5].get("states")) is (b[5].get("space") if "space" in b[5] else b[5].get("states"))
                explicit = [x for x in lst if not isinstance(x[5].get("psi", x[5].get("rho")), VConst)]
                ck.check(bool(same) and len(explicit) == 1, "C10.R4", inst + ":target and model rotated alike [%s]" % _c(p), f.site(),
                         "target and model are not rotated by the same routine with the same (basis, space)")
        # average over the bases
        rt = p.value[0]
        val = getattr(rt, "from_tensor", None)
        tt = val.term if val is not None else t
        parts = [c[6] for c in kc]
        if tt is not None and parts and all(x is not None for x in parts):
            total = T.ZERO
            for x in parts:
                total = total + x
            n = len(parts)
            okavg = True if tt == total * T.inv(T.const(n)) else (False if tt == total or tt == total * T.inv(T.const(n + 1)) or tt == total * T.inv(T.const(max(n - 1, 1))) and n > 1 else None)
            ck.check(okavg, "C10.R3", inst + ":mean over the bases [%s]" % _c(p), f.site(), "the KL over %d bases is not the sum of the single-basis values divided by %d: %r" % (n, n, str(tt)[:200]))
