"""C03 – training gradients: callability, layout = parameter order, mean divisor, per-basis grouping,
exact negative phase, energy <-> energy-gradient agreement."""
from .. import terms as T
from .common import *  # noqa: F401,F403
from . import api
from ..values import dim_mul, dim_cat
from .c06 import stub_ppg

STATES = api.STATES
RBM_OF = {"PositiveWaveFunction": "BinaryRBM", "ComplexWaveFunction": "BinaryRBM", "DensityMatrix": "PurificationRBM"}


def layout_dim(it, modv):
    return dim_cat([dim_mul(list(q.shape)) for _, q in module_params(it, modv)])


def stub_gradient(it, func, env, node):
    selfv = env.get(func.params[0])
    from ..ctx import grad_dim

    return it.new_list([VTens(it.new_tobj("tensor", T.sym("g_%s" % n), (grad_dim(it, it.get_attr(selfv, n, None)),), "fresh")) for n in state_networks(it, selfv)])


def stub_rotated(it, func, env, node):
    selfv = env.get(func.params[0])
    from ..ctx import grad_dim

    b, s = env.get(func.params[1]), env.get(func.params[2])  # positional: (self, basis, sample)
    bt = b.term if isinstance(b, VTens) and b.term is not None else T.sym("?b")
    st = s.term if isinstance(s, VTens) and s.term is not None else T.sym("?s")
    out = []
    for k, n in enumerate(state_networks(it, selfv)):
        out.append(VTens(it.new_tobj("tensor", T.app("RG%d" % k, bt, st), (grad_dim(it, it.get_attr(selfv, n, None)),), "fresh")))
    return it.new_list(out)


def run(ck):
    prog = ck.program
    # ------------------------------------------------------------------ R1 every public gradient method is callable
    for cls in STATES:
        entries = [(n, f) for n, f in api.state_entries(cls) if n.split("/")[0] in ("gradient", "positive_phase_gradients", "compute_exact_gradients", "compute_batch_gradients", "am_grads", "ph_grads")]
        if cls == "PositiveWaveFunction":
            entries.append(("compute_exact_grads", lambda it, s: call(it, s, "compute_exact_grads", tens(it, "S", ("B", "nv")), tens(it, "space", ("N", "nv")))))
        if cls != "PositiveWaveFunction":
            entries.append(("gradient/1-D sample", lambda it, s: call(it, s, "gradient", tens(it, "S1", ("nv",)), tens(it, "basis1", ("nv",), kind="ndarray"))))
        for name, fn in entries:
            inst = "%s.%s" % (cls, name)
            site = prog.method(cls, name.split("/")[0]).site()
            with ck.guard("C03.R1", inst, site):
                paths = paths_of(prog, lambda it, fn=fn: fn(it, make_state(it, cls)), max_paths=80, sticky=True)
                ck.note_functions(functions_in_paths(paths))
                bugs = [p for p in paths if p.outcome == "raise" and getattr(p.value, "definite_bug", False)]
                rets = [p for p in paths if p.outcome == "return"]
                if bugs:
                    e = bugs[0].value
                    ck.violation("C03.R1", inst + ":callable", e.site, "calling this public gradient method fails: %s: %s" % (e.exc_name, e.msg),
                                 key="C03.R1|%s|unresolved:%s" % (cls + "." + name.split("/")[0], e.msg))
                else:
                    ck.check(bool(rets), "C03.R1", inst + ":callable", site, "no path returns: %s" % [str(p.value)[:80] for p in paths][:2])
                # result: one vector per network (or a complex batch of vectors), of the network's layout
                for p in rets[:3]:
                    it = p.interp
                    items = it.concrete_items(p.value) if isinstance(p.value, VList) else None
                    if items is None:
                        continue
                    sv = [c for c in p.calls if c[1] and isinstance(c[1][0], VObj) and c[1][0].inst.cls is prog.cls(cls)]
                    if not sv:
                        continue
                    s = sv[0][1][0]
                    nets = state_networks(it, s)
                    ck.check(len(items) == len(nets), "C03.R1", inst + ":one gradient per network [%s]" % _c(p), site, "%d gradients returned for %d networks" % (len(items), len(nets)))
                    for n, g in zip(nets, items):
                        if isinstance(g, VTens) and g.term is not None:
                            # the statement allows one regulariser: the 1e-8 added to the rotated probabilities of a mixed state
                            from fractions import Fraction

                            unregularised(ck, "C03.R1", inst, site, "gradient of %s [%s]" % (n, _c(p)), g.term, key="C03.R1|%s|%s|regularised" % (cls, name.split("/")[0]),
                                          allow=(lambda r_: r_[0] == "eps" and abs(float(r_[1]) - 1e-8) < 1e-20) if cls == "DensityMatrix" else None)
                        if isinstance(g, VTens) and g.shape is not None:
                            want = (layout_dim(it, it.get_attr(s, n, None)),)
                            ok = __import__("qsa.values", fromlist=["dims_equal"]).dims_equal(g.shape[0], want[0]) if len(g.shape) == 1 else False  # an unknown length is undecided
                            ck.check(ok, "C03.R2", inst + ":%s gradient has the network's parameter count [%s]" % (n, _c(p)), site, "gradient of %s has shape %s; the network has %s parameters" % (n, g.shape, want))
                    errs = p.interp.shape_errors
                    ck.check(not errs, "C03.R2", inst + ":shapes consistent [%s]" % _c(p), errs[0][0] if errs else site, "shape error with nv, nh, na distinct: %s" % (errs[0][1] if errs else ""))
    # ------------------------------------------------------------------ R2 layout = registration order ; R6 derivative table
    for rbm in ("BinaryRBM", "PurificationRBM"):
        esite = prog.method(rbm, "effective_energy_gradient").site()
        for reduce in (True, False):
            inst = "%s.effective_energy_gradient/reduce=%s" % (rbm, reduce)
            with ck.guard("C03.R2", inst, esite):
                def th(it):
                    m = make_rbm(it, rbm, "rbm_am")
                    v = tens(it, "v", ("B", "nv"))
                    g = call(it, m, "effective_energy_gradient", v, reduce=VConst(reduce))
                    return m, g, role_terms(it, m)

                for p in returning(paths_of(prog, th), inst):
                    shape_err_verdict(ck, "C03.R2", inst, [p])
                    it = p.interp
                    m, g, R = p.value
                    want = layout_dim(it, m)
                    lead = () if reduce else ("B",)
                    ck.check(shape_is(g, lead + (want,)), "C03.R2", inst + ":segments in parameter registration order", esite,
                             "gradient vector layout is %s; the parameters are registered as %s (hidden-major weights first)" % (show(g.shape), show(lead + (want,))), layout=show(g.shape))
                    segs = getattr(g.obj, "segments", None)
                    names = [n for n, _ in module_params(it, m)]
                    if segs is None or len(segs) != len(names):
                        ck.undecided("C03.R6", inst, esite, "gradient is not a concatenation of one segment per parameter")
                        continue
                    v = T.sym("v")
                    ph = T.sigmoid(aff(v, R["W"], R["c"]))
                    exp = {}
                    if reduce:
                        exp["W"] = -T.app("matmul", T.app("t", ph), v)
                        exp["b"] = -T.app("sum", v, (-2,))
                        exp["c"] = -T.app("sum", ph, (-2,))
                    else:
                        exp["W"] = -T.app("einsum2", "...j,...k->...jk", ph, v)
                        exp["b"] = -v
                        exp["c"] = -ph
                    if "U" in R:
                        pa = T.sigmoid(aff(v, R["U"], R["d"]))
                        exp["U"] = -T.app("matmul", T.app("t", pa), v) if reduce else -T.app("einsum2", "...j,...k->...jk", pa, v)
                        exp["d"] = -T.app("sum", pa, (-2,)) if reduce else -pa
                    role_of = {n: r for r, (n, _) in params_by_shape(it, m).items()}
                    for (st, sd), n in zip(segs, names):
                        r = role_of[n]
                        got = _strip_flat(st)
                        w = exp[r]
                        if got == w:
                            ck.ok("C03.R6", "%s:d/d%s" % (inst, n), esite, segment=got)
                        else:
                            d = lin_diff(got, w)
                            ck.check(diff_verdict(d), "C03.R6", "%s:d/d%s" % (inst, n), esite,
                                     "gradient segment of %s vs the derivative of the effective energy (-sigmoid(pre-activation) x v etc.): %s" % (n, diff_msg(d)), got=got, want=w)
    for expand in (True, False):
        for eta in (1, -1):
            inst = "PurificationRBM.gamma_grad/expand=%s/eta=%+d" % (expand, eta)
            gsite = prog.method("PurificationRBM", "gamma_grad").site()
            with ck.guard("C03.R2", inst, gsite):
                def thg(it):
                    m = make_rbm(it, "PurificationRBM", "rbm_am")
                    v, vp = (tens(it, "v", ("Bv", "nv")), tens(it, "vp", ("Bp", "nv"))) if expand else (tens(it, "v", ("B", "nv")), tens(it, "vp", ("B", "nv")))
                    return m, call(it, m, "gamma_grad", v, vp, eta=VConst(eta), expand=VConst(expand))

                for p in returning(paths_of(prog, thg), inst):
                    shape_err_verdict(ck, "C03.R2", inst, [p])
                    m, g = p.value
                    lead = (2, "Bv", "Bp") if expand else (2, "B")
                    want = lead + (layout_dim(p.interp, m),)
                    ck.check(shape_is(g, want), "C03.R2", inst + ":segments in parameter registration order", gsite, "layout %s, expected %s" % (show(g.shape), show(want)))
                    # R6: Gamma-gradient segments are the derivatives of Gamma = (f(v) + sign f(vp))/2, f(x) = x.b + sum softplus(W x + c)
                    it = p.interp
                    R = role_terms(it, m)
                    comps = T.as_stack0(g.term) if g.term is not None else None
                    if comps is None or len(comps) != 2:
                        ck.undecided("C03.R6", inst + ":complex pair", gsite, "gamma_grad is not a (re, im) pair")
                        continue
                    ck.check(comps[1].is_zero(), "C03.R6", inst + ":imaginary part is zero", gsite, "the gradient of the real matrix Gamma has a non-zero imaginary part")
                    at = comps[0].single_atom()
                    names = [n for n, _ in module_params(it, m)]
                    if at is None or not isinstance(at, T.App) or at.op != "cat" or len(at.args[0]) != len(names):
                        ck.undecided("C03.R6", inst + ":segments", gsite, "gamma_grad is not a concatenation of one segment per parameter")
                        continue
                    v, vp = T.sym("v"), T.sym("vp")
                    sg = T.const(eta)
                    if expand:
                        def row(t, rk):
                            return T.app("unsq", t, -rk, rk + 1) if False else T.app("unsq", t, 1 - (rk + 1), rk + 1)

                        def col(t, rk):
                            return T.app("unsq", t, 0 - (rk + 1), rk + 1)
                    else:
                        row = col = lambda t, rk: t  # noqa: E731
                    ph, php = T.sigmoid(aff(v, R["W"], R["c"])), T.sigmoid(aff(vp, R["W"], R["c"]))
                    half = T.Fraction(1, 2)
                    want_seg = {
                        "W": half * (row(T.app("einsum2", "...j,...k->...jk", ph, v), 3) + sg * col(T.app("einsum2", "...j,...k->...jk", php, vp), 3)),
                        "b": half * (row(v, 2) + sg * col(vp, 2)),
                        "c": half * (row(ph, 2) + sg * col(php, 2)),
                        "U": T.ZERO, "d": T.ZERO,
                    }
                    role_of = {n: r for r, (n, _) in params_by_shape(it, m).items()}
                    for st, n in zip(at.args[0], names):
                        got = _strip_flat(st)
                        w = want_seg[role_of[n]]
                        if got == w:
                            ck.ok("C03.R6", "%s:d Gamma/d%s" % (inst, n), gsite)
                        else:
                            d = lin_diff(got, w)
                            ck.check(diff_verdict(d), "C03.R6", "%s:d Gamma/d%s" % (inst, n), gsite, "Gamma-gradient segment of %s vs the derivative of Gamma: %s" % (n, diff_msg(d)), got=got, want=w)
    for phase in (False, True):
        for expand in (True, False):
            inst = "DensityMatrix.pi_grad/phase=%s/expand=%s" % (phase, expand)
            psite = prog.method("DensityMatrix", "pi_grad").site()
            with ck.guard("C03.R2", inst, psite):
                def thp(it):
                    s = make_state(it, "DensityMatrix")
                    v, vp = (tens(it, "v", ("Bv", "nv")), tens(it, "vp", ("Bp", "nv"))) if expand else (tens(it, "v", ("B", "nv")), tens(it, "vp", ("B", "nv")))
                    return s, call(it, s, "pi_grad", v, vp, phase=VConst(phase), expand=VConst(expand))

                for p in returning(paths_of(prog, thp), inst):
                    shape_err_verdict(ck, "C03.R2", inst, [p])
                    s, g = p.value
                    lead = (2, "Bv", "Bp") if expand else (2, "B")
                    want = lead + (layout_dim(p.interp, p.interp.get_attr(s, "rbm_am", None)),)
                    ck.check(shape_is(g, want), "C03.R2", inst + ":segments in parameter registration order", psite, "layout %s, expected %s" % (show(g.shape), show(want)))
    # ---------------- R6 (Pi): the gradient of Pi goes through the sigmoid of Pi's own argument
    for phase in (False, True):
        for expand in (True, False):
            inst = "DensityMatrix.pi_grad/phase=%s/expand=%s" % (phase, expand)
            psite = prog.method("DensityMatrix", "pi_grad").site()
            with ck.guard("C03.R6", inst, psite):
                def thq(it):
                    s = make_state(it, "DensityMatrix")
                    v, vp = (tens(it, "v", ("Bv", "nv")), tens(it, "vp", ("Bp", "nv"))) if expand else (tens(it, "v", ("B", "nv")), tens(it, "vp", ("B", "nv")))
                    Ra_, Rp_ = role_terms(it, it.get_attr(s, "rbm_am", None)), role_terms(it, it.get_attr(s, "rbm_ph", None))
                    g = call(it, s, "pi_grad", v, vp, phase=VConst(phase), expand=VConst(expand))
                    m_ = it.get_attr(s, "rbm_am", None)
                    role_of_ = {n: r for r, (n, _) in params_by_shape(it, m_).items()}
                    return Ra_, Rp_, g, [role_of_[n] for n, _ in module_params(it, m_)]

                for p in returning(paths_of(prog, thq), inst):
                    Ra, Rp, g, order_ = p.value
                    v, vp = T.sym("v"), T.sym("vp")
                    ma, mpa = aff(v, Ra["U"], Ra["d"]), aff(vp, Ra["U"], Ra["d"])
                    mp_, mpp = T.app("matmul", v, T.app("t", Rp["U"])), T.app("matmul", vp, T.app("t", Rp["U"]))
                    if expand:
                        row = lambda t: T.app("unsq", t, -2, 3)  # noqa: E731
                        col = lambda t: T.app("unsq", t, -3, 3)  # noqa: E731
                    else:
                        row = col = lambda t: t  # noqa: E731
                    x_ref = T.Fraction(1, 2) * (row(ma) + col(mpa))
                    f_ref = T.Fraction(1, 2) * (row(mp_) - col(mpp))
                    sc = [c for c in p.calls if c[0].endswith("cplx.sigmoid")]
                    ck.check(len(sc) == 1, "C03.R6", inst + ":one complex sigmoid", psite, "cplx.sigmoid is evaluated %d times" % len(sc))
                    if len(sc) != 1:
                        continue
                    gx, gy = sc[0][7].get("x"), sc[0][7].get("y")
                    # the phase network's auxiliary bias is held at its documented value 0 (C02's quantifier, C20.R5):
                    # compare under that invariant
                    # (only for the paired form expand=False, where the library's own routine carries that bias along; the matrix
                    # form expand=True - the one the training gradient uses - is compared for every value of it)
                    dat = Rp["d"].single_atom()
                    if isinstance(dat, T.Sym) and not expand:
                        gx = T.rename_syms(gx, {dat.name: T.ZERO}) if gx is not None else None
                        gy = T.rename_syms(gy, {dat.name: T.ZERO}) if gy is not None else None
                    bias_ = {t_.single_atom().name for R_ in (Ra, Rp) for r_, t_ in R_.items() if r_ in ("b", "c", "d") and isinstance(t_.single_atom(), T.Sym)}
                    for nm, got, want in (("real", gx, x_ref), ("imaginary", gy, f_ref)):
                        got, want = drop_bias_broadcast(got, bias_), drop_bias_broadcast(want, bias_)
                        d = lin_diff(got, want)
                        ck.check(diff_verdict(d), "C03.R6", inst + ":%s part of the sigmoid argument = Pi's argument" % nm, psite,
                                 "the %s part of the argument of the sigmoid in pi_grad differs from the argument of Pi ((U_am s + d + U_am s' + d)/2 resp. (U_ph s - U_ph s')/2): %s" % (nm, diff_msg(d)), got=got, want=want)
                    es = [c for c in p.interp.ext_calls if c[0] == "torch.einsum" and within(c, "pi_grad")]
                    if len(es) == 1 and len(es[0][1]) == 3:
                        tmp = es[0][1][2].term if isinstance(es[0][1][2], VTens) else None
                        rv, cv = (T.app("unsq", v, -2, 3), T.app("unsq", vp, -3, 3)) if expand else (v, vp)
                        want_t = rv - cv if phase else rv + cv
                        d = lin_diff(tmp, want_t)
                        ck.check(diff_verdict(d), "C03.R6", inst + ":dPi/dU multiplies sigmoid by (s %s s')" % ("-" if phase else "+"), psite, "the configuration factor of the U gradient: " + diff_msg(d), got=tmp)
                    # the segments themselves, by value: dPi/dd = s (the sigmoid; s i for the phase network, whose auxiliary bias has no
                    # gradient), dPi/dU = s (x) (sigma +- sigma') / 2, nothing for W, b, c - "gradients are the NLL gradients" for every
                    # parameter block, not only for the ones the sigmoid argument and the configuration factor decide
                    sig = sc[0][6] if isinstance(sc[0][6], T.Poly) else getattr(sc[0][4], "term", None)
                    sp_ = T.as_stack0(sig) if sig is not None else None
                    if sp_ is None and sig is not None and isinstance(sig.single_atom(), T.App) and sig.single_atom().op in ("where", "x:torch.where"):
                        sp_ = (T.idx0(sig, 0), T.idx0(sig, 1))  # the pair selected elementwise between two pairs
                    comps = T.as_stack0(g.term) if g.term is not None else None
                    if comps is None and g.term is not None:
                        # the pair with its last na entries (the auxiliary-bias segment, when that is the last parameter) overwritten
                        # afterwards: grad[..., -num_aux:] = value
                        ua = g.term.single_atom()
                        if isinstance(ua, T.App) and ua.op == "upd" and T.as_stack0(ua.args[0]) is not None and order_ and order_[-1] == "d" \
                                and tuple(ua.args[1][:1]) == ("ellipsis",) and len(ua.args[1]) == 2 and isinstance(ua.args[1][1], tuple) and ua.args[1][1][0] == "slice" \
                                and ua.args[1][1][1] == -T.sym("na") and ua.args[1][1][2] is None and ua.args[1][1][3] is None and ua.args[2].is_const():
                            newc = []
                            for c_ in T.as_stack0(ua.args[0]):
                                ca_ = c_.single_atom()
                                if isinstance(ca_, T.App) and ca_.op == "cat" and len(ca_.args[0]) == len(order_):
                                    newc.append(T.app("cat", tuple(ca_.args[0][:-1]) + (ua.args[2],), *ca_.args[1:]))
                            if len(newc) == 2:
                                comps = newc
                    if sp_ is None or len(sp_) != 2 or comps is None or len(comps) != 2:
                        ck.undecided("C03.R6", inst + ":segments", psite, "pi_grad or its sigmoid is not a (re, im) pair")
                        continue
                    rv, cv = (T.app("unsq", v, -2, 3), T.app("unsq", vp, -3, 3)) if expand else (v, vp)
                    tmp_w = rv - cv if phase else rv + cv
                    spair = (-sp_[1], sp_[0]) if phase else (sp_[0], sp_[1])
                    for part, comp, sg_ in (("real", comps[0], spair[0]), ("imaginary", comps[1], spair[1])):
                        at = comp.single_atom()
                        if at is None or not isinstance(at, T.App) or at.op != "cat" or len(at.args[0]) != 5:
                            ck.undecided("C03.R6", inst + ":%s part: segments" % part, psite, "pi_grad is not a concatenation of one segment per parameter of the purification network")
                            continue
                        want_seg = {"W": T.ZERO, "b": T.ZERO, "c": T.ZERO, "d": T.ZERO if phase else sg_,
                                    "U": T.Fraction(1, 2) * T.app("einsum2", "...j,...k->...jk", sg_, tmp_w)}
                        for st, r_ in zip(at.args[0], order_):
                            got = _pair_einsum(_strip_flat(st))
                            w = want_seg[r_]
                            if got == w:
                                ck.ok("C03.R6", "%s:%s part:dPi/d%s" % (inst, part, r_), psite)
                            else:
                                d = lin_diff(got, w)
                                ck.check(diff_verdict(d), "C03.R6", "%s:%s part:dPi/d%s" % (inst, part, r_), psite,
                                         "Pi-gradient segment of %s vs the derivative of Pi (sigmoid for the auxiliary bias, sigmoid x (s %s s') / 2 for U, 0 otherwise): %s" % (r_, "-" if phase else "+", diff_msg(d)), got=got, want=w)

    # num_pars equals the layout size
    for rbm in ("BinaryRBM", "PurificationRBM"):
        with ck.guard("C03.R2", rbm + ".num_pars"):
            def thn(it):
                m = make_rbm(it, rbm, "rbm")
                return m, m.inst.attrs.get("num_pars")

            for p in returning(paths_of(prog, thn), rbm):
                m, npars = p.value
                from ..values import dim_size

                ck.check(num_term(npars) == dim_size(layout_dim(p.interp, m)), "C03.R2", rbm + ".num_pars = total parameter count", prog.method(rbm, "__init__").site(),
                         "num_pars is %r; the parameters hold %r values" % (num_term(npars), dim_size(layout_dim(p.interp, m))))
    # ------------------------------------------------------------------ R3 positive phase = gradient / rows
    for cls in STATES:
        psite = prog.method(cls, "positive_phase_gradients").site()
        for wb in ((False,) if cls == "PositiveWaveFunction" else (False, True)):
            inst = "%s.positive_phase_gradients/%s" % (cls, "bases" if wb else "no bases")
            with ck.guard("C03.R3", inst, psite):
                def th(it):
                    s = make_state(it, cls)
                    S = tens(it, "S", ("Bs", "nv"))
                    args = [S] + ([api.bases_arr(it, "bases", "Bs")] if wb else [])
                    return s, S, call(it, s, "positive_phase_gradients", *args)

                for p in returning(paths_of(prog, th, stubs={"NeuralStateBase.gradient": stub_gradient}), inst):
                    it = p.interp
                    s, S, r = p.value
                    nets = state_networks(it, s)
                    items = it.concrete_items(r)
                    gc = [c for c in p.calls if c[0] == "NeuralStateBase.gradient"]
                    # (an override that restates the gradient instead of calling gradient() is not judged through the call)
                    ck.check((len(gc) == 1 and gc[0][5].get("samples").obj is S.obj) if gc else None, "C03.R3", inst + ":gradient of the same batch", psite, "gradient() is not called once on samples_batch")
                    if gc:
                        b = gc[0][5].get("bases")
                        ck.check((isinstance(b, VTens) and b.term == T.sym("bases")) if wb else (isinstance(b, VConst) and b.value is None), "C03.R3", inst + ":bases forwarded", psite, "bases are not forwarded unchanged")
                    ok = items is not None and len(items) == len(nets)
                    ck.check(ok, "C03.R3", inst + ":one vector per network", psite, "result is not one vector per network")
                    if ok and not gc:
                        ck.undecided("C03.R3", inst + ":positive phase restated", psite, "the positive phase is not built from a call of gradient(): its value is the matter of the gradient rules applied to this routine, which is not done")
                    elif ok:
                        for n, g in zip(nets, items):
                            want = T.sym("g_" + n) * T.inv(T.sym("Bs"))
                            d = lin_diff(g.term, want)
                            ck.check(diff_verdict(d), "C03.R3", inst + ":%s = gradient / number of samples" % n, psite, "positive phase of %s: %s" % (n, diff_msg(d)), got=g.term)
    # ------------------------------------------------------------------ R4 per-basis grouping
    gsite = prog.method("NeuralStateBase", "gradient").site()
    for cls in ("ComplexWaveFunction", "DensityMatrix"):
        inst = cls + ".gradient/bases"
        with ck.guard("C03.R4", inst, gsite):
            def th(it):
                s = make_state(it, cls)
                S = tens(it, "S", ("B", "nv"))
                return s, call(it, s, "gradient", S, api.bases_arr(it, "bases", "B"))

            paths = [p for p in paths_of(prog, th, sticky=True, max_paths=20, stubs={cls + ".rotated_gradient": stub_rotated}) if p.outcome == "return"]
            ck.check(len(paths) >= 2, "C03.R4", inst + ":rotated and reference-basis groups", gsite, "expected a path for rotated groups and one for all-Z groups, found %d" % len(paths))
            check_index_truthiness(ck, "C03.R4", inst, gsite, paths)
            for p in paths:
                it = p.interp
                s, r = p.value
                items = it.concrete_items(r)
                # Which rows go with which basis is decided on the values handed to the per-group routines (whatever the
                # grouping idiom): samples X = S[sel] with sel built from the inverse map of unique(B), basis b = unique(B')[k];
                # required: B = B' = the caller's bases (aligned with S), and the same group index on both sides.
                Sx, Bx = T.sym("S"), T.sym("bases")

                def parse_group(bas_t, smp_t):
                    at = smp_t.single_atom() if smp_t is not None else None
                    if at is None or not isinstance(at, T.App) or at.op != "index":
                        return None
                    base, spec = at.args
                    if not spec or not isinstance(spec[0], (tuple, list)) or spec[0][0] != "adv" or any(tuple(x) != ("slice", None, None, None) for x in spec[1:]):
                        return None
                    sel = spec[0][1]
                    sa = sel.single_atom()
                    while sa is not None and isinstance(sa, T.App) and (sa.op in ("nonzero", "flatnonzero", "idx0") or sa.op.endswith("nonzero")) and sa.args:
                        sa = sa.args[0].single_atom() if hasattr(sa.args[0], "single_atom") else None
                    if sa is None or not isinstance(sa, T.App) or sa.op != "cmp_Eq":
                        return None
                    inv, j = sa.args
                    ia = inv.single_atom()
                    if ia is None or not isinstance(ia, T.App) or ia.op != "unique_inverse":
                        inv, j = j, inv
                        ia = inv.single_atom()
                    if ia is None or not isinstance(ia, T.App) or ia.op != "unique_inverse":
                        return None
                    Bq = ia.args[0]
                    Bu = k = None
                    if bas_t is not None:
                        ba = bas_t.single_atom()
                        if ba is not None and isinstance(ba, T.App) and ba.op == "index" and ba.args[0].single_atom() is not None and ba.args[0].single_atom().op == "unique":
                            Bu = ba.args[0].single_atom().args[0]
                            k = ba.args[1][0]
                    return {"S": base, "Bq": Bq, "j": j, "Bu": Bu, "k": k}

                def judge(what, bas_t, smp_t, need_basis=True):
                    smp_t = row_of_broadcast_compare(smp_t)  # membership[k] of a broadcast comparison is the mask (inverse == k)
                    g = parse_group(bas_t, smp_t)
                    name = inst + ":" + what + " [%s]" % _c(p)
                    if g is None and smp_t is not None:
                        atoms = list(smp_t.all_atoms())
                        # samples[inverse != i]: every *other* group's rows
                        if any(isinstance(a_, T.App) and a_.op == "cmp_NotEq" and any(isinstance(b_, T.App) and b_.op == "unique_inverse" for x_ in a_.args if hasattr(x_, "all_atoms") for b_ in x_.all_atoms()) for a_ in atoms):
                            ck.violation("C03.R4", name, gsite, "the group is evaluated on the rows whose inverse index DIFFERS from the group's: the samples of all other bases")
                            return False
                        # rows ordered by np.lexsort(bases.T): lexsort's primary key is the LAST key (the last site), while the groups
                        # of np.unique(bases, axis=0) are ordered with the FIRST site as primary key
                        for a_ in atoms:
                            if isinstance(a_, T.App) and a_.op == "x:numpy.lexsort" and a_.args:
                                k_ = a_.args[0].single_atom() if hasattr(a_.args[0], "single_atom") else None
                                if k_ is not None and isinstance(k_, T.App) and k_.op == "t" and k_.args[0] == Bx and any(isinstance(u_, T.App) and u_.op == "unique" for u_ in (bas_t.all_atoms() if bas_t is not None else [])):
                                    ck.violation("C03.R4", name, gsite, "rows are ordered by np.lexsort(bases.T), whose primary key is the last site, and cut into blocks in the order of np.unique(bases, axis=0), "
                                                 "whose primary key is the first site: with two or more sites the blocks do not hold the rows of their basis")
                                    return False
                    if g is None and smp_t is not None:
                        # rows collected in python lists, one list per group (a dictionary of buckets filled in one pass over the
                        # batch): S[rows, :] with rows = [i for i in <all rows> if <row i belongs to this group>]
                        at_ = smp_t.single_atom()
                        if isinstance(at_, T.App) and at_.op == "index" and at_.args[0] == Sx and at_.args[1] and isinstance(at_.args[1][0], tuple) and at_.args[1][0][0] == "advcomp" \
                                and all(tuple(x) == ("slice", None, None, None) for x in at_.args[1][1:]):
                            sp_ = at_.args[1][0]
                            el_ = sp_[1]
                            own_pos = hasattr(el_, "syms") and len(el_.syms()) == 1 and next(iter(el_.syms())).startswith("i@") and el_ == T.sym(next(iter(el_.syms())))
                            if own_pos and len(sp_) == 3:
                                ck.violation("C03.R4", name, gsite, "the rows handed over for this group are [i for i in <every row of the batch>]: the list of rows is not the group's own - every basis group is "
                                             "evaluated on all rows of the batch (one list object shared by all groups, e.g. dict.fromkeys(keys, []))", key="C03.R4|gradient|groups share one list of rows")
                                return False
                            if own_pos and len(sp_) == 4 and sp_[3] == "bykey":
                                from_key = bas_t is None or any(s_.startswith("arr:key(") or "key(" in s_ for s_ in bas_t.syms())
                                if from_key:
                                    ck.ok("C03.R4", name + " (rows bucketed under the group's own key)", gsite)
                                    return True
                    if g is None or (need_basis and g["Bu"] is None):
                        ck.undecided("C03.R4", name, gsite, "grouping scheme not recognised: samples %s, basis %s" % (str(smp_t)[:120], str(bas_t)[:80]))
                        return False
                    if need_basis and (g["Bu"] != g["Bq"] or g["k"] != g["j"]):
                        ck.violation("C03.R4", name, gsite, "group %r of unique(%s) is evaluated on the samples of group %r of unique(%s): samples and basis of different groups are combined"
                                     % (g["k"], str(g["Bu"])[:60], g["j"], str(g["Bq"])[:60]))
                        return False
                    if g["Bq"] == Bx and g["S"] == Sx:
                        ck.ok("C03.R4", name, gsite)
                        return True
                    if g["S"] == Sx and g["Bq"] != Bx and "bases" in g["Bq"].syms() and not any(isinstance(a_, T.App) and a_.op in ("index", "flip", "roll", "sort", "cat", "x:numpy.lexsort") for a_ in g["Bq"].all_atoms()):
                        # one key per row, computed from the row (no row dropped or moved): the rows of a group are its own when
                        # the key tells the bases apart - which this rule does not decide
                        ck.undecided("C03.R4", name, gsite, "rows are grouped by a key computed row by row from the bases (%s): whether different bases get different keys is not decided" % (str(g["Bq"])[:100],))
                        return False
                    if g["S"] == Sx and g["Bq"] != Bx and "bases" in g["Bq"].syms():
                        ck.violation("C03.R4", name, gsite, "row numbers computed on a filtered / reordered copy of the bases (%s) select rows of the unfiltered samples: the samples no longer go with their own bases"
                                     % (str(g["Bq"])[:100],))
                        return False
                    ck.undecided("C03.R4", name, gsite, "samples %s are grouped by %s: alignment and coverage not recognised" % (str(g["S"])[:80], str(g["Bq"])[:80]))
                    return False

                loops = [l for l in it.loops if "NeuralStateBase.gradient" in l["site"]]
                rotated = some_selected(p, "") is True
                rc = [c for c in p.calls if c[0] == cls + ".rotated_gradient"]
                ec = [c for c in p.calls if c[0].endswith(".effective_energy_gradient") and within(c, "gradient")]
                if rc:
                    a = rc[-1][7]
                    bas, sub = argp(a, 1), argp(a, 2)
                    if judge("rotated group: its basis with its own samples", bas, sub):
                        # one call per analysed iteration (first + generic) of the group loop, in whichever function that loop is written
                        # (the loop that holds the call; a preparatory pass over the batch - filling buckets - is another loop)
                        encl = loops_enclosing(it, ".rotated_gradient")
                        nl = len(encl) if encl else (len(loops) if loops else len([l for l in it.loops if l.get("generic") is not None or True][:1]))
                        ck.check(nl == 1 and len(rc) == 2, "C03.R4", inst + ":one rotated gradient per group", gsite, "rotated_gradient called %d times in the two analysed iterations of %d loops" % (len(rc), nl))
                        for k in range(len(items)):
                            at = items[k].term.single_atom() if items[k].term is not None else None
                            okk = at is not None and isinstance(at, T.App) and at.op == "accum" and at.args[3] == T.app("RG%d" % k, bas, sub)
                            ck.check(bool(okk), "C03.R4", inst + ":contribution %d accumulated into gradient %d" % (k, k), gsite,
                                     "gradient %d accumulates %r; expected the group's contribution number %d" % (k, getattr(at, "args", [None] * 4)[3] if at is not None else items[k].term, k))
                elif ec:
                    sub = argp(ec[-1][7], 1)
                    if sub is not None and sub == Sx and (loops_enclosing(it, ".effective_energy_gradient") or len(ec) >= 2):
                        # inside the loop over the groups the whole batch is handed over: every all-Z group adds the energy gradient
                        # of all rows (rotated ones included) instead of its own rows'
                        ck.violation("C03.R4", inst + ":reference-basis group: its own samples [%s]" % _c(p), gsite,
                                     "inside the loop over the basis groups the reference-basis group's energy gradient is evaluated on the whole batch, not on the group's own rows",
                                     key="C03.R4|gradient|all-Z group on the whole batch")
                    elif judge("reference-basis group: its own samples", None, sub, need_basis=False):
                        # the group's energy gradient is ADDED to what the earlier groups contributed
                        t0 = items[0].term if isinstance(items[0], VTens) else None
                        at0 = t0.single_atom() if t0 is not None else None
                        eg = ec[-1][6]
                        # ... and it is the SUM over the group's rows (the batch gradient is one sum over all rows, divided once by
                        # their number): a group's contribution that carries the inverse of the group's own row count is its mean
                        vz_ = ec[-1][5].get("v")
                        rows_ = None
                        if isinstance(vz_, VTens) and vz_.shape:
                            from ..values import dim_size as _dsz

                            rows_ = _dsz(vz_.shape[0])
                        ra_ = rows_.single_atom() if rows_ is not None else None
                        if ra_ is None and isinstance(vz_, VTens) and vz_.shape and str(vz_.shape[0]) == "?":
                            ra_ = T.sym("dim?").single_atom()  # the group's row count is a size nobody named: `v.shape[0]` of it is this symbol
                            rows_ = T.sym("dim?")
                        if eg is not None and ra_ is not None and len(vz_.shape) == 2:
                            averaged = bool(eg.terms) and all(dict(m_).get(ra_, 0) < 0 for m_ in eg.terms)
                            ck.check(not averaged, "C03.R4", inst + ":all-Z group's energy gradient is summed over its rows [%s]" % _c(p), gsite,
                                     "the reference-basis group contributes its energy gradient divided by the group's own number of rows (%r): a mean per group, where the other groups and the final normalisation need the sum over rows" % (rows_,),
                                     key="C03.R4|%s|all-Z group averaged" % cls)
                        if at0 is not None and isinstance(at0, T.App) and at0.op == "accum" and eg is not None and at0.args[3] == eg:
                            ck.ok("C03.R4", inst + ":all-Z group's energy gradient accumulated [%s]" % _c(p), gsite)
                        elif t0 is not None and eg is not None and (t0 == eg or (at0 is not None and isinstance(at0, T.App) and at0.op == "loop" and at0.args[3] == eg)):
                            ck.violation("C03.R4", inst + ":all-Z group's energy gradient accumulated [%s]" % _c(p), gsite,
                                         "the amplitude gradient after a reference-basis group is that group's energy gradient alone: the contributions of the groups before it are overwritten, not added to")
                        else:
                            ck.undecided("C03.R4", inst + ":all-Z group's energy gradient accumulated [%s]" % _c(p), gsite, "amplitude gradient %s not recognised" % (str(t0)[:160],))
                        at1 = items[1].term.single_atom() if items[1].term is not None else None
                        ck.check(items[1].term is not None and (items[1].term.is_zero() or (at1 is not None and at1.op == "accum" and at1.args[3].is_zero())), "C03.R4", inst + ":all-Z group adds no phase gradient", gsite,
                                 "the phase gradient of a reference-basis group is %r" % (items[1].term,))
                else:
                    ck.undecided("C03.R4", inst + ":groups [%s]" % _c(p), gsite, "no per-group gradient call found on this path")
                if rotated is None:
                    continue
                # the reference-basis literal
                lits = set()
                for c in it.ext_calls:
                    if c[0] in ("numpy.where", "numpy.all", "numpy.any", "numpy.nonzero", "numpy.flatnonzero") and c[1] and isinstance(c[1][0], VTens) and c[1][0].term is not None:
                        lits |= {x for x in c[1][0].term.syms() if x.startswith("lit:")}
                # ... or in the branch conditions themselves (a mask tested with .any() / .all())
                for c_ in p.conds:
                    t_ = getattr(c_[3] if len(c_) > 3 else None, "term", None)
                    if t_ is not None and any(x.startswith("arr:") or x in ("bases",) or x.startswith("val:") for x in t_.syms()) or (t_ is not None and "unique(" in str(t_)):
                        lits |= {x for x in t_.syms() if x.startswith("lit:")}
                ck.check(True if lits == {"lit:'Z'"} else (None if not lits else False), "C03.R4", inst + ":reference basis is 'Z' [%s]" % _c(p), gsite, "rotated sites are found by comparing with %s, expected 'Z'" % sorted(lits))
    # ------------------------------------------------------------------ R5 exact negative phase
    for cls in STATES:
        esite = prog.method(cls, "compute_exact_gradients").site()
        inst = cls + ".compute_exact_gradients"
        with ck.guard("C03.R5", inst, esite):
            def th(it):
                s = make_state(it, cls)
                S, space = tens(it, "S", ("Bs", "nv")), tens(it, "space", ("N", "nv"))
                r = call(it, s, "compute_exact_gradients", S, space)
                am = it.get_attr(s, "rbm_am", None)
                G = call(it, am, "effective_energy_gradient", space, reduce=VConst(False))
                pr = call(it, s, "probability", space)
                return s, r, G, pr

            for p in returning(paths_of(prog, th, sticky=True, stubs={"NeuralStateBase.positive_phase_gradients": stub_ppg}), inst):
                shape_err_verdict(ck, "C03.R5", inst, [p])
                it = p.interp
                s, r, G, pr = p.value
                items = it.concrete_items(r)
                nets = state_networks(it, s)
                ck.check(items is not None and len(items) == len(nets), "C03.R5", inst + ":one gradient per network", esite, "result is not one vector per network")
                if items is None or len(items) != len(nets):
                    continue
                pt = pr.term
                Z = T.app("sum", pt, (-1,))  # probabilities over the space: a vector, reduced over its only axis
                want0 = T.sym("P_rbm_am") - T.app("matmul", T.app("t", G.term), pt * T.inv(Z))
                got0 = items[0].term
                if got0 == want0:
                    ck.ok("C03.R5", inst + ":amplitude = positive - <dE/dlambda>_model", esite)
                else:
                    alt = T.sym("P_rbm_am") + T.app("matmul", T.app("t", G.term), pt * T.inv(Z))
                    un = T.sym("P_rbm_am") - T.app("matmul", T.app("t", G.term), pt)
                    if got0 == alt:
                        ck.violation("C03.R5", inst + ":amplitude = positive - <dE/dlambda>_model", esite, "the exact negative phase is added instead of subtracted")
                    elif got0 == un:
                        ck.violation("C03.R5", inst + ":amplitude = positive - <dE/dlambda>_model", esite, "the exact negative phase uses unnormalised probabilities")
                    elif got0 is not None and got0.syms() != want0.syms():
                        ck.violation("C03.R5", inst + ":amplitude = positive - <dE/dlambda>_model", esite, "the exact gradient depends on %s; expected %s" % (sorted(got0.syms()), sorted(want0.syms())))
                    else:
                        ck.undecided("C03.R5", inst + ":amplitude = positive - <dE/dlambda>_model", esite, "exact gradient %r not recognised" % (got0,))
                if len(items) > 1:
                    ck.check(items[1].term == T.sym("P_rbm_ph"), "C03.R5", inst + ":phase gradient untouched", esite, "the phase gradient is modified by the negative phase: %r" % (items[1].term,))
    # ------------------------------------------------------------------ R7 history independence: every call computes its own gradient, in its own tensors
    from .history import check_history

    for cls in STATES:
        gsite = prog.method(cls, "gradient").site()

        def mk0(it, cls=cls):
            return (make_state(it, cls), tens(it, "S", ("B", "nv")))

        check_history(ck, "C03.R7", cls + ".gradient(samples)", gsite, mk0, lambda it, c: call(it, c[0], "gradient", c[1]), max_paths=40)
        if cls != "PositiveWaveFunction":
            def mk1(it, cls=cls):
                return (make_state(it, cls), tens(it, "S", ("B", "nv")), api.bases_arr(it))

            check_history(ck, "C03.R7", cls + ".gradient(samples, bases)", gsite, mk1, lambda it, c: call(it, c[0], "gradient", c[1], bases=c[2]), max_paths=40)
            check_history(ck, "C03.R7", cls + ".positive_phase_gradients(samples, bases)", prog.method(cls, "positive_phase_gradients").site(), mk1,
                          lambda it, c: call(it, c[0], "positive_phase_gradients", c[1], bases_batch=c[2]), max_paths=40)
    # the exact negative phase (model average over the whole space) is a function of the current parameters and of the space given
    # to this call - of nothing an earlier call left behind
    for cls in STATES:
        esite = prog.method(cls, "compute_exact_gradients").site() if cls != "PositiveWaveFunction" else prog.method(cls, "compute_exact_grads").site()

        def mk2(it, cls=cls):
            return (make_state(it, cls), tens(it, "S", ("B", "nv")), tens(it, "space", ("N", "nv")))

        if cls == "PositiveWaveFunction":
            f2 = lambda it, c: call(it, c[0], "compute_exact_grads", c[1], c[2])  # noqa: E731
        else:
            f2 = lambda it, c: call(it, c[0], "compute_exact_gradients", c[1], c[2])  # noqa: E731
        check_history(ck, "C03.R7", cls + ".exact gradients(samples, space)", esite, mk2, f2, max_paths=40)
    ck.require_min("C03.R7", 10)
    ck.require_min("C03.R1", 40)
    ck.require_min("C03.R2", 30)
    ck.require_min("C03.R3", 15)
    ck.require_min("C03.R4", 12)
    ck.require_min("C03.R5", 6)
    ck.require_min("C03.R6", 16)
    ck.assumptions += [
        "d/dx softplus(x) = sigmoid(x); nn.Module.parameters() yields parameters in first-registration order",
        "not decided: analytic correctness of rotated_gradient / pi_grad (derivatives through the basis rotation and the complex logarithm), the 1e-8 regulariser, finite-difference agreement",
    ]


def show(shape):
    from ..values import show_shape

    return show_shape(shape)


def _pair_einsum(t):
    """idx0(einsum2('c<A>,<B>-><c><O>', stack0(x0, x1), y), k) = einsum2('<A>,<B>-><O>', xk, y): a contraction that carries the
    (re, im) axis of its first operand through unchanged is the contraction of each component."""
    if t is None:
        return None

    def fn(a):
        if isinstance(a, T.App) and a.op == "idx0" and isinstance(a.args[1], int):
            e = a.args[0].single_atom() if hasattr(a.args[0], "single_atom") else None
            if isinstance(e, T.App) and e.op == "einsum2" and isinstance(e.args[0], str) and "->" in e.args[0]:
                ins, out = e.args[0].split("->")
                ab = ins.split(",")
                st = T.as_stack0(e.args[1])
                if st is None:
                    # a pair selected elementwise between two pairs: its components are selections between the components
                    c0_ = T.idx0(e.args[1], a.args[1])
                    ca_ = c0_.single_atom() if hasattr(c0_, "single_atom") else None
                    if not (isinstance(ca_, T.App) and ca_.op == "idx0"):
                        st = {a.args[1]: c0_}
                if len(ab) == 2 and st is not None and ab[0][:1].isalpha() and out[:1] == ab[0][:1] and ab[0][0] not in ab[1] and ab[0][0] not in ab[0][1:] and (a.args[1] in st if isinstance(st, dict) else 0 <= a.args[1] < len(st)):
                    return T.app("einsum2", "%s,%s->%s" % (ab[0][1:], ab[1], out[1:]), st[a.args[1]], e.args[2])
        return None

    return T.subst(t, fn)


def _strip_flat(t):
    """Segment terms are flattened views of the per-parameter gradients: drop the flattening wrapper."""
    if t is None:
        return None
    out = T.ZERO
    for mono, c in t.terms.items():
        if len(mono) == 1 and mono[0][1] == 1 and isinstance(mono[0][0], T.App) and mono[0][0].op in ("view", "flatten_last2"):
            out = out + c * mono[0][0].args[0]
        else:
            out = out + T.Poly({mono: c})
    return out


def _c(p):
    return ",".join("%s=%s" % (c[1][:22], c[2]) for c in p.conds[:3])
