"""C11 – save / load: no side effects, reserved names, writer/reader agreement."""
import ast

from .. import terms as T
from .common import *  # noqa: F401,F403
from . import api

STATES = api.STATES


def _save_paths(ck, cls, meta_builder):
    def th(it):
        s = make_state(it, cls)
        md = meta_builder(it)
        loc = api.basis_str(it)
        r = call(it, s, "save", loc, md) if md is not None else call(it, s, "save", loc)
        return s, md, r

    paths = paths_of(ck.program, th, max_paths=40)
    ck.note_functions(functions_in_paths(paths))
    return paths


def run(ck):
    prog = ck.program
    save = prog.method("NeuralStateBase", "save")
    ssite = save.site()
    for cls in STATES:
        # ------------------------------------------------------------ R1 no side effects
        metas = {
            "non-empty dict": lambda it: it.new_dict({"note": VConst("x"), "epoch": VConst(3)}, origin="param:metadata"),
            "empty dict": lambda it: it.new_dict({}, origin="param:metadata"),
            "None": lambda it: None,
            "dict with unknown keys": lambda it: _unknown_dict(it),
            # a dictionary is a dictionary: keys that are not strings (an epoch number, a tuple) are stored alongside like any other
            "dict with an integer key": lambda it: it.new_dict({10: VConst(0.5), "note": VConst("x")}, origin="param:metadata"),
        }
        for mname, mb in metas.items():
            inst = "%s.save/metadata=%s" % (cls, mname)
            with ck.guard("C11.R1", inst, ssite):
                paths = _save_paths(ck, cls, mb)
                rets = [p for p in paths if p.outcome == "return"]
                if not rets:
                    acc = [p for p in paths if p.outcome == "raise" and getattr(p.value, "exc_name", None) in ("TypeError", "AttributeError", "IndexError", "KeyError") and getattr(p.value, "definite_bug", False)]
                    if acc and len(acc) == len(paths):
                        ck.violation("C11.R1", inst + ":saves", getattr(acc[0].value, "site", ssite) or ssite,
                                     "save() with this metadata always fails with %s (%s): the metadata cannot be stored alongside the state" % (acc[0].value.exc_name, getattr(acc[0].value, "msg", "")),
                                     key="C11.R1|save|%s" % mname)
                    else:
                        ck.undecided("C11.R1", inst, ssite, "save never returns in this context: %s" % [str(p.value) for p in paths][:2])
                    continue
                for p in paths:
                    wr = [e for e in p.effects if "param:metadata" in e.origins and e.kind in ("container", "write", "setattr")]
                    ck.check(not wr, "C11.R1", inst + ":metadata untouched", wr[0].site if wr else ssite,
                             "save modifies the caller's metadata object (%s): saving again with the same dict changes/raises" % (wr[0].detail if wr else ""),
                             key="C11.R1|NeuralStateBase.save|metadata-mutated")
                    sa = [e for e in p.effects if e.kind in ("setattr", "rebind-param") and (e.origins & {"self"} or any(o.startswith("attr:rbm") for o in e.origins))]
                    ck.check(not sa, "C11.R1", inst + ":model attributes untouched", sa[0].site if sa else ssite, "save assigns attribute %s on the model" % (sa[0].detail if sa else ""))
                    pe = api.param_effects(p, include_grad=True)
                    ck.check(not pe, "C11.R1", inst + ":parameters untouched", pe[0].site if pe else ssite, "save changes parameters (%s)" % (pe[0].detail if pe else ""))
                # what is written
                for p in rets:
                    saves = [c for c in p.interp.ext_calls if c[0] == "torch.save"]
                    ck.check(len(saves) == 1, "C11.R3", inst + ":one torch.save", ssite, "save performs %d torch.save calls" % len(saves))
                    if len(saves) != 1:
                        continue
                    data = saves[0][1][0] if saves[0][1] else None
                    if not isinstance(data, VDict) or data.obj.items is None:
                        ck.undecided("C11.R3", inst + ":payload", ssite, "payload of torch.save is not a known dict")
                        continue
                    keys = set(k for k in data.obj.items.keys() if isinstance(k, str))
                    s_obj = p.value[0]
                    nets = state_networks(p.interp, s_obj)
                    want = set(nets)
                    has_ud = "unitary_dict" in s_obj.inst.attrs
                    if has_ud:
                        want.add("unitary_dict")
                    md = p.value[1]
                    if isinstance(md, VDict) and md.obj.items is not None:
                        want |= set(k for k in md.obj.items.keys() if isinstance(k, str) and k != "unitary_dict")
                    ck.check(keys >= want, "C11.R3", inst + ":keys written", ssite, "file lacks keys %s" % sorted(want - keys), keys=sorted(keys))
                    for net in nets:
                        sd = data.obj.items.get(net)
                        okn = isinstance(sd, VDict) and sd.obj.origin == "state_dict"
                        if okn:
                            mv = p.interp.get_attr(s_obj, net, None)
                            pn = [n for n, _ in __import__("qsa.ops_ext", fromlist=["module_params"]).module_params(p.interp, mv)]
                            okn = list(sd.obj.items.keys()) == pn and all(sd.obj.items[n].obj is mv.inst.attrs[n].obj for n in pn)
                        ck.check(okn, "C11.R3", inst + ":%s state_dict" % net, ssite, "entry '%s' of the file is not the state_dict of network %s" % (net, net))
                    if has_ud:
                        ud = data.obj.items.get("unitary_dict")
                        ck.check(ud is s_obj.inst.attrs["unitary_dict"], "C11.R3", inst + ":unitary_dict stored", ssite, "the state's unitary dictionary is not what is stored under 'unitary_dict'")
        # ------------------------------------------------------------ R3 (second save): what is written is the model as it is now
        for how in ("reinitialize_parameters()", "load()"):
            inst = "%s.save after %s and an earlier save" % (cls, how)
            with ck.guard("C11.R3", inst, ssite):
                def th2(it, how=how):
                    s = make_state(it, cls)
                    call(it, s, "save", api.basis_str(it))
                    if how.startswith("reinit"):
                        call(it, s, "reinitialize_parameters")
                    else:
                        call(it, s, "load", api.basis_str(it))
                    n0 = len(it.ext_calls)
                    call(it, s, "save", api.basis_str(it))
                    return s, n0

                for p in [q for q in paths_of(prog, th2, max_paths=40, sticky=True) if q.outcome == "return"]:
                    s_obj, n0 = p.value
                    saves = [c for c in p.interp.ext_calls[n0:] if c[0] == "torch.save"]
                    data = saves[0][1][0] if len(saves) == 1 and saves[0][1] else None
                    if not isinstance(data, VDict) or data.obj.items is None:
                        ck.undecided("C11.R3", inst + ":payload", ssite, "payload of the second torch.save is not a known dict")
                        continue
                    from ..ops_ext import module_params

                    for net in state_networks(p.interp, s_obj):
                        sd = data.obj.items.get(net)
                        mv = p.interp.get_attr(s_obj, net, None)
                        cur = dict(module_params(p.interp, mv))
                        okn = None
                        if isinstance(sd, VDict) and sd.obj.items is not None:
                            okn = list(sd.obj.items.keys()) == list(cur.keys()) and all(isinstance(sd.obj.items[n], VTens) and sd.obj.items[n].obj is cur[n].obj for n in cur)
                        ck.check(okn, "C11.R3", inst + ":%s holds the current parameters" % net, ssite,
                                 "after %s the entry '%s' written by save() holds tensors that are no longer the network's parameters (a state_dict assembled for an earlier save is written again)" % (how, net),
                                 key="C11.R3|save|stale state_dict")
        # ------------------------------------------------------------ R2 reserved names
        def nets_of(cls=cls):
            return ["rbm_am"] if cls == "PositiveWaveFunction" else ["rbm_am", "rbm_ph"]

        reserved = nets_of() + ([] if cls == "PositiveWaveFunction" else ["unitary_dict"])
        # the reserved name may stand anywhere among the caller's entries: first, or after an ordinary one
        for key, first in [(k_, f_) for k_ in reserved for f_ in (True, False)]:
            inst = "%s.save/reserved key %s%s" % (cls, key, "" if first else " after an ordinary entry")
            with ck.guard("C11.R2", inst, ssite):
                paths = _save_paths(ck, cls, lambda it, key=key, first=first: it.new_dict({key: VConst(1), "note": VConst("x")} if first else {"note": VConst("x"), key: VConst(1)}, origin="param:metadata"))
                for p in paths:
                    if p.outcome == "raise" and p.value.exc_name == "ValueError":
                        io = [e for e in p.effects if e.kind == "ext" and "io:save" in e.origins]
                        ck.check(not io, "C11.R2", inst + ":refused before writing", ssite, "the file is written before the reserved key '%s' is refused" % key)
                    else:
                        ck.violation("C11.R2", inst + ":refused before writing", ssite, "metadata containing the reserved key '%s' is accepted (%s)" % (key, p.outcome))
        # ------------------------------------------------------------ R3 load / autoload
        lsite = prog.method(cls, "load").site()
        with ck.guard("C11.R3", cls + ".load", lsite):
            def thl(it):
                s = make_state(it, cls)
                loc = api.basis_str(it)
                call(it, s, "load", loc)
                return s, loc

            paths = paths_of(prog, thl, max_paths=20)
            for p in paths:
                if p.outcome != "return":
                    # a raise on a path on which a membership test found one of the state's own networks absent from what was
                    # read is the rejection of a file save() cannot have written (C11.R2 shows save writes every network)
                    def _net_absent(c):
                        u = c[3] if len(c) > 3 else None
                        ops_ = getattr(u, "operands", None)
                        return (isinstance(u, VUnknown) and u.tag == "in" and ops_ is not None and isinstance(ops_[0], VConst)
                                and ops_[0].value in nets_of() and c[2] is bool(getattr(u, "negated", False)))

                    if not any(_net_absent(c) for c in p.conds):
                        ck.undecided("C11.R3", cls + ".load", lsite, "load raises: %s" % (p.value,))
                    continue
                s_obj, loc = p.value
                nets = state_networks(p.interp, s_obj)
                lcalls = [c for c in p.interp.opaque_log] if hasattr(p.interp, "opaque_log") else []
                loaded = [e for e in p.effects if e.kind == "params" and e.detail == "load_state_dict"]
                per_net = {}
                for e in loaded:
                    for o in e.origins:
                        if o.startswith("attr:"):
                            per_net.setdefault(o[5:].split(".")[0], 0)
                            per_net[o[5:].split(".")[0]] += 1
                ck.check(set(per_net) == set(nets), "C11.R3", cls + ".load:every network restored/" + _c(p), lsite,
                         "load restores networks %s; the state has %s" % (sorted(per_net), nets))
                tl = [c for c in p.interp.ext_calls if c[0] == "torch.load"]
                ck.check(len(tl) == 1 and tl[0][1] and tl[0][1][0] is loc, "C11.R3", cls + ".load:reads the given location/" + _c(p), lsite, "load does not read the given location exactly once")
            if cls != "PositiveWaveFunction":
                # unitary_dict restored when present in the file
                src = ast.unparse(prog.method(cls, "load").node)
                def _restored(p_):
                    """'assigned' (the attribute is bound to what was loaded), 'refilled' (the model's own dictionary emptied, then
                    filled from the file), 'merged' (filled from the file without being emptied first) or None"""
                    if any(e.kind == "setattr" and e.detail == "unitary_dict" for e in p_.effects):
                        return "assigned"
                    own = p_.interp.get_attr(p_.value[0], "unitary_dict", None)
                    own = getattr(own, "obj", None)
                    ops_ = [e.detail for e in p_.effects if e.kind == "container" and own is not None and e.obj is own]
                    if "dict.update" in ops_ or "dict.__setitem__" in ops_ or "dict store" in ops_:
                        first_fill = min(k_ for k_, d_ in enumerate(ops_) if d_ in ("dict.update", "dict.__setitem__", "dict store"))
                        return "refilled" if "dict.clear" in ops_[:first_fill] else "merged"
                    return None

                # what is restored is the file's dictionary: a dictionary that (also) holds entries under names fixed in the code
                # (the defaults X, Y, Z put back in) has entries the file need not have
                for p_ in paths:
                    if p_.outcome != "return":
                        continue
                    ud_ = p_.interp.get_attr(p_.value[0], "unitary_dict", None)
                    if not isinstance(ud_, VDict):
                        continue
                    lits = []
                    if ud_.obj.items:
                        lits = [k_ for k_ in ud_.obj.items if isinstance(k_, str)]
                    src_ = getattr(ud_.obj, "source", None) or getattr(ud_.obj, "comp_src", None)
                    for _k in range(3):  # through .items() / .keys() views and iterators of a dictionary
                        if isinstance(src_, VDict) or src_ is None:
                            break
                        src_ = getattr(src_, "recv", None) or getattr(src_, "source", None) or getattr(src_, "of_dict", None)
                    if not lits and isinstance(src_, VDict) and src_.obj.items:
                        lits = [k_ for k_ in src_.obj.items if isinstance(k_, str)]
                    fixed = any(e.kind == "setattr" and e.detail == "unitary_dict" for e in p_.effects) and bool(lits)
                    if fixed:
                        ck.violation("C11.R3", cls + ".load:unitary_dict restored as saved", lsite,
                                     "after load the model's unitary dictionary holds entries under names fixed in the code (%s): a saved dictionary without them does not come back as it was saved" % sorted(lits)[:4],
                                     key="C11.R3|%s.load|unitary_dict gains entries" % cls)
                        break
                kinds = {id(p): _restored(p) for p in paths if p.outcome == "return"}
                restores = [p for p in paths if p.outcome == "return" and kinds[id(p)] in ("assigned", "refilled")]
                merged = [p for p in paths if p.outcome == "return" and kinds[id(p)] == "merged"]
                if merged and not restores:
                    ck.violation("C11.R3", cls + ".load:unitary_dict restored", lsite,
                                 "load fills the model's own unitary dictionary from the file without emptying it first: unitaries the model has and the file lacks survive the load - "
                                 "the loaded model does not have the saved unitary dictionary", key="C11.R3|%s.load|unitary_dict merged" % cls)
                else:
                    ck.check(bool(restores), "C11.R3", cls + ".load:unitary_dict restored", lsite, "load never assigns the stored unitary dictionary to the state")
                # ... on EVERY path on which the file holds one: the only reason not to assign is a membership test that found none
                for p in paths:
                    if p.outcome != "return" or kinds.get(id(p)) is not None:
                        continue
                    def _says_absent(c):
                        """the condition is a test that found no 'unitary_dict' entry in what was read: a membership test of that
                        key, or an is-None test of what `.get` of that key gave"""
                        if len(c) <= 3 or not isinstance(c[3], VUnknown):
                            return False
                        u = c[3]
                        ops_ = getattr(u, "operands", None)
                        if u.tag == "in":
                            if ops_ is not None and isinstance(ops_[0], VConst) and ops_[0].value != "unitary_dict":
                                return False
                            return c[2] is bool(getattr(u, "negated", False))
                        if u.tag == "is" and ops_ is not None:
                            got = [o for o in ops_ if isinstance(o, VUnknown) and isinstance(getattr(o, "key", None), VConst) and o.key.value == "unitary_dict"]
                            none = [o for o in ops_ if isinstance(o, VConst) and o.value is None]
                            return bool(got and none) and c[2] is (not getattr(u, "negated", False))
                        return False

                    absent = [c for c in p.conds if _says_absent(c)]
                    ck.check(bool(absent), "C11.R3", cls + ".load:unitary_dict restored whenever the file has one/" + _c(p), lsite,
                             "on this path load() leaves the model's own unitary dictionary in place although the file holds one (%s): a saved dictionary with the same names but other matrices "
                             "(a user-redefined X) is not restored" % ", ".join("%s=%s" % (c[1][:40], c[2]) for c in p.conds)[:200], key="C11.R3|%s.load|unitary_dict kept" % cls)
        if cls != "PositiveWaveFunction":
            # load has no side effect outside the model it fills: a model built from a dictionary of the caller's own unitaries
            # holds those very tensors (`.to` of a tensor already in place is the tensor), and so does every other model built
            # from that dictionary - load replaces the model's entries, it does not write into them
            with ck.guard("C11.R3", cls + ".load:caller's unitaries", lsite):
                def thlu(it):
                    ud = it.new_dict({k_: tens(it, "user_" + k_, (2, 2, 2)) for k_ in ("X", "Y", "Z", "Q")}, origin="param:unitary_dict")
                    s = make_state(it, cls, extra_kwargs={"unitary_dict": ud})
                    call(it, s, "load", api.basis_str(it))
                    return s

                for p in paths_of(prog, thlu, max_paths=20):
                    if p.outcome != "return":
                        continue
                    wr = [e for e in p.effects if e.kind == "write" and any(o.startswith("param:user_") for o in e.origins)]
                    ck.check(not wr, "C11.R3", cls + ".load:the caller's unitary tensors are not written/" + _c(p), lsite,
                             "load writes in place into %s, a tensor of the dictionary the model was built from: the caller's dictionary and every other model built from it change with it (%s)"
                             % (sorted({o for e in wr for o in e.origins if o.startswith("param:user_")})[:2], wr[0].site if wr else ""), key="C11.R3|%s.load|caller unitary written" % cls)
        asite = prog.method(cls, "autoload").site()
        with ck.guard("C11.R3", cls + ".autoload", asite):
            af = prog.cls(cls).find_method("autoload")

            def tha(it):
                loc = api.basis_str(it)
                r = it.call_function(VFunc(af), [loc], {"gpu": VConst(False)}, None)
                return r, loc

            paths = paths_of(prog, tha, max_paths=30)
            rets = [p for p in paths if p.outcome == "return"]
            ck.check(bool(rets), "C11.R3", cls + ".autoload:returns", asite, "autoload never returns: %s" % [str(p.value) for p in paths][:2])
            # `location` is documented as "str or file": an open file can be read from its current position once; a second read of
            # the same stream needs a rewind (seek(0)) in between, otherwise torch.load fails on the exhausted stream
            def thfile(it):
                loc = VUnknown("fileobj", "unknown")
                loc.not_none = True
                loc.has_attrs = {"read", "readline", "seek", "tell", "close", "write", "flush", "name", "mode"}
                r = it.call_function(VFunc(af), [loc], {"gpu": VConst(False)}, None)
                return r, loc

            for p in [q for q in paths_of(prog, thfile, max_paths=30) if q.outcome == "return"]:
                ev = []
                for e in p.effects:
                    if e.kind == "ext" and e.detail == "torch.load":
                        ev.append(("read", e.site))
                    elif e.kind == "ext-call" and isinstance(e.detail, tuple) and str(e.detail[1]).endswith(".seek"):
                        ev.append(("seek", e.site))
                reads = [c for c in p.interp.ext_calls if c[0] == "torch.load" and c[1] and c[1][0] is p.value[1]]
                bad = None
                seen_read = False
                for k_, s_ in ev:
                    if k_ == "read":
                        if seen_read:
                            bad = s_
                            break
                        seen_read = True
                    else:
                        seen_read = False
                if len(reads) >= 2:
                    ck.check(bad is None, "C11.R3", cls + ".autoload:a file object is read once, or rewound between reads [%s]" % _c(p), bad or asite,
                             "the given location is passed to torch.load %d times without a rewind in between: with an open file (a documented kind of location) the second read starts at the end of "
                             "the stream and fails, although save(file) and load(file) work" % len(reads), key="C11.R3|%s.autoload|stream-read-twice" % cls)
                else:
                    ck.ok("C11.R3", cls + ".autoload:a file object is read once, or rewound between reads [%s]" % _c(p), asite)
                # where the rewind goes: the stream need not start at offset 0 (a header, another model saved before this one); the second
                # read must start where the first one did, i.e. at a position taken with tell() before the first read
                if len(reads) >= 2 and bad is None:
                    olog = getattr(p.interp, "opaque_log", [])
                    seeks = [o for o in olog if str(o[0]).endswith(".seek")]
                    order = [("read" if (e.kind == "ext" and e.detail == "torch.load") else "tell" if (e.kind == "ext-call" and isinstance(e.detail, tuple) and str(e.detail[1]).endswith(".tell")) else None) for e in p.effects]
                    order = [x for x in order if x]
                    tell_first = bool(order) and order[0] == "tell"
                    verdict = None
                    for o in seeks:
                        a0 = o[1][0] if o[1] else None
                        if isinstance(a0, VConst):
                            verdict = False
                            why_ = "the stream is rewound to the constant position %r" % (a0.value,)
                        elif isinstance(a0, VUnknown) and str(a0.tag).startswith("ret(") and ".tell)" in str(a0.tag) and tell_first and verdict is None:
                            verdict = True
                    ck.check(verdict, "C11.R3", cls + ".autoload:the second read starts where the first one started [%s]" % _c(p), seeks[0][3] if seeks else asite,
                             "%s, not to where the first read began: for an open file positioned after other content (a header, a model saved earlier into the same file) load(file) reads the model at the "
                             "current position but autoload(file) builds its model from that one and then loads the parameters of whatever starts at the constant position"
                             % (why_ if verdict is False else "the position the stream is rewound to was not recognised"), key="C11.R3|%s.autoload|rewind-to-constant" % cls)
            for p in rets:
                if True in cond_truths(p, lambda k: k[0] == "eq" and (k[1].is_zero() or k[2].is_zero()) and any("load[" in x for x in (k[1].syms() | k[2].syms()))):
                    continue  # stored size 0: degenerate file, outside the property
                st, loc = p.value
                ok = isinstance(st, VObj) and st.inst.cls is prog.cls(cls)
                ck.check(ok, "C11.R3", cls + ".autoload:type/" + _c(p), asite, "autoload does not return a %s" % cls)
                if not ok:
                    continue
                am = p.interp.get_attr(st, "rbm_am", None)
                rbmcls = am.inst.cls
                # sizes are read from the lengths of the right stored parameters
                want_src = {"num_visible": ("nv",), "num_hidden": ("nh",)}
                if "num_aux" in am.inst.attrs:
                    want_src["num_aux"] = ("na",)
                ref = _ref_param_shapes(ck, rbmcls.name)
                for attr, shp in want_src.items():
                    v = am.inst.attrs.get(attr)
                    t = num_term(v)
                    nm = None
                    if t is not None and t.single_atom() is not None and isinstance(t.single_atom(), T.Sym):
                        nm = t.single_atom().name
                    # nm looks like  len(load['rbm_am']['visible_bias'])
                    got_param = None
                    if nm and nm.startswith("len(") and "[" in nm:
                        parts = [x.strip("'\"") for x in nm[4:-1].replace("]", "").split("[")[1:]]
                        if len(parts) == 2 and parts[0] == "rbm_am":
                            got_param = parts[1]
                    if got_param is None:
                        ck.undecided("C11.R3", "%s.autoload:%s source" % (cls, attr), asite, "size %s is not read as len(file['rbm_am'][<param>]): %s" % (attr, nm))
                        continue
                    ok2 = ref.get(got_param) == shp
                    ck.check(ok2, "C11.R3", "%s.autoload:%s source" % (cls, attr), asite,
                             "%s is inferred from the length of stored parameter '%s' whose shape is %s, expected a parameter of shape %s" % (attr, got_param, ref.get(got_param), shp))
                if cls != "PositiveWaveFunction":
                    ud = st.inst.attrs.get("unitary_dict")
                    # constructor received file['unitary_dict'] (it is then mapped through .to(device))
                    ctor = [c for c in p.calls if c[0] == cls + ".__init__"]
                    okud = False
                    if ctor:
                        u = ctor[0][5].get("unitary_dict")
                        okud = isinstance(u, VUnknown) and "unitary_dict" in u.tag and u.origin == "load"
                    ck.check(okud, "C11.R3", cls + ".autoload:unitary_dict passed", asite, "autoload does not hand the stored unitary dictionary to the constructor")
                # nothing may touch the parameters after they were loaded
                idx = [i for i, e in enumerate(p.effects) if e.kind == "params" and e.detail == "load_state_dict"]
                after = [e for e in p.effects[(max(idx) + 1 if idx else 0):] if e.kind in ("write", "params", "rebind-param", "meta") and
                         (any(o.startswith("attr:rbm") or o.startswith("load") for o in e.origins) or getattr(getattr(e, "obj", None), "is_parameter", False))]
                ck.check(bool(idx) and not after, "C11.R3", cls + ".autoload:loaded parameters left untouched/" + _c(p), after[0].site if after else asite,
                         "autoload changes a parameter after loading it (%s): the reconstructed model is not bit-identical to the saved one" % (after[0].detail if after else "no load_state_dict seen"))
                lc = [c for c in p.calls if c[0].endswith(".load") and c[0].split(".")[0] in ("NeuralStateBase", cls)]
                if lc:
                    ck.check(len(lc) == 1 and lc[0][5].get("location") is loc, "C11.R3", cls + ".autoload:loads parameters/" + _c(p), asite,
                             "autoload does not call load(location) on the new model")
                else:
                    # the parameters are loaded some other way (the file parsed once, the networks filled from it): by effect - one
                    # load_state_dict per network of the new model
                    nets_ = state_networks(p.interp, st)
                    ck.check(True if len(idx) >= len(nets_) else None, "C11.R3", cls + ".autoload:loads parameters/" + _c(p), asite,
                             "autoload fills %d of the %d networks of the new model from the file" % (len(idx), len(nets_)))
                # whichever way the parameters are loaded: every network receives the file's entry of its own name
                from ..ops_ext import module_params as _mp

                for net in state_networks(p.interp, st):
                    srcs = set()
                    for pn_, q in _mp(p.interp, p.interp.get_attr(st, net, None)):
                        for n_ in (q.obj.term.syms() if q.obj.term is not None else ()):
                            if n_.startswith("loaded:") and n_.count(":") >= 2:
                                srcs.add(n_.split(":", 2)[1])
                    if srcs:
                        ck.check(all("[%s]" % net in t_.replace("'", "").replace('"', "") for t_ in srcs), "C11.R3", cls + ".autoload:%s filled from the file's '%s' entry/%s" % (net, net, _c(p)), asite,
                                 "network %s of the reconstructed model is filled from %s" % (net, sorted(srcs)), key="C11.R3|autoload|wrong entry")
    ck.require_min("C11.R1", 30)
    ck.require_min("C11.R2", 5)
    ck.require_min("C11.R3", 40)
    ck.assumptions += [
        "torch.save / torch.load / state_dict / load_state_dict round-trip tensors bit-identically (third-party semantics, trusted)",
        "state_dict() lists the parameters in registration order under their attribute names",
    ]


def _c(p):
    return ",".join("%s=%s" % (c[1][:20], c[2]) for c in p.conds[-2:])


def _unknown_dict(it):
    d = it.new_dict({"note": VConst("x")}, origin="param:metadata")
    d.obj.extra_unknown = True
    return d


def _ref_param_shapes(ck, rbmcls):
    cache = ck.__dict__.setdefault("_rps", {})
    if rbmcls not in cache:
        def th(it):
            m = make_rbm(it, rbmcls, "rbm")
            from ..ops_ext import module_params

            return {n: p.shape for n, p in module_params(it, m)}

        cache[rbmcls] = single(paths_of(ck.program, th), rbmcls).value
    return cache[rbmcls]
