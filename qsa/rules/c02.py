"""C02 – the density matrix is a physical state: Hermiticity (proved by exchange parity), axis
convention of the matrix-valued functions, diagonal == reported probabilities, energy normal form."""
from fractions import Fraction

from .. import terms as T
from .. import parity
from .common import *  # noqa: F401,F403

DM = "DensityMatrix"


def _ev(ck, fn, max_paths=16):
    def th(it):
        s = make_state(it, DM)
        return fn(it, s)

    paths = paths_of(ck.program, th, max_paths=max_paths)
    ck.note_functions(functions_in_paths(paths))
    return paths


def polar(re, im):
    """Decompose re = A cos(phi), im = A sin(phi) -> (L, phi) with A = exp(L); None if not of that form."""
    def split(t, op):
        sm = t.single_mono()
        if sm is None:
            return None
        mono, c = sm
        L, ang, rest = None, None, []
        for a, pw in mono:
            if isinstance(a, T.Exp) and pw == 1 and L is None:
                L = a.arg
            elif isinstance(a, T.App) and a.op == op and pw == 1 and ang is None:
                ang = a.args[0]
            else:
                rest.append(a)
        if L is None or ang is None or rest or abs(c) != 1:
            return None
        return c, L, ang

    r, i = split(re, "cos"), split(im, "sin")
    if r is None or i is None:
        return None
    cr, Lr, ar = r
    ci, Li, ai = i
    if cr != 1 or Lr != Li:
        return None
    # cos is even: ar == +-phi ; sin odd: im = ci*sin(ai) = sin(ci*ai)
    phi = ai * ci
    if ar != phi and ar != -phi:
        return None
    return Lr, phi


def run(ck):
    prog = ck.program
    rho_site = prog.method(DM, "rho").site()
    contexts = {
        "expand=True/batched": (("Bv", "nv"), ("Bp", "nv"), True),
        "expand=False/batched": (("B", "nv"), ("B", "nv"), False),
        "vector/vector": (("nv",), ("nv",), True),
    }
    # ------------------------------------------------------------------ R1 Hermiticity
    for cname, (sv, svp, expand) in contexts.items():
        inst = "rho/" + cname
        with ck.guard("C02.R1", inst, rho_site):
            paths = _ev(ck, lambda it, s: call(it, s, "rho", tens(it, "v", sv), tens(it, "vp", svp), expand=VConst(expand)))
            for p in returning(paths, inst):
                if not shape_err_verdict(ck, "C02.R2", inst, paths):
                    continue
                comps = T.as_stack0(p.value.term) if p.value.term is not None else None
                if comps is None or len(comps) != 2:
                    ck.undecided("C02.R1", inst, rho_site, "rho is not a (re, im) pair")
                    continue
                re, im = comps
                exp_mode = expand and len(sv) == 2
                pl = polar(re, im)
                if pl is not None:
                    L, phi = pl
                    cl, dl = parity.classify(L, expanded=exp_mode)
                    ck.check(True if cl == "SYM" else (False if cl in ("ANTI", "MIXED", "NEITHER") else None), "C02.R1", inst + ":log|rho| symmetric", rho_site,
                             "log-modulus of rho(s,s') is %s under exchange s<->s' (must be symmetric): %s" % (cl, parity.describe(dl)))
                    cp, dp = parity.classify(phi, expanded=exp_mode)
                    ck.check(True if cp in ("ANTI", "ZERO") else (False if cp in ("SYM", "MIXED", "NEITHER") else None), "C02.R1", inst + ":arg rho antisymmetric", rho_site,
                             "phase of rho(s,s') is %s under exchange s<->s' (must be antisymmetric): %s" % (cp, parity.describe(dp)))
                else:
                    c1, _ = parity.classify(re, expanded=exp_mode)
                    c2, _ = parity.classify(im, expanded=exp_mode)
                    if c1 == "SYM" and c2 in ("ANTI", "ZERO"):
                        ck.ok("C02.R1", inst + ":re sym, im antisym", rho_site)
                    elif c1 == "ANTI" or c2 == "SYM":
                        ck.violation("C02.R1", inst + ":re sym, im antisym", rho_site, "Re rho is %s and Im rho is %s under exchange" % (c1, c2))
                    else:
                        ck.undecided("C02.R1", inst, rho_site, "rho is not of the form A(cos, sin)(phi) and its parts are %s / %s" % (c1, c2))
                # dependence (R3): rho depends on all of rbm_am.{W,U,b,c,d} and rbm_ph.{W,U,b,c}, not on rbm_ph.d
                it0 = p.interp
                want = _param_names(ck, "rho-deps")
                biases_ = {n_ for k_ in ("am", "ph") for r_, n_ in (want or {}).get(k_, {}).items() if r_ in ("b", "c", "d")}
                deps = drop_bias_broadcast(p.value.term, biases_).syms() - {"v", "vp"}
                if want is not None:
                    w_all = set(want["am"].values()) | {n for r, n in want["ph"].items() if r != "d"}
                    ck.check(deps == w_all, "C02.R3", inst + ":deps", rho_site,
                             "rho depends on %s; expected exactly %s" % (sorted(deps), sorted(w_all)), deps=sorted(deps))
    # ------------------------------------------------------------------ R2 axis convention / R4 call forms
    shapes_expected = {
        "pi": (2, "Bv", "Bp"), "rho": (2, "Bv", "Bp"), "gamma+": ("Bv", "Bp"), "gamma-": ("Bv", "Bp"),
        "gamma_grad+": (2, "Bv", "Bp", "P"), "gamma_grad-": (2, "Bv", "Bp", "P"),
        "pi_grad/am": (2, "Bv", "Bp", "P"), "pi_grad/ph": (2, "Bv", "Bp", "P"),
    }

    def matfuncs(it, s, sv, svp, expand):
        v, vp = tens(it, "v", sv), tens(it, "vp", svp)
        am, ph = it.get_attr(s, "rbm_am", None), it.get_attr(s, "rbm_ph", None)
        e = VConst(expand)
        return {
            "__state__": s,
            "pi": call(it, s, "pi", v, vp, expand=e),
            "rho": call(it, s, "rho", v, vp, expand=e),
            "gamma+": call(it, am, "gamma", v, vp, eta=VConst(1), expand=e),
            "gamma-": call(it, ph, "gamma", v, vp, eta=VConst(-1), expand=e),
            "gamma_grad+": call(it, am, "gamma_grad", v, vp, eta=VConst(1), expand=e),
            "gamma_grad-": call(it, ph, "gamma_grad", v, vp, eta=VConst(-1), expand=e),
            "pi_grad/am": call(it, s, "pi_grad", v, vp, phase=VConst(False), expand=e),
            "pi_grad/ph": call(it, s, "pi_grad", v, vp, phase=VConst(True), expand=e),
        }

    with ck.guard("C02.R2", "expand=True"):
        paths = _ev(ck, lambda it, s: matfuncs(it, s, ("Bv", "nv"), ("Bp", "nv"), True))
        for p in returning(paths, "matrix functions"):
            shape_err_verdict(ck, "C02.R2", "expand=True", paths)
            _mx = batch_reductions(p, ("Bv", "Bp", "B"))
            ck.check(not _mx, "C02.R2", "expand=True:each matrix element depends on its own pair of rows only", _mx[0][0] if _mx else rho_site,
                     "%s over the axes %s, which include a batch axis: elements of different rows / columns are mixed" % ((_mx[0][1], _mx[0][2]) if _mx else ("", "")))
            for nm, want in shapes_expected.items():
                got = p.value[nm].shape
                site = _fsite(prog, nm)
                if got is None:
                    ck.undecided("C02.R2", nm, site, "shape unknown")
                    continue
                g2 = tuple("P" if (i == len(got) - 1 and len(want) == len(got) and want[-1] == "P") else d for i, d in enumerate(got))
                ck.check(g2 == want, "C02.R2", nm + ":rows<-v, cols<-vp", site,
                         "expanded result has axes %s; expected %s (row index enumerates v, column index enumerates vp)" % (got, want), shape=str(got))
    for cname, sv, svp, expand, lead in (("expand=False", ("B", "nv"), ("B", "nv"), False, ("B",)), ("vector", ("nv",), ("nv",), False, ())):
        with ck.guard("C02.R4", cname):
            paths = _ev(ck, lambda it, s: matfuncs(it, s, sv, svp, expand))
            for p in returning(paths, cname):
                shape_err_verdict(ck, "C02.R4", cname, paths)
                _mx = batch_reductions(p, ("Bv", "Bp", "B"))
                ck.check(not _mx, "C02.R4", cname + ":each element depends on its own row only", _mx[0][0] if _mx else rho_site,
                         "%s over the axes %s, which include the batch axis: rows of a batch are mixed" % ((_mx[0][1], _mx[0][2]) if _mx else ("", "")))
                for nm, w in shapes_expected.items():
                    got = p.value[nm].shape
                    want = tuple(x for x in w if x not in ("Bv", "Bp", "P"))
                    want = want[:1] + lead if (want and want[0] == 2) else lead
                    if got is None:
                        ck.undecided("C02.R4", "%s/%s" % (nm, cname), _fsite(prog, nm), "shape unknown")
                        continue
                    if w[-1] == "P":
                        got = got[:-1]
                    ck.check(got == want, "C02.R4", "%s/%s" % (nm, cname), _fsite(prog, nm), "result axes %s, expected %s(+params)" % (got, want))
                # values: in every call form  Gamma^(+-)(v, vp) = 1/2 [A(v) +- A(vp)],  A(x) = x.b + sum_j softplus((W x + c)_j)
                it_ = p.interp
                for nm, net, sg in (("gamma+", "rbm_am", 1), ("gamma-", "rbm_ph", -1)):
                    got_t = p.value[nm].term
                    R = role_terms(it_, it_.get_attr(p.value["__state__"], net, None)) if "__state__" in p.value else None
                    if got_t is None or R is None:
                        continue

                    def A(x, R=R):
                        return T.app("matmul", x, R["b"]) + sp_sum(aff(x, R["W"], R["c"]))

                    want_t = (A(T.sym("v")) + sg * A(T.sym("vp"))) * T.Fraction(1, 2)
                    d = lin_diff(got_t, want_t)
                    if got_t == (sg * A(T.sym("v")) + A(T.sym("vp"))) * T.Fraction(1, 2) and sg == -1:
                        d = ("coeff", "A(v), A(vp)", "(-1/2, +1/2)", "(+1/2, -1/2)")
                    ck.check(diff_verdict(d), "C02.R4", "%s/%s:value = 1/2 [A(v) %s A(vp)]" % (nm, cname, "+" if sg > 0 else "-"), _fsite(prog, "gamma+"),
                             "%s in the %s call form: %s" % (nm, cname, diff_msg(d)), got=got_t)
    # ------------------------------------------------------------------ R3 diagonal == probabilities
    with ck.guard("C02.R3", "diagonal"):
        def diag(it, s):
            v = tens(it, "v", ("B", "nv"))
            am = it.get_attr(s, "rbm_am", None)
            return {
                "rho_vv": call(it, s, "rho", v, v, expand=VConst(False)),
                "rho_v": call(it, s, "rho", v, expand=VConst(False)),
                "prob": call(it, s, "probability", v),
                "E": call(it, am, "effective_energy", v),
                "isd": call(it, s, "importance_sampling_denominator", v),
                "R": role_terms(it, am),
                "shapes": role_shapes(it, am, {"v": ("B", "nv")}),
            }

        paths = _ev(ck, diag)
        for p in returning(paths, "diagonal"):
            if shape_err_verdict(ck, "C02.R3", "diagonal", paths):
                o = p.value
                E = o["E"].term
                comps = T.as_stack0(o["rho_vv"].term)
                if comps is None:
                    ck.undecided("C02.R3", "diagonal", rho_site, "rho(v, v, expand=False) is not a pair")
                else:
                    re, im = comps
                    d = None
                    ea = exp_arg(re)
                    if ea is not None and ea[0] == 1 and ea[2] == ():
                        d = lin_diff(ea[1], -E)
                        if d[0] == "unknown":
                            d2 = lin_diff(distribute_cat(ea[1], o["shapes"]), distribute_cat(-E, o["shapes"]))
                            d = d2 if d2[0] != "unknown" else d
                        ck.check(diff_verdict(d), "C02.R3", "diagonal:re=exp(-E)", rho_site,
                                 "log of the diagonal element rho(s,s) vs -effective_energy(s): " + diff_msg(d), diag=ea[1], E=E)
                    else:
                        ck.undecided("C02.R3", "diagonal:re=exp(-E)", rho_site, "diagonal element is not exp(L): %r" % (re,))
                    ck.check(im.is_zero(), "C02.R3", "diagonal:im=0", rho_site, "imaginary part of rho(s,s) is not identically 0: %r" % (im,))
                pr = exp_arg(o["prob"].term)
                ck.check(pr is not None and pr[1] == -E and pr[0] == 1 and pr[2] == (), "C02.R3", "probability=exp(-E)", prog.method(DM, "probability").site(),
                         "probability(v) is not exp(-effective_energy(v))")
                c2 = T.as_stack0(o["rho_v"].term)
                ck.check(c2 is not None and c2[0] == o["prob"].term and c2[1].is_zero(), "C02.R3", "rho(v,expand=False)=probability", rho_site,
                         "rho(v, expand=False) without vp is not (probability(v), 0)")
                c3 = T.as_stack0(o["isd"].term)
                ck.check(c3 is not None and c3[0] == o["prob"].term and c3[1].is_zero(), "C02.R3", "importance_sampling_denominator", prog.method(DM, "importance_sampling_denominator").site(),
                         "importance_sampling_denominator(v) is not (probability(v), 0)")
                # R5 energy normal form
                refE = ref_energy(T.sym("v"), o["R"])
                d = lin_diff(E, refE)
                note = ""
                if d[0] == "unknown":
                    # hidden and auxiliary layer fused into one latent layer (concatenated weights and biases): pushed apart
                    # again where the segment sizes agree - for all sizes, else in the instance num_aux == num_hidden
                    E2 = distribute_cat(E, o["shapes"])
                    if E2 != E and lin_diff(E2, refE)[0] != "unknown":
                        d = lin_diff(E2, refE)
                    else:
                        sizes = {str(sh[0]) for nm_, sh in o["shapes"].items() if nm_ != "v" and len(sh) == 2}
                        if len(sizes) == 2:
                            keep = sorted(sizes)[0]
                            eq = {nm_: tuple(keep if str(x) in sizes else x for x in sh) for nm_, sh in o["shapes"].items()}
                            E3 = distribute_cat(E, eq)
                            pd = pairing_diff(E3, refE) if E3 != E else None
                            if E3 != E and E3 == refE:
                                pass  # equal in that instance only: stays undecided for the other sizes
                            elif pd is not None:
                                d = ("coeff", "the latent layer (instance num_aux == num_hidden)", pd, "each weight matrix with its own layer's bias")
                ck.check(diff_verdict(d), "C02.R5", "effective_energy(v)", prog.method("PurificationRBM", "effective_energy").site(),
                         "purification effective energy vs -v.b - sum sp(Wv+c) - sum sp(Uv+d): " + diff_msg(d), E=E)
    with ck.guard("C02.R5", "effective_energy(v,a)"):
        def ea_(it, s):
            am = it.get_attr(s, "rbm_am", None)
            return call(it, am, "effective_energy", tens(it, "v", ("B", "nv")), tens(it, "a", ("B", mod_dim(am, "num_aux", "na")))), role_terms(it, am)

        paths = _ev(ck, ea_)
        for p in returning(paths, "E(v,a)"):
            if shape_err_verdict(ck, "C02.R5", "effective_energy(v,a)", paths):
                Eva, R = p.value
                v, a = T.sym("v"), T.sym("a")
                ref = -(T.app("matmul", v, R["b"]) + sp_sum(aff(v, R["W"], R["c"])) + T.app("matmul", a, R["d"]) + T.app("einsum3", "...v,av,...a->...", v, R["U"], a))
                d = lin_diff(Eva.term, ref)
                ck.check(diff_verdict(d), "C02.R5", "effective_energy(v,a)", prog.method("PurificationRBM", "effective_energy").site(),
                         "joint energy with explicit auxiliary state: " + diff_msg(d))
    # partition / normalization
    with ck.guard("C02.R5", "partition"):
        def pt(it, s):
            sp = tens(it, "space", ("N", "nv"))
            am = it.get_attr(s, "rbm_am", None)
            return call(it, s, "normalization", sp), call(it, am, "partition", sp), call(it, am, "effective_energy", sp)

        paths = _ev(ck, pt)
        for p in returning(paths, "partition"):
            n, pa, E = p.value
            ck.check(pa.term == T.app("sum", T.exp(-E.term), (-1,)), "C02.R5", "partition=sum exp(-E)", prog.method("PurificationRBM", "partition").site(),
                     "partition is not the sum over the space of exp(-effective_energy)")
            ck.check(n.term == pa.term, "C02.R5", "normalization=partition", prog.method(DM, "normalization").site(), "normalization(space) is not rbm_am.partition(space)")
    # ------------------------------------------------------------------ R7 Pi is the trace over the auxiliary units, entry for entry
    # Pi(s, s') = sum_k log(1 + e^(x_k + i y_k)), x = (theta(s) + theta(s')) / 2 with theta = U_am s + d, y = (U_ph s - U_ph s') / 2:
    #   Re Pi = 1/2 sum_k log(1 + 2 e^x cos y + e^2x)      Im Pi = sum_k atan2(e^x sin y, 1 + e^x cos y)
    # compared by value as polynomials in e^x, cos y, sin y with sin^2 = 1 - cos^2 (a canonical form: the comparison is a decision
    # for results of that shape; any other shape is not decided)
    pi_site = prog.method(DM, "pi").site()
    for cname, (sv, svp, expand) in contexts.items():
        inst = "pi/" + cname
        with ck.guard("C02.R7", inst, pi_site):
            def thpi(it, s, sv=sv, svp=svp, expand=expand):
                v, vp = tens(it, "v", sv), tens(it, "vp", svp)
                return call(it, s, "pi", v, vp, expand=VConst(expand)), role_terms(it, it.get_attr(s, "rbm_am", None)), role_terms(it, it.get_attr(s, "rbm_ph", None))

            for p in returning(_ev(ck, thpi), inst):
                g, Ra, Rp = p.value
                bias_ = {t_.single_atom().name for R_ in (Ra, Rp) for r_, t_ in R_.items() if r_ in ("b", "c", "d") and isinstance(t_.single_atom(), T.Sym)}
                gt_ = drop_bias_broadcast(g.term, bias_) if g.term is not None else None
                comps = T.as_stack0(gt_) if gt_ is not None else None
                if comps is None or len(comps) != 2:
                    ck.undecided("C02.R7", inst, pi_site, "pi is not a (re, im) pair")
                    continue
                v, vp = T.sym("v"), T.sym("vp")
                ma, mpa = aff(v, Ra["U"], Ra["d"]), aff(vp, Ra["U"], Ra["d"])
                mp_, mpp = T.app("matmul", v, T.app("t", Rp["U"])), T.app("matmul", vp, T.app("t", Rp["U"]))
                if expand and len(sv) == 2:
                    row = lambda t: T.app("unsq", t, -2, 3)  # noqa: E731
                    col = lambda t: T.app("unsq", t, -3, 3)  # noqa: E731
                else:
                    row = col = lambda t: t  # noqa: E731
                x = drop_bias_broadcast(Fraction(1, 2) * (row(ma) + col(mpa)), bias_)
                y = drop_bias_broadcast(Fraction(1, 2) * (row(mp_) - col(mpp)), bias_)
                ex = T.exp(x)
                q_want = T.ONE + 2 * ex * T.cos(y) + T.exp(2 * x)
                a_want, b_want = ex * T.sin(y), T.ONE + ex * T.cos(y)
                # the phase network's auxiliary bias is held at its documented value 0
                dat = Rp["d"].single_atom()
                zero_d = (lambda t: T.rename_syms(t, {dat.name: T.ZERO})) if isinstance(dat, T.Sym) else (lambda t: t)
                re_, im_ = zero_d(comps[0]), zero_d(comps[1])
                # real part: c * sum(log(Q)) over the auxiliary axis with Q^(2c) = |1 + e^(x+iy)|^2
                sm = re_.single_mono()
                verdict, why = None, "the real part is not c * sum(log(Q)) over the auxiliary units: %s" % (str(re_)[:160],)
                if sm is not None and len(sm[0]) == 1 and sm[0][0][1] == 1 and isinstance(sm[0][0][0], T.App) and sm[0][0][0].op == "sum" and tuple(sm[0][0][0].args[1]) == (-1,):
                    inner = sm[0][0][0].args[0].single_atom()
                    c_ = sm[1]
                    if isinstance(inner, T.App) and inner.op == "log" and c_ in (Fraction(1, 2), 1):
                        q = inner.args[0] if c_ == Fraction(1, 2) else inner.args[0] * inner.args[0]
                        verdict = T.trig_normal(q) == T.trig_normal(q_want)
                        why = "Re Pi is %s sum_k log(%s); |1 + e^(x+iy)|^2 is 1 + 2 e^x cos y + e^2x: the moduli of the off-diagonal elements differ from the purification's (the matrix is no longer its partial trace, nor positive semidefinite)" % (c_, str(T.trig_normal(inner.args[0]))[:200])
                    elif isinstance(inner, T.App) and inner.op == "softplus" and c_ == 1 and im_.is_zero():
                        verdict, why = None, "softplus form (no phase): not compared"
                ck.check(verdict, "C02.R7", inst + ":Re Pi = 1/2 sum log|1 + e^(x+iy)|^2", pi_site, why)
                sm = im_.single_mono()
                verdict, why = None, "the imaginary part is not sum(atan2(A, B)) over the auxiliary units: %s" % (str(im_)[:160],)
                if sm is not None and len(sm[0]) == 1 and sm[0][0][1] == 1 and isinstance(sm[0][0][0], T.App) and sm[0][0][0].op == "sum" and tuple(sm[0][0][0].args[1]) == (-1,) and abs(sm[1]) == 1:
                    inner = sm[0][0][0].args[0]
                    ism = inner.single_mono()
                    if ism is not None and len(ism[0]) == 1 and ism[0][0][1] == 1 and isinstance(ism[0][0][0], T.App) and ism[0][0][0].op == "atan2" and abs(ism[1]) == 1:
                        sign = sm[1] * ism[1]
                        a_, b_ = ism[0][0][0].args
                        verdict = T.trig_normal(sign * a_) == T.trig_normal(a_want) and T.trig_normal(b_) == T.trig_normal(b_want)
                        why = "Im Pi is sum_k atan2(%s, %s), expected atan2(e^x sin y, 1 + e^x cos y)" % (str(sign * a_)[:120], str(b_)[:120])
                ck.check(verdict, "C02.R7", inst + ":Im Pi = sum arg(1 + e^(x+iy))", pi_site, why)
    ck.require_min("C02.R7", 6)
    # ------------------------------------------------------------------ R6 history independence (two-call protocol)
    from .history import check_history

    def mk2(it):
        s = make_state(it, DM)
        return (s, tens(it, "v", ("B", "nv")), tens(it, "vp", ("B", "nv")), tens(it, "space", ("N", "nv")))

    for mname, fcall in (
        ("rho(v)", lambda it, c: call(it, c[0], "rho", c[1])),
        ("rho(v, vp)", lambda it, c: call(it, c[0], "rho", c[1], c[2])),
        ("rho(v, vp, expand=False)", lambda it, c: call(it, c[0], "rho", c[1], c[2], expand=VConst(False))),
        ("pi(v, vp)", lambda it, c: call(it, c[0], "pi", c[1], c[2])),
        ("probability", lambda it, c: call(it, c[0], "probability", c[1], VNum("float", T.sym("Z"), pos=True))),
        ("normalization", lambda it, c: call(it, c[0], "normalization", c[3])),
        ("importance_sampling_numerator", lambda it, c: call(it, c[0], "importance_sampling_numerator", c[1], c[2])),
        ("importance_sampling_denominator", lambda it, c: call(it, c[0], "importance_sampling_denominator", c[1])),
    ):
        check_history(ck, "C02.R6", DM + "." + mname, rho_site, mk2, fcall)
    ck.require_min("C02.R6", 8)
    ck.require_min("C02.R1", 6)
    ck.require_min("C02.R2", 8)
    ck.require_min("C02.R3", 8)
    ck.require_min("C02.R4", 16)
    ck.require_min("C02.R5", 4)
    ck.assumptions += [
        "Hermiticity is proved as an identity of normal forms under the exchange s<->s'; positive semidefiniteness and entry-wise equality with the partial trace of the purification are not decided",
        "identities used: cos even, sin/atan2 odd, 1+2e^x+e^{2x}=(1+e^x)^2, log(1+e^x)=softplus(x), atan2(0,b)=0 for b>0",
    ]


def _param_names(ck, what):
    _PN = ck.__dict__.setdefault("_pn_cache", {})
    if "v" not in _PN:
        def th(it):
            s = make_state(it, DM)
            out = {}
            for net, key in (("rbm_am", "am"), ("rbm_ph", "ph")):
                m = it.get_attr(s, net, None)
                out[key] = {r: t.single_atom().name for r, t in role_terms(it, m).items()}
            return out

        try:
            _PN["v"] = single(paths_of(ck.program, th), what).value
        except Exception:
            _PN["v"] = None
    return _PN["v"]


def _fsite(prog, nm):
    base = nm.split("/")[0].rstrip("+-")
    if base in ("gamma", "gamma_grad"):
        return prog.method("PurificationRBM", base).site()
    return prog.method(DM, base).site()
