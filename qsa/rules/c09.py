"""C09 – swap estimator: batch untouched, correct exchange on region A, cyclic pairing, weights."""
from .. import terms as T
from .common import *  # noqa: F401,F403
from . import api

ENT = "qucumber.observables.entanglement"
CPLX = "qucumber.utils.cplx"
REGIONS = {
    "int": lambda it: VConst(1),
    "list": lambda it: it.new_list([VConst(0), VConst(2)]),
    "unknown-kind": lambda it: _unk("A"),
}


def _unk(tag):
    u = VUnknown(tag, "unknown")
    u.not_none = True
    return u


def _same_sites(a, b):
    """two index-spec items naming the same sites: an integer k and the advanced index [k] select the same column(s)"""
    def norm(x):
        if isinstance(x, (tuple, list)) and len(x) == 2 and x[0] == "advlist":
            return ("l", tuple(int(k) for k in x[1]))
        if isinstance(x, (tuple, list)) and len(x) == 2 and x[0] == "unk":
            return ("u", str(x[1]))
        if isinstance(x, (tuple, list)) and len(x) == 2 and x[0] == "adv" and hasattr(x[1], "single_atom"):
            cs = T.as_stack0(x[1])
            if cs is not None and all(c.const_value() is not None for c in cs):
                return ("l", tuple(int(c.const_value()) for c in cs))
            sy = x[1].syms() if hasattr(x[1], "syms") else set()
            if len(sy) == 1 and next(iter(sy)).startswith("val:"):
                return ("u", next(iter(sy))[4:])
        if isinstance(x, (tuple, list)) and len(x) == 2 and x[0] == "adv":
            x = x[1]
            c = x.const_value() if hasattr(x, "const_value") else None
            return ("k", int(c)) if c is not None else ("t", repr(x))
        if isinstance(x, int):
            return ("k", x)
        return ("t", repr(x))

    return norm(a) == norm(b)


def run(ck):
    prog = ck.program
    swapf = prog.func(ENT, "swap")
    # ------------------------------------------------------------------ R2 swap is a correct exchange
    for rname, rb in REGIONS.items():
        inst = "swap/A:" + rname
        with ck.guard("C09.R2", inst, swapf.site()):
            def th(it):
                s1 = VTens(it.new_tobj("tensor", T.sym("S1"), ("B", "nv"), "fresh"))
                s2 = VTens(it.new_tobj("tensor", T.sym("S2"), ("B", "nv"), "fresh"))
                A = rb(it)
                r = it.call_function(VFunc(swapf), [s1, s2, A], {}, None)
                return s1, s2, A, r

            for p in returning(paths_of(prog, th), inst):
                s1, s2, A, r = p.value
                items = p.interp.concrete_items(r)
                if items is None or len(items) != 2:
                    ck.undecided("C09.R2", inst, swapf.site(), "swap does not return a pair")
                    continue
                from ..ops import _spec_item

                spec = (("slice", None, None, None), _spec_item(A))
                S1, S2 = T.sym("S1"), T.sym("S2")
                w1 = T.upd(S1, spec, T.app("index", S2, spec))
                w2 = T.upd(S2, spec, T.app("index", S1, spec))
                g1, g2 = items[0].term, items[1].term
                ck.check(items[0].obj is s1.obj and items[1].obj is s2.obj, "C09.R2", inst + ":returns (s1, s2)", swapf.site(), "swap does not return its two arguments in order")
                ck.check(g1 == w1, "C09.R2", inst + ":first replica", swapf.site(), "after swap the first replica is %r; expected region A taken from the second replica" % (g1,))
                if g2 == w2:
                    ck.ok("C09.R2", inst + ":second replica", swapf.site())
                elif g2 == S2 or g2 == T.upd(S2, spec, T.app("index", S2, spec)):
                    ck.violation("C09.R2", inst + ":second replica", swapf.site(),
                                 "the second replica is unchanged: the temporary holding region A of the first replica shares storage with it (missing copy) or the write-back is missing")
                else:
                    ck.check(None if g2 is None else (False if g2.syms() != w2.syms() else None), "C09.R2", inst + ":second replica", swapf.site(),
                             "after swap the second replica is %r; expected region A taken from the first replica" % (g2,))
                if rname == "unknown-kind":
                    # Under an index of unknown kind (int / slice -> view, list / array / tensor -> copy) the exchange is only
                    # correct if what is stored into the second replica cannot share storage with the first replica, whose
                    # region was overwritten in between.  Decided on the stored value's storage identity, not on spelling.
                    st2 = [(o, v, w) for o, v, w in p.interp.stores if o is s2.obj]
                    ck.check(len(st2) >= 1, "C09.R2", inst + ":second replica written", swapf.site(), "nothing is stored into the second replica")
                    for o, v, w in st2:
                        shared = isinstance(v, VTens) and (v.obj is s1.obj or (getattr(v.obj, "maybe_view", False) and s1.obj in v.obj.roots()) or s1.obj in getattr(v.obj, "may_alias", ()))
                        ck.check(not shared, "C09.R2", inst + ":value stored into the second replica owns its storage", w,
                                 "the value written into the second replica may be a view of the first replica (for an integer or slice region it is one): the first replica's region was already overwritten, so the exchange is lost")
    # ------------------------------------------------------------------ R1 / R3 SWAP.apply
    asite = prog.method("SWAP", "apply").site()
    for cls in api.STATES:
        for oname in ("SWAP/int-region", "SWAP/list-region", "SWAP/any-region"):
            inst = "%s/%s" % (oname, cls)
            with ck.guard("C09.R1", inst, asite):
                def th(it):
                    s = make_state(it, cls)
                    o = api.observable_instances(it, prog)[oname]
                    smp = tens(it, "samples", ("B", "nv"))
                    r = call(it, o, "apply", s, smp)
                    return s, o, smp, r

                for p in returning(paths_of(prog, th, sticky=True), inst):
                    shape_err_verdict(ck, "C09.R3", inst, [p])
                    s, o, smp, r = p.value
                    wr = [e for e in p.effects if "param:samples" in e.origins and e.kind in ("write", "meta")]
                    ck.check(not wr, "C09.R1", inst + ":batch untouched", wr[0].site if wr else asite, "SWAP.apply writes the caller's batch (%s)" % (wr[0].detail if wr else ""))
                    sc = [c for c in p.calls if c[0].endswith("entanglement.swap")]
                    # how the exchanged replicas are built is free (the public swap() or anything else): what they must BE is decided below,
                    # on the values handed to importance_sampling_weight.  A call of swap() is only checked for what it receives.
                    ck.check(len(sc) <= 1, "C09.R1", inst + ":at most one swap", asite, "swap is called %d times" % len(sc))
                    if len(sc) == 1:
                        env = sc[0][5]
                        a1, a2 = env.get("s1"), env.get("s2")
                        for nm, a in (("s1", a1), ("s2", a2)):
                            ck.check(isinstance(a, VTens) and a.obj.origin == "fresh" and not a.obj.may_alias, "C09.R1", inst + ":swap(%s) on a copy" % nm, asite,
                                     "swap receives a tensor that shares storage with %s" % (getattr(getattr(a, "obj", None), "origin", "?")))
                    # ---------------- R3 pairing
                    S = T.sym("samples")
                    all_rolls = [c for c in p.interp.ext_calls if c[0] == "torch.roll"]
                    # the roll that builds the second replica is the one applied to the batch itself; a roll of something computed from
                    # the batch (per-row values shifted along with their rows) is judged where it is used
                    rolls = [c for c in all_rolls if c[1] and isinstance(c[1][0], VTens) and c[1][0].term == S] or all_rolls
                    other_rolls = [c for c in all_rolls if not any(c is x for x in rolls)]
                    okroll = False
                    if len(rolls) == 1:
                        args, kwargs = rolls[0][1], rolls[0][2]
                        x = args[0] if args else None
                        sh = args[1] if len(args) > 1 else kwargs.get("shifts")
                        dm = args[2] if len(args) > 2 else kwargs.get("dims")
                        oks, shv = const_of(sh) if sh is not None else (False, None)
                        okd, dmv = const_of(dm) if dm is not None else (False, None)
                        okroll = isinstance(x, VTens) and x.term == S and oks and isinstance(shv, int) and okd and dmv in (0, -2)
                        nonzero = oks and isinstance(shv, int) and shv != 0
                        ck.check(bool(okroll), "C09.R3", inst + ":replica = cyclic shift of the batch rows", asite,
                                 "the second replica is not torch.roll(samples, s, dims=0): %s" % ([repr(a) for a in args],))
                        ck.check(bool(nonzero), "C09.R3", inst + ":shift != 0", asite, "a zero shift pairs every sample with itself")
                    else:
                        ck.check(None if rolls else False, "C09.R3", inst + ":replica = cyclic shift of the batch rows", asite,
                                 "the second replica is not built by a cyclic roll of the batch (found %d torch.roll calls)" % len(rolls))
                    wc = [c for c in p.calls if c[0].endswith("importance_sampling_weight")]
                    ncalls = [c for c in p.calls if c[0].endswith("importance_sampling_numerator")]
                    dcalls = [c for c in p.calls if c[0].endswith("importance_sampling_denominator")]
                    nd_form = not wc and len(ncalls) == 2 and 1 <= len(dcalls) <= 2
                    if nd_form:
                        # the two weights written as (numerator1 * numerator2) / (denominator1 * denominator2): the same quantities,
                        # decided on the numerators' and denominators' arguments and on the value
                        ck.ok("C09.R3", inst + ":two weights (as numerators over denominators)", asite)
                    else:
                        ck.check(len(wc) == 2, "C09.R3", inst + ":two weights", asite, "importance_sampling_weight is called %d times, expected 2" % len(wc))
                    if nd_form and len(rolls) == 1 and okroll:
                        R = rolls[0][4].term
                        from ..ops import _spec_item

                        spec = (("slice", None, None, None), _spec_item(o.inst.attrs.get("A")))
                        sw1 = T.upd(S, spec, T.app("index", R, spec))
                        sw2 = T.upd(R, spec, T.app("index", S, spec))
                        pairs = [(getattr(c[5].get("vp"), "term", None), getattr(c[5].get("v"), "term", None)) for c in ncalls]
                        if sorted(map(repr, pairs)) == sorted(map(repr, [(sw1, S), (sw2, R)])):
                            ck.ok("C09.R3", inst + ":numerators pair swapped_k with original_k", asite)
                        elif all(a in (sw1, sw2) for a, _ in pairs) and all(b in (S, R) for _, b in pairs):
                            ck.violation("C09.R3", inst + ":numerators pair swapped_k with original_k", asite,
                                         "a swapped configuration's numerator is taken against the wrong original (each must be numerator(swapped_k, original_k), once per replica): %s"
                                         % [("swapped%d" % (1 if a == sw1 else 2), "original%d" % (1 if b == S else 2)) for a, b in pairs])
                        else:
                            ck.undecided("C09.R3", inst + ":numerators pair swapped_k with original_k", asite, "numerator arguments not recognised: %r" % (pairs,))
                        dvs = [getattr(c[5].get("v"), "term", None) for c in dcalls]
                        if len(dcalls) == 2:
                            ck.check(sorted(map(repr, dvs)) == sorted(map(repr, [S, R])), "C09.R3", inst + ":denominators of both originals", asite,
                                     "the denominators are evaluated on %s; expected the two original replicas" % (dvs,))
                        else:
                            # one denominator evaluated, the other obtained by shifting it along the batch axis: a per-row value
                            # shifted with its rows - the shift must be the replica's own
                            okd = None
                            if dvs[0] == S and len(other_rolls) == 1:
                                a_, k_ = other_rolls[0][1], other_rolls[0][2]
                                x_ = a_[0] if a_ else None
                                sh_ = a_[1] if len(a_) > 1 else k_.get("shifts")
                                dm_ = a_[2] if len(a_) > 2 else k_.get("dims")
                                d1t = dcalls[0][6]
                                oks_, shv_ = const_of(sh_) if sh_ is not None else (False, None)
                                okm_, dmv_ = const_of(dm_) if dm_ is not None else (False, None)
                                rs_ = const_of(rolls[0][1][1] if len(rolls[0][1]) > 1 else rolls[0][2].get("shifts"))
                                if isinstance(x_, VTens) and x_.term is not None and x_.term == d1t and oks_ and okm_ and dmv_ in (-1, 1) and rs_[0]:
                                    okd = shv_ == rs_[1]
                                    if not okd:
                                        ck.violation("C09.R3", inst + ":second denominator = first one shifted like the replica", asite,
                                                     "the second replica is the batch shifted by %s rows, its denominators are the first replica's shifted by %s: every weight of the second replica is divided by another row's denominator"
                                                     % (rs_[1], shv_))
                            if okd is None and dvs[0] == S and not other_rolls:
                                # ... or gathered from it with an index table over the batch: row i of the second replica is row
                                # (i - shift) mod B of the first, so its denominator is entry (i - shift) mod B (integer tables, B = 1..5)
                                from .. import ints as _ints

                                d1t = dcalls[0][6]
                                rs_ = const_of(rolls[0][1][1] if len(rolls[0][1]) > 1 else rolls[0][2].get("shifts")) if rolls else (False, None)
                                for c_ in [q for q in p.calls if q[0].endswith("cplx.elementwise_division")]:
                                    yt = c_[7].get("y") if len(c_) > 7 else None
                                    ya = yt.single_atom() if yt is not None and hasattr(yt, "single_atom") else None
                                    if not (isinstance(ya, T.App) and ya.op == "index" and ya.args[0] == d1t and len(ya.args[1]) == 2 and isinstance(ya.args[1][1], (tuple, list)) and ya.args[1][1][0] == "adv"):
                                        continue
                                    ixt = ya.args[1][1][1]
                                    bsyms = [s_ for s_ in ixt.syms()]
                                    if len(bsyms) != 1 or not rs_[0]:
                                        continue
                                    bad = None
                                    for n_ in range(1, 6):
                                        tab = _ints.eval_array(ixt, {bsyms[0]: n_})
                                        vals = tab.data if tab is not None and hasattr(tab, "data") and isinstance(tab.data, list) and all(not isinstance(v_, list) for v_ in tab.data) else None
                                        if vals is None:
                                            bad = None
                                            break
                                        want_ = [(i_ - rs_[1]) % n_ for i_ in range(n_)]
                                        if [int(v_) for v_ in vals] != want_:
                                            bad = (n_, [int(v_) for v_ in vals], want_)
                                            break
                                    else:
                                        okd = True
                                    if bad is not None:
                                        okd = False
                                        ck.violation("C09.R3", inst + ":second denominator = first one shifted like the replica", asite,
                                                     "the second replica is the batch shifted by %s rows, so row i pairs with row (i - %s) mod B; its denominators are taken at rows %s of the first replica's for a batch of %d (expected %s): "
                                                     "every weight of the second replica is divided by another row's denominator" % (rs_[1], rs_[1], bad[1], bad[0], bad[2]), key="C09.R3|SWAP|denominator partner")
                                    break
                            if okd is not False:
                                ck.check(okd, "C09.R3", inst + ":second denominator = first one shifted like the replica", asite, "the second denominator is not recognised")
                        # the value: Re( n1 n2 / (d1 d2) ) when both denominators were evaluated directly
                        if len(dcalls) == 2 and isinstance(r, VTens) and r.term is not None and all(T.as_stack0(c[6]) is not None for c in ncalls + dcalls if c[6] is not None) and all(c[6] is not None for c in ncalls + dcalls):
                            (ar, ai), (br, bi) = T.as_stack0(ncalls[0][6]), T.as_stack0(ncalls[1][6])
                            (cr, ci), (dr, di) = T.as_stack0(dcalls[0][6]), T.as_stack0(dcalls[1][6])
                            nr, ni = ar * br - ai * bi, ar * bi + ai * br
                            er, ei = cr * dr - ci * di, cr * di + ci * dr
                            want = (nr * er + ni * ei) * T.inv(er * er + ei * ei)
                            ck.check(True if (r.term == want or T.ratfun_equal(r.term, want)) else None, "C09.R3", inst + ":Re(n1 n2 / (d1 d2))", asite,
                                     "the result is not the real part of the product of numerators over the product of denominators: %r" % (str(r.term)[:200],))
                    if len(wc) == 2 and len(rolls) == 1 and okroll:
                        R = rolls[0][4].term
                        from ..ops import _spec_item

                        spec = (("slice", None, None, None), _spec_item(o.inst.attrs.get("A")))
                        sw1 = T.upd(S, spec, T.app("index", R, spec))
                        sw2 = T.upd(R, spec, T.app("index", S, spec))
                        def _sel(t_):
                            # where(<site mask that is 1 exactly on the region>, X, Y) is Y with the region's columns taken from X
                            at_ = t_.single_atom() if t_ is not None and hasattr(t_, "single_atom") else None
                            if isinstance(at_, T.App) and at_.op == "where" and len(at_.args) == 3 and hasattr(at_.args[0], "single_atom"):
                                m_ = at_.args[0].single_atom()
                                if isinstance(m_, T.App) and m_.op == "upd" and m_.args[0] == T.ZERO and m_.args[2] == T.ONE and len(m_.args[1]) == 1 and _same_sites(m_.args[1][0], spec[1]):
                                    return T.upd(at_.args[2], spec, T.app("index", at_.args[1], spec))
                            return t_

                        pairs = []
                        for c in wc:
                            vp, v = c[5].get("vp"), c[5].get("v")
                            pairs.append((_sel(getattr(vp, "term", None)), getattr(v, "term", None)))
                        ok = sorted(map(repr, pairs)) == sorted(map(repr, [(sw1, S), (sw2, R)]))
                        if ok:
                            ck.ok("C09.R3", inst + ":weights pair swapped_k with original_k", asite)
                        elif sorted(map(repr, pairs)) == sorted(map(repr, [(sw2, S), (sw1, R)])):
                            ck.violation("C09.R3", inst + ":weights pair swapped_k with original_k", asite, "each swapped configuration is weighted against the other replica's original")
                        elif sorted(map(repr, pairs)) == sorted(map(repr, [(S, sw1), (R, sw2)])):
                            ck.violation("C09.R3", inst + ":weights pair swapped_k with original_k", asite, "the weight arguments are reversed (original over swapped)")
                        elif all(a in (sw1, sw2) for a, _ in pairs) and all(b in (S, R) for _, b in pairs):
                            ck.violation("C09.R3", inst + ":weights pair swapped_k with original_k", asite,
                                         "a swapped configuration is weighted against the wrong original (each weight must be psi(swapped_k)/psi(original_k), once per replica)")
                        else:
                            ck.undecided("C09.R3", inst + ":weights pair swapped_k with original_k", asite, "weight arguments not recognised: %r" % (pairs,))
                        # final value = Re(w1 * w2)
                        w1, w2 = wc[0][6], wc[1][6]
                        c1, c2 = T.as_stack0(w1) if w1 is not None else None, T.as_stack0(w2) if w2 is not None else None
                        if c1 is not None and c2 is not None and isinstance(r, VTens) and r.term is not None:
                            want = c1[0] * c2[0] - c1[1] * c2[1]
                            if r.term == want:
                                ck.ok("C09.R3", inst + ":Re(w1*w2)", asite)
                            elif r.term == c1[0] * c2[1] + c1[1] * c2[0]:
                                ck.violation("C09.R3", inst + ":Re(w1*w2)", asite, "the imaginary part of the product of weights is returned")
                            elif r.term == c1[0] * c2[0] + c1[1] * c2[1]:
                                ck.violation("C09.R3", inst + ":Re(w1*w2)", asite, "the product of weights has a sign error (w1 * conj(w2))")
                            else:
                                ck.undecided("C09.R3", inst + ":Re(w1*w2)", asite, "result is not Re(weight1*weight2): %r" % (r.term,))
                        else:
                            ck.undecided("C09.R3", inst + ":Re(w1*w2)", asite, "weights are not complex pairs")
                    ck.check(shape_is(r, ("B",)), "C09.R3", inst + ":shape", asite, "result shape %s, expected (B,)" % (getattr(r, "shape", None),))
                    # ---------------- R6 (numerical range, "all parameters"): each replica's weight is a ratio of amplitudes of
                    # comparable size.  A divisor that multiplies the unnormalised amplitudes of BOTH replicas - exp(E1 + E2) - overflows
                    # where exp(E1) and exp(E2) are finite: the estimator is NaN on half of the range on which it was exact.
                    def _kinds(arg):
                        ks = set()
                        for mono in (arg.terms if isinstance(arg, T.Poly) else {}):
                            for a_, _pw in mono:
                                sub = [a_] + (list(T.P(a_).all_atoms()) if not isinstance(a_, T.Sym) else [])
                                if not any(isinstance(x_, T.Sym) and x_.name == "samples" for x_ in sub) and "samples" not in (T.P(a_).syms()):
                                    continue
                                ks.add("second replica" if any(isinstance(x_, T.App) and x_.op == "roll" for x_ in sub) else "first replica")
                        return ks

                    mixed = []
                    for dsite, dterm, dstack in getattr(p.interp, "tensor_divisions", []):
                        if not any(q_.endswith("SWAP.apply") for q_ in dstack) or not isinstance(dterm, T.Poly):
                            continue
                        for a_ in dterm.all_atoms():
                            if isinstance(a_, T.Exp) and _kinds(a_.arg) == {"first replica", "second replica"}:
                                mixed.append((dsite, a_))
                    ck.check(not mixed, "C09.R6", inst + ":no divisor multiplies the unnormalised amplitudes of both replicas", mixed[0][0] if mixed else asite,
                             "a divisor is exp(E(first replica) + E(second replica)): the product of both replicas' unnormalised probabilities overflows where each of them is still finite (the estimate is inf/inf = "
                             "NaN on half of the parameter range on which dividing replica by replica is exact)", key="C09.R6|SWAP|joint divisor")
    from .history import check_history

    # ------------------------------------------------------------------ R3 region forms: "every subset A of sites (... given as int / list / array / tensor)"
    # the empty subset written as a tensor is torch.tensor([]) - a float32 tensor (torch's dtype for an empty list): every form
    # of the same region gives the same estimator, the empty one the value of an exchange that exchanges nothing
    swp = prog.cls("SWAP")
    for form in ("empty list", "torch.tensor(empty list)"):
        inst = "SWAP/empty region as %s" % form
        with ck.guard("C09.R3", inst, asite):
            def the(it, form=form):
                s = make_state(it, "PositiveWaveFunction")
                A = it.new_list([])
                if form.startswith("torch"):
                    A = it.ops.call_ext(it, "torch.tensor", [A], {}, None)
                o = it.instantiate(swp, [A], {}, None)
                return call(it, o, "apply", s, tens(it, "samples", ("B", "nv")))

            ps_ = paths_of(prog, the, sticky=True, max_paths=12)
            rets = [p for p in ps_ if p.outcome == "return"]
            errs = [p for p in ps_ if p.outcome == "raise"]
            ck.check(bool(rets) and not errs, "C09.R3", inst + ":evaluates", asite,
                     "SWAP with the empty region given as %s does not evaluate: %s (the other spellings of the same region do)" % (form, [str(p.value)[:120] for p in errs][:1]),
                     key="C09.R3|SWAP|empty region as a float tensor")

    for cls in api.STATES:
        def mk(it, cls=cls):
            s = make_state(it, cls)
            return (s, api.observable_instances(it, prog)["SWAP/list-region"], tens(it, "samples", ("B", "nv")))

        check_history(ck, "C09.R4", "SWAP/%s" % cls, asite, mk, lambda it, c: call(it, c[1], "apply", c[0], c[2]), max_paths=40)
    # the region is a public attribute: after `obs.A = <other region>` the estimator is the one of the new region (what a fresh
    # SWAP(<other region>) computes), whatever the object evaluated before
    from .history import _same
    from ..interp import snapshot_terms

    swc = prog.cls("SWAP")
    for cls in api.STATES:
        inst = "SWAP/%s:region changed between two evaluations" % cls
        with ck.guard("C09.R4", inst, asite):
            def thA(it, cls=cls):
                s = make_state(it, cls)
                smp = tens(it, "samples", ("B", "nv"))
                o1 = it.instantiate(swc, [it.new_list([VConst(0)])], {}, None)
                call(it, o1, "apply", s, smp)
                it.set_attr(o1, "A", it.new_list([VConst(1)]), None)
                r2 = snapshot_terms(it, call(it, o1, "apply", s, smp))
                o2 = it.instantiate(swc, [it.new_list([VConst(1)])], {}, None)
                r3 = snapshot_terms(it, call(it, o2, "apply", s, smp))
                return r2, r3

            for p in returning(paths_of(prog, thA, sticky=True, max_paths=30), inst):
                r2, r3 = p.value
                if r2 is None or r3 is None:
                    ck.undecided("C09.R4", inst, asite, "results are not comparable terms")
                else:
                    ck.check(_same(r2, r3), "C09.R4", inst, asite,
                             "after obs.A = [1] the object that evaluated region [0] before returns %s; a fresh SWAP([1]) returns %s: something derived from the old region is kept"
                             % (str(r2)[:110], str(r3)[:110]), key="C09.R4|SWAP|stale region")
    ck.require_min("C09.R4", 6)
    ck.require_min("C09.R1", 18)
    ck.require_min("C09.R2", 10)
    ck.require_min("C09.R6", 6)
    ck.require_min("C09.R3", 40)
    ck.assumptions += [
        "torch.roll(x, s, 0) is a cyclic permutation of rows (every sample occurs once per replica role)",
        "x[:, A] is a view for int/slice A and a copy for list/array/tensor A (torch indexing semantics)",
        "that the average equals Tr rho_A^2 (and the entropy inequalities) is not decided",
    ]
