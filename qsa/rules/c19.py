"""C19 – basis-state indexing (big-endian agreement), size guard, data loaders."""
from .. import terms as T
from .common import *  # noqa: F401,F403
from . import api

ASC, DESC = "ASC", "DESC"


def flip(p):
    return {ASC: DESC, DESC: ASC}.get(p)


def polarity(t):
    """Order polarity of a 1-D index-like term along its (last) axis: ASC / DESC / None."""
    if t is None:
        return None
    at = t.single_atom()
    if at is None:
        # X + c, c*X with c>0
        sm = None
        nonconst = [(m, c) for m, c in t.terms.items() if m]
        if len(nonconst) == 1 and len(nonconst[0][0]) == 1 and nonconst[0][0][0][1] == 1:
            p = polarity(T.P(nonconst[0][0][0][0]))
            c = nonconst[0][1]
            return p if c > 0 else flip(p)
        return None
    if isinstance(at, T.App):
        op, a = at.op, at.args
        if op == "arange":
            if len(a) == 1:
                return ASC
            if len(a) == 3:
                st = a[2].const_value() if isinstance(a[2], T.Poly) else None
                if st is not None:
                    return ASC if st > 0 else DESC
            if len(a) == 2:
                return ASC
            return None
        if op in ("lshift", "pow"):
            base = a[0].const_value() if isinstance(a[0], T.Poly) else None
            if base is not None and base > (0 if op == "lshift" else 1):
                return polarity(a[1])
            return None
        if op == "mod" and len(a) == 2 and hasattr(a[1], "const_value") and a[1].const_value() == 2 and hasattr(a[0], "single_atom"):
            # floor(k / 2^s) % 2 : column j holds bit s_j
            fa = a[0].single_atom()
            q = fa.args[0] if isinstance(fa, T.App) and fa.op in ("floor", "trunc", "floordiv") else None
            sm = q.single_mono() if q is not None and hasattr(q, "single_mono") else None
            if sm is not None:
                for at_, pw_ in sm[0]:
                    if isinstance(at_, T.App) and at_.op == "pow" and pw_ == -1:
                        return polarity(T.P(at_))
            if isinstance(fa, T.App) and fa.op == "floordiv" and len(fa.args) == 2:
                return polarity(fa.args[1])
            return None
        if op == "rshift":
            return polarity(a[1])  # (k >> s) & 1: column j holds bit s_j, so the column significance follows the shift amounts
        if op == "bitand":
            # bit extraction: the mask operand carries the site axis
            pa, pb = polarity(a[0]), polarity(a[1])
            return pb if pb is not None else pa
        if op.startswith("cmp_") or op in ("trunc", "round", "nonzero"):
            return polarity(a[0])
        if op == "index":
            spec = a[1]
            last = spec[-1] if spec else None
            p = polarity(a[0])
            if isinstance(last, tuple) and last and last[0] == "slice":
                if last[3] == -1 and last[1] is None and last[2] is None:
                    return flip(p)
                if last[3] in (None, 1):
                    return p
                return None
            if last == "none":
                return None
            return p
        if op in ("unsq", "to", "view"):
            return polarity(a[0])
    return None


def row_polarity(t):
    """Polarity along axis 0 (rows) of the generated space: comes from the `dim[:, None]` operand."""
    at = t.single_atom() if t is not None else None
    if at is None or not isinstance(at, T.App):
        return None
    if at.op == "index":
        spec = at.args[1]
        first = spec[0] if spec else None
        p = row_polarity(at.args[0])
        if isinstance(first, tuple) and first[0] == "slice":
            if first[3] == -1:
                return flip(p)
            return p
        return p
    if at.op.startswith("cmp_") or at.op in ("trunc",):
        return row_polarity(at.args[0])
    if at.op == "bitand":
        for x in at.args:
            xa = x.single_atom()
            if xa is not None and isinstance(xa, T.App) and xa.op == "index" and "none" in xa.args[1]:
                return polarity(xa.args[0])
        for x in at.args:
            if hasattr(x, "single_atom") and x.single_atom() is not None:
                r = row_polarity(x)
                if r is not None:
                    return r
        return None
    if at.op == "rshift":
        return row_polarity(at.args[0])
    if at.op == "unsq" and len(at.args) >= 2 and at.args[1] in (-1, 1):
        return polarity(at.args[0])  # k[:, None]: the rows follow k
    return None


def run(ck):
    prog = ck.program
    NS = "NeuralStateBase"
    ghs = prog.method(NS, "generate_hilbert_space")
    sv = prog.method(NS, "subspace_vector")
    conv = prog.func("qucumber.utils.unitaries", "_convert_basis_element_to_index")
    # ------------------------------------------------------------------ R1 big-endian agreement
    for form in ("", "/device given"):
      with ck.guard("C19.R1", "generate_hilbert_space" + form, ghs.site()):
        def th(it, form=form):
            s = make_state(it, "PositiveWaveFunction")
            kw = {"device": VConst("cpu")} if form else {}
            return call(it, s, "generate_hilbert_space", api.intsym("n"), **kw)

        rets = [p for p in paths_of(prog, th) if p.outcome == "return"]
        ck.check(len(rets) >= 1, "C19.R1", "generate_hilbert_space%s:returns" % form, ghs.site(), "no returning path")
        for p in rets:
            if not isinstance(p.value, VTens):
                ck.undecided("C19.R1", "generate_hilbert_space%s:" % form + "tensor result", ghs.site(), "the result is not a tensor value the analyser can follow: %r" % (p.value,))
                continue
            t = p.value.term
            pc, pr = polarity(t), row_polarity(t)
            ck.check(True if pc == DESC else (False if pc == ASC else None), "C19.R1", "generate_hilbert_space%s:" % form + "site 0 is the most significant bit", ghs.site(),
                     "bit columns have %s significance from site 0 (expected descending = big-endian): %r" % (pc, t), polarity=pc)
            ck.check(True if pr == ASC else (False if pr == DESC else None), "C19.R1", "generate_hilbert_space%s:" % form + "row k is integer k", ghs.site(),
                     "rows are enumerated in %s integer order (expected ascending)" % pr)
            sh = p.value.shape
            okshape = sh is not None and len(sh) == 2 and sh[1] == "n"
            unknown = sh is None or (len(sh) == 2 and sh[1] == "?")
            ck.check(True if okshape else (None if unknown else False), "C19.R1", "generate_hilbert_space%s:" % form + "shape", ghs.site(), "space has shape %s, expected (2^n, n)" % (sh,))
            sy = t.syms()
            ck.check("n" in sy, "C19.R1", "generate_hilbert_space%s:" % form + "uses size", ghs.site(), "the requested size does not determine the space")
    with ck.guard("C19.R1", "generate_hilbert_space/fresh", ghs.site()):
        def thf(it):
            s = make_state(it, "PositiveWaveFunction")
            n0 = len(it.effects)
            a = call(it, s, "generate_hilbert_space", api.intsym("n"))
            b = call(it, s, "generate_hilbert_space", api.intsym("n"))
            return s, a, b, n0

        for p in [q for q in paths_of(prog, thf, sticky=True) if q.outcome == "return"]:
            s_, a, b, n0 = p.value
            ck.check(isinstance(a, VTens) and isinstance(b, VTens) and a.obj is not b.obj and a.obj.origin == "fresh", "C19.R1", "generate_hilbert_space:a new tensor on every call [%s]" % path_tag(p), ghs.site(),
                     "two calls return the same tensor object: a caller that overwrites the returned space (e.g. sample(..., initial_state=space, overwrite=True)) corrupts every later result")
            # keeping a private copy is harmless; keeping the very tensor that is handed out is not (the caller may
            # overwrite it in place): decided on object identity of what the model holds after the calls
            held = []

            def reach(v, depth=0):
                if depth > 4:
                    return
                if isinstance(v, VTens):
                    held.append(v.obj)
                elif isinstance(v, (VList, VTuple)):
                    for x in p.interp.concrete_items(v) or []:
                        reach(x, depth + 1)
                elif isinstance(v, VDict) and v.obj.items is not None:
                    for x in v.obj.items.values():
                        reach(x, depth + 1)

            for v in s_.inst.attrs.values():
                reach(v)
            outs = [x.obj for x in (a, b) if isinstance(x, VTens)]
            ck.check(not any(o is h for o in outs for h in held), "C19.R1", "generate_hilbert_space:the tensor handed out is not kept by the model [%s]" % path_tag(p), ghs.site(),
                     "the model keeps a reference to the very tensor it returns: overwriting the returned space changes what later calls see")
    with ck.guard("C19.R1", "subspace_vector", sv.site()):
        def th2(it):
            s = make_state(it, "PositiveWaveFunction")
            return call(it, s, "subspace_vector", VNum("int", T.sym("k"), nonneg=True), api.intsym("n"))

        for p in returning(paths_of(prog, th2), "subspace_vector"):
            t = p.value.term
            pc = polarity(t)
            ck.check(True if pc == DESC else (False if pc == ASC else None), "C19.R1", "subspace_vector:site 0 is the most significant bit", sv.site(),
                     "bits of the requested index have %s significance from site 0 (expected descending): %r" % (pc, t))
            ck.check({"k", "n"} <= t.syms(), "C19.R1", "subspace_vector:depends on (num, size)", sv.site(), "the vector does not depend on both the index and the size")
    with ck.guard("C19.R1", "_convert_basis_element_to_index", conv.site()):
        def th3(it):
            return it.call_function(VFunc(conv), [tens(it, "states", ("B", "n"))], {}, None)

        for p in returning(paths_of(prog, th3), "convert"):
            t = p.value.term
            at = t.single_atom()
            okm = at is not None and isinstance(at, T.App) and at.op == "matmul" and at.args[0] == T.sym("states")
            ck.check(okm, "C19.R1", "_convert_basis_element_to_index:weighted sum of bits", conv.site(), "index is not states . powers: %r" % (t,))
            if okm:
                pw = at.args[1]
                pp = polarity(pw)
                ck.check(True if pp == DESC else (False if pp == ASC else None), "C19.R1", "_convert_basis_element_to_index:site 0 has the largest weight", conv.site(),
                         "powers of two are %s along the sites (expected descending = big-endian): %r" % (pp, pw))
                pa = pw.single_atom()
                # exact weights 2^(n-1) ... 2^0
                want = T.app("pow", T.const(2), T.app("arange", T.sym("n"), T.ZERO, T.const(-1)) - 1)
                alt = None
                if pw == want:
                    ck.ok("C19.R1", "_convert_basis_element_to_index:weights 2^(n-1)..2^0", conv.site())
                elif pa is not None and isinstance(pa, T.App) and pa.op == "pow":
                    e = pa.args[1]
                    prog_ = affine_arange(e) if pa.args[0] == T.const(2) else None
                    n_ = T.sym("n")
                    if prog_ is not None and prog_ == (n_ - 1, T.const(-1), n_):
                        ck.ok("C19.R1", "_convert_basis_element_to_index:weights 2^(n-1)..2^0", conv.site())
                    elif prog_ is not None and prog_[2] == n_ and prog_[1] == T.const(-1) and (prog_[0] - n_).const_value() is not None:
                        ck.violation("C19.R1", "_convert_basis_element_to_index:weights 2^(n-1)..2^0", conv.site(),
                                     "the largest exponent is %r, expected n - 1: every index is scaled by a power of two" % (prog_[0],))
                    elif e == T.app("arange", T.sym("n"), T.ZERO, T.const(-1)):
                        ck.violation("C19.R1", "_convert_basis_element_to_index:weights 2^(n-1)..2^0", conv.site(), "weights run from 2^n to 2^1: every index is doubled")
                    else:
                        ck.undecided("C19.R1", "_convert_basis_element_to_index:weights 2^(n-1)..2^0", conv.site(), "exponents %r not recognised" % (e,))
                else:
                    ck.undecided("C19.R1", "_convert_basis_element_to_index:weights 2^(n-1)..2^0", conv.site(), "powers %r not recognised" % (pw,))
    # ------------------------------------------------------------------ R2 size guard
    for form, sym in (("explicit size", "n"), ("default size (the number of visible units)", "nv")):
        with ck.guard("C19.R2", "size guard/" + form, ghs.site()):
            def th4(it, form=form):
                s = make_state(it, "ComplexWaveFunction")
                n0 = len(it.ext_calls)
                if form == "explicit size":
                    call(it, s, "generate_hilbert_space", api.intsym("n"))
                else:
                    call(it, s, "generate_hilbert_space")
                return n0

            paths = paths_of(prog, th4)
            # the refusal is the ValueError path; an `assert` on an internal invariant that the analyser cannot evaluate is another matter
            raised = [p for p in paths if p.outcome == "raise" and not (p.value.exc_name == "AssertionError" and not getattr(p.value, "definite_bug", False))]
            ck.check(len(raised) == 1 and raised[0].value.exc_name == "ValueError", "C19.R2", "too large -> ValueError/" + form, ghs.site(),
                     "no ValueError path for an oversized space (%s): the whole space would be allocated" % form)
            for p in raised:
                alloc = [c for c in p.interp.ext_calls if c[0] in ("numpy.arange", "torch.tensor", "torch.zeros") and within(c, "generate_hilbert_space")]
                ck.check(not alloc, "C19.R2", "refused before allocation/" + form, ghs.site(), "the space is (partly) allocated before the size is refused")
                conds = [c for c in p.conds if len(c) > 3 and getattr(c[3], "term", None) is not None]
                okc = False
                for c in conds:
                    at = c[3].term.single_atom()
                    if at is not None and isinstance(at, T.App) and at.op == "cmp_Gt" and at.args[0] == T.sym(sym):
                        lim = at.args[1].const_value()
                        okc = lim is not None
                        ck.check(c[2] is True, "C19.R2", "raises iff size > max_size/" + form, ghs.site(), "the error is raised when size <= max_size")
                        ck.extra["max_size"] = int(lim) if lim is not None else None
                    elif at is not None and isinstance(at, T.App) and at.op == "cmp_GtE" and at.args[0] == T.sym(sym):
                        ck.violation("C19.R2", "max_size itself accepted/" + form, ghs.site(), "a space of exactly max_size is refused (comparison is >=)")
                        okc = True
                ck.check(okc, "C19.R2", "strict comparison with max_size/" + form, ghs.site(), "the guard is not `size > max_size`")
    # ------------------------------------------------------------------ R3 loaders
    D = "qucumber.utils.data"
    ld = prog.func(D, "load_data")
    with ck.guard("C19.R3", "load_data", ld.site()):
        def th5(it):
            a = [VUnknown(n, "str") for n in ("samples_path", "psi_path", "tr_bases_path", "bases_path")]
            for x in a:
                x.not_none = True
            return it.call_function(VFunc(ld), a, {}, None)

        for p in returning(paths_of(prog, th5), "load_data"):
            it = p.interp
            items = it.concrete_items(p.value)
            ck.check(items is not None and len(items) == 4, "C19.R3", "load_data:four results in order", ld.site(), "load_data does not return [samples, target, bases, all bases]")
            lt = [c for c in it.ext_calls if c[0] == "numpy.loadtxt"]
            byarg = {}
            for c in lt:
                tag = c[1][0].tag if c[1] and isinstance(c[1][0], VUnknown) else "?"
                dt = c[2].get("dtype")
                byarg[tag] = dt
            def dtype_name(v):
                if isinstance(v, VConst):
                    return v.value
                if isinstance(v, VExt):
                    return v.name
                return repr(v)
            ck.check(dtype_name(byarg.get("samples_path")) == "float32", "C19.R3", "load_data:samples read as float32", ld.site(), "samples are read with dtype %s" % dtype_name(byarg.get("samples_path")))
            ck.check(dtype_name(byarg.get("psi_path")) == "float32", "C19.R3", "load_data:target read as float32", ld.site(), "target is read with dtype %s" % dtype_name(byarg.get("psi_path")))
            for k in ("tr_bases_path", "bases_path"):
                ck.check(dtype_name(byarg.get(k)) == "builtins.str", "C19.R3", "load_data:%s read as str" % k, ld.site(), "bases are read with dtype %s" % dtype_name(byarg.get(k)))
            if items is not None and len(items) == 4:
                s_, tg, b1, b2 = items
                # N = 1 and n = 1 are data files too: what is loaded must keep its (rows, columns) layout for them
                for nm_, v_ in (("samples", s_), ("training bases", b1), ("list of all bases", b2)):
                    rk = len(v_.shape) if isinstance(v_, VTens) and v_.shape is not None else None
                    ck.check(rk == 2, "C19.R3", "load_data:%s keep two axes for every file" % nm_, ld.site(),
                             "the %s are what np.loadtxt returns without ndmin=2: a file with a single row (N = 1) or a single column (one site) is squeezed to a 1-D array, so the row / site axes "
                             "are no longer what was written (extract_refbasis_samples and fit then fail)" % nm_, key="C19.R3|load_data|loadtxt-squeezes:%s" % nm_)
                ck.check(isinstance(s_, VTens) and s_.term == T.sym("file(samples_path)") and s_.kind == "tensor", "C19.R3", "load_data:samples tensor", ld.site(), "first result is not the samples file as a tensor")
                F = T.sym("file(psi_path)")
                col = lambda k: T.app("index", F, (("slice", None, None, None), k))  # noqa: E731
                def _int(x):
                    if isinstance(x, int):
                        return x
                    c_ = x.const_value() if isinstance(x, T.Poly) else None
                    return int(c_) if c_ is not None and c_.denominator == 1 else None

                def comp(t_, k):
                    """Row k of the (2, N) target, as a column of the file, when the way it was assembled is recognised."""
                    if t_ is None:
                        return None
                    cs = T.as_stack0(t_)
                    if cs is not None:
                        return cs[k] if len(cs) == 2 else None
                    a_ = t_.single_atom()
                    if isinstance(a_, T.App) and a_.op == "stack" and isinstance(a_.args[0], tuple) and len(a_.args[0]) == 2 and a_.args[1] == 0:
                        return a_.args[0][k]  # torch.stack((re, im)) along the leading axis
                    if isinstance(a_, T.App) and a_.op == "t":
                        x_ = a_.args[0].single_atom() if isinstance(a_.args[0], T.Poly) else None
                        if isinstance(x_, T.Sym) and x_.name.startswith("file("):
                            return T.app("index", a_.args[0], (("slice", None, None, None), k))  # the transposed two-column file: row k is column k
                        # the transpose of the first columns file[:, :n] (n >= 2): row k of it is column k of the file
                        if isinstance(x_, T.App) and x_.op == "index" and len(x_.args[1]) == 2 and tuple(x_.args[1][0]) == ("slice", None, None, None):
                            sl = x_.args[1][1]
                            if isinstance(sl, tuple) and sl and sl[0] == "slice" and sl[1] is None and sl[3] is None and _int(sl[2]) is not None and _int(sl[2]) >= 2:
                                return T.app("index", x_.args[0], (("slice", None, None, None), k))
                    return None

                tt_ = tg.term if isinstance(tg, VTens) else None
                c0_, c1_ = comp(tt_, 0), comp(tt_, 1)
                okt = (c0_ == col(0) and c1_ == col(1)) if (c0_ is not None and c1_ is not None) else (None if isinstance(tg, VTens) else False)
                ck.check(okt, "C19.R3", "load_data:target columns (re, im)", ld.site(),
                         "target is not (column 0 -> real, column 1 -> imaginary): %r" % (getattr(tg, "term", None),))
                ck.check(isinstance(b1, VTens) and b1.term == T.sym("file(tr_bases_path)") and isinstance(b2, VTens) and b2.term == T.sym("file(bases_path)"), "C19.R3", "load_data:bases order", ld.site(),
                         "third/fourth results are not (training bases, all bases)")
    ldm = prog.func(D, "load_data_DM")
    with ck.guard("C19.R3", "load_data_DM", ldm.site()):
        def mk(names, nones):
            def th(it):
                a = []
                for n in names:
                    if n in nones:
                        a.append(VConst(None))
                    else:
                        u = VUnknown(n, "str")
                        u.not_none = True
                        a.append(u)
                return it.call_function(VFunc(ldm), a, {}, None)
            return th

        names = ["samples_path", "re_path", "im_path", "tr_bases_path", "bases_path"]
        for p in returning(paths_of(prog, mk(names, ())), "load_data_DM"):
            items = p.interp.concrete_items(p.value)
            ok = items is not None and len(items) == 4 and isinstance(items[1], VTens) and items[1].term == T.stack0(T.sym("file(re_path)"), T.sym("file(im_path)"))
            ck.check(ok, "C19.R3", "load_data_DM:target (re, im)", ldm.site(), "target matrix is not make_complex(real file, imaginary file)")
            if items is not None and len(items) == 4:
                # every result is the file named by ITS argument (samples, training bases, list of all bases)
                for nm_, v_, arg_ in (("samples", items[0], "samples_path"), ("training bases", items[2], "tr_bases_path"), ("list of all bases", items[3], "bases_path")):
                    ck.check(isinstance(v_, VTens) and v_.term == T.sym("file(%s)" % arg_), "C19.R3", "load_data_DM:%s are read from the file given for them" % nm_, ldm.site(),
                             "the %s returned by load_data_DM are %r, not the content of the file passed as %s" % (nm_, getattr(v_, "term", None), arg_), key="C19.R3|load_data_DM|wrong file:%s" % nm_)
                for nm_, v_ in (("samples", items[0]), ("training bases", items[2]), ("list of all bases", items[3])):
                    rk = len(v_.shape) if isinstance(v_, VTens) and v_.shape is not None else None
                    ck.check(rk == 2, "C19.R3", "load_data_DM:%s keep two axes for every file" % nm_, ldm.site(),
                             "the %s are what np.loadtxt returns without ndmin=2: a file with a single row or a single column is squeezed to a 1-D array" % nm_, key="C19.R3|load_data_DM|loadtxt-squeezes:%s" % nm_)
            for nones in (("re_path",), ("im_path",)):
                paths = paths_of(prog, mk(names, nones))
                ck.check(all(q.outcome == "raise" and q.value.exc_name == "ValueError" for q in paths), "C19.R3", "load_data_DM:refuses only %s missing" % nones[0], ldm.site(),
                         "a target with only one of the two matrix files is accepted")
            p = single(paths_of(prog, mk(names, ("re_path", "im_path"))), "load_data_DM/no target")
            items = p.interp.concrete_items(p.value)
            ck.check(items is not None and len(items) == 3, "C19.R3", "load_data_DM:no target", ldm.site(), "without matrix files the result is not [samples, bases, all bases]")
    ex = prog.func(D, "extract_refbasis_samples")
    with ck.guard("C19.R3", "extract_refbasis_samples", ex.site()):
        def th6(it):
            return it.call_function(VFunc(ex), [tens(it, "S", ("N", "nv")), api.bases_arr(it, "bases", "N")], {}, None)

        rets = [p for p in paths_of(prog, th6) if p.outcome == "return"]
        ck.check(len(rets) >= 1, "C19.R3", "extract_refbasis_samples:returns", ex.site(), "never returns")
        for p in rets:
            t = p.value.term
            mask = T.app("all", T.app("cmp_Eq", T.sym("bases"), T.sym("lit:'Z'")), (-1,))
            want = T.app("index", T.sym("S"), (("adv", mask),))
            name = "extract_refbasis_samples:rows whose basis is all Z [%s]" % ",".join(str(c[2]) for c in p.conds)
            at = t.single_atom() if t is not None else None
            msk = None
            if at is not None and isinstance(at, T.App) and at.op == "index" and at.args[0] == T.sym("S") and at.args[1] and isinstance(at.args[1][0], (tuple, list)) and at.args[1][0][0] == "adv" \
                    and all(tuple(x) == ("slice", None, None, None) for x in at.args[1][1:]):
                msk = at.args[1][0][1]
            so = [u_ for u_ in getattr(p.interp, "set_order_uses", []) if any(q_.endswith("extract_refbasis_samples") for q_ in u_[2])]
            unk_ix = t is not None and any(s_.startswith(("arr:", "ret(", "val:")) or (s_[:1] == "T" and s_[1:].isdigit()) for s_ in t.syms())
            if t == want:
                ck.ok("C19.R3", name, ex.site())
            elif so:
                # "the all-Z rows, in order": row numbers that went through a set have lost their order
                ck.violation("C19.R3", name + ":in order", so[0][0], "the rows are selected by row numbers taken from a set (%s): the reference-basis samples come back complete but not in the order of the data" % so[0][1],
                             key="C19.R3|extract_refbasis_samples|rows from a set")
            elif unk_ix:
                ck.undecided("C19.R3", name, ex.site(), "the rows are selected by an index the analyser does not follow: %r" % (t,))
            elif t is not None and "lit:'Z'" not in t.syms():
                ck.violation("C19.R3", name, ex.site(), "the reference basis literal 'Z' is not what rows are compared with: %r" % (t,))
            elif msk is not None and row_mask_table(msk) is not None:
                # complete decision: the truth table of the mask over a two-site row (site holds 'Z' / does not)
                tab = row_mask_table(msk, nsites=3)
                bad = [row for row, keep in sorted(tab.items(), reverse=True) if keep != all(row)]
                if not bad:
                    ck.ok("C19.R3", name, ex.site(), mask=str(msk))
                else:
                    ex_row = " ".join("Z" if z else "X" for z in bad[0])
                    ck.violation("C19.R3", name, ex.site(), "a row with bases '%s' is %s; exactly the rows whose every site is Z must be returned" % (ex_row, "kept" if tab[bad[0]] else "dropped"))
            else:
                ck.undecided("C19.R3", name, ex.site(), "result %r is not samples[<mask over the bases>]" % (t,))
    # ------------------------------------------------------------------ R4 history independence of the enumeration
    from .history import check_history

    for cls in ("PositiveWaveFunction", "ComplexWaveFunction", "DensityMatrix"):
        def mk(it, cls=cls):
            return (make_state(it, cls),)

        check_history(ck, "C19.R4", cls + ".generate_hilbert_space(n)", ghs.site(), mk, lambda it, c: call(it, c[0], "generate_hilbert_space", api.intsym("n")), inputs=False)
        check_history(ck, "C19.R4", cls + ".generate_hilbert_space()", ghs.site(), mk, lambda it, c: call(it, c[0], "generate_hilbert_space"), inputs=False)
    from .history import check_after

    for cls in ("PositiveWaveFunction", "DensityMatrix"):
        def mk(it, cls=cls):
            return (make_state(it, cls),)

        check_after(ck, "C19.R4", cls + ".generate_hilbert_space(n) after the full space was generated", ghs.site(), mk,
                    lambda it, c: call(it, c[0], "generate_hilbert_space"), lambda it, c: call(it, c[0], "generate_hilbert_space", api.intsym("n")))
        check_after(ck, "C19.R4", cls + ".generate_hilbert_space() after a smaller space was generated", ghs.site(), mk,
                    lambda it, c: call(it, c[0], "generate_hilbert_space", api.intsym("n")), lambda it, c: call(it, c[0], "generate_hilbert_space"))
    ck.require_min("C19.R4", 6)
    ck.require_min("C19.R1", 9)
    ck.require_min("C19.R2", 8)
    ck.require_min("C19.R3", 14)
    ck.assumptions += [
        "np.arange ascends; 1 << k and 2 ** k are increasing in k; x[..., ::-1] reverses the last axis; boolean row masks preserve order",
        "np.loadtxt parsing is trusted",
    ]
