"""C04 – basis rotations: default unitaries (exact constant evaluation), row/column binding of the model
path and the explicit path, index provenance in _rotate_basis_state, Kronecker sweep order."""
import ast
from fractions import Fraction

from .. import terms as T
from .common import *  # noqa: F401,F403
from . import api

U = "qucumber.utils.unitaries"


# ------------------------------------------------------------------------------ exact 2x2 complex arithmetic over Q(sqrt 2)
class Q2:
    """(re + i im) * (1/sqrt2)^k with rational re, im."""

    def __init__(self, re, im=0, k=0):
        re, im = Fraction(re), Fraction(im)
        while k >= 2:
            re, im, k = re / 2, im / 2, k - 2
        if re == 0 and im == 0:
            k = 0
        self.re, self.im, self.k = re, im, k

    def __mul__(self, o):
        return Q2(self.re * o.re - self.im * o.im, self.re * o.im + self.im * o.re, self.k + o.k)

    def __add__(self, o):
        if self.re == 0 and self.im == 0:
            return o
        if o.re == 0 and o.im == 0:
            return self
        if self.k != o.k:
            raise ValueError("mixed sqrt(2) powers")
        return Q2(self.re + o.re, self.im + o.im, self.k)

    def conj(self):
        return Q2(self.re, -self.im, self.k)

    def __eq__(self, o):
        return (self.re, self.im, self.k) == (o.re, o.im, o.k)

    def __repr__(self):
        return "(%s%+si)/sqrt2^%d" % (self.re, self.im, self.k)


def entry(t):
    """Poly -> (Fraction, k) for c * sqrt(2)^-k."""
    c = t.const_value()
    if c is not None:
        return c, 0
    sm = t.single_mono()
    if sm is None:
        return None
    mono, c = sm
    if len(mono) == 1 and isinstance(mono[0][0], T.App) and mono[0][0].op == "sqrt" and mono[0][0].args[0] == T.const(2) and mono[0][1] < 0:
        return c, -mono[0][1]
    return None


def matrix_of(term):
    """term of a (2,2,2) literal tensor -> 2x2 list of Q2, or None."""
    def comps(t):
        c = T.as_stack0(t)
        if c is not None:
            return list(c)
        # a scalar factor times a stack0
        sm = t.single_mono()
        if sm is not None:
            mono, cf = sm
            st = [a for a, p in mono if isinstance(a, T.App) and a.op == "stack0" and p == 1]
            rest = [(a, p) for a, p in mono if not (isinstance(a, T.App) and a.op == "stack0")]
            if len(st) == 1:
                f = T.Poly({tuple(rest): cf})
                return [x * f for x in st[0].args]
        return None

    top = comps(term)
    if top is None or len(top) != 2:
        return None
    parts = []
    for part in top:
        rows = comps(part)
        if rows is None or len(rows) != 2:
            return None
        m = []
        for r in rows:
            es = comps(r)
            if es is None or len(es) != 2:
                return None
            m.append([entry(e) for e in es])
        parts.append(m)
    if any(e is None for part in parts for row in part for e in row):
        return None
    M = [[None, None], [None, None]]
    for i in range(2):
        for j in range(2):
            (re, k1), (im, k2) = parts[0][i][j], parts[1][i][j]
            k = max(k1, k2) if re != 0 and im != 0 else (k1 if re != 0 else k2)
            if re != 0 and im != 0 and k1 != k2:
                return None
            M[i][j] = Q2(re, im, k)
    return M


def mm(A, B):
    return [[A[i][0] * B[0][j] + A[i][1] * B[1][j] for j in range(2)] for i in range(2)]


def dag(A):
    return [[A[j][i].conj() for j in range(2)] for i in range(2)]


ONE, ZERO, IM = Q2(1), Q2(0), Q2(0, 1)
I2 = [[ONE, ZERO], [ZERO, ONE]]
SX = [[ZERO, ONE], [ONE, ZERO]]
SY = [[ZERO, Q2(0, -1)], [IM, ZERO]]
DIAG = [[ONE, ZERO], [ZERO, Q2(-1)]]


def _strip_wrappers(t):
    """peel trunc / unsq / long-like wrappers off a single-atom term"""
    while t is not None:
        a = t.single_atom()
        if isinstance(a, T.App) and a.op in ("trunc", "unsq", "floor") and a.args and hasattr(a.args[0], "terms"):
            t = a.args[0]
            continue
        return t
    return t


def _complementary(r, s):
    """the site sets r and s are nonzero(<cond>) of complementary element-wise tests of the same operands"""
    ra, sa = (x.single_atom() if x is not None else None for x in (r, s))
    if not (isinstance(ra, T.App) and isinstance(sa, T.App) and ra.op == sa.op == "nonzero"):
        return False
    ca, cb = (x.args[0].single_atom() if hasattr(x.args[0], "single_atom") else None for x in (ra, sa))
    if not (isinstance(ca, T.App) and isinstance(cb, T.App)):
        return False
    return {ca.op, cb.op} == {"cmp_Eq", "cmp_NotEq"} and ca.args == cb.args


def index_table_verdict(idx, vterm, nsites):
    """Are the entries read from an explicitly given psi / rho those at the Hilbert-space indices of the expanded states `vterm`?
    index(v) = sum over the sites j of v[..., j] * 2^(n-1-j).  Accepted: the whole-row form matmul(v, w) (the weights w of the
    converter are C19.R1's subject), or a sum of parts matmul(<columns of the states / the written bit table>, w_part) over a
    partition of the sites, each with w_part = 2^(n-1-<those sites>).  (True, None) / (False, why) / (None, why)."""
    if idx is None or vterm is None:
        return None, "index table or expanded states not followed"
    whole = _strip_wrappers(idx)
    wa = whole.single_atom() if whole is not None else None
    if isinstance(wa, T.App) and wa.op == "matmul" and wa.args[0] == vterm:
        return True, None
    # (the same product in its normal form: batch axes added to the states are moved outside the product)
    for m_ in (whole.all_atoms() if whole is not None else []):
        if isinstance(m_, T.App) and m_.op == "matmul" and len(m_.args) == 2 and _strip_wrappers(T.app("matmul", vterm, m_.args[1])) == whole:
            return True, None
    va = vterm.single_atom()
    if not (isinstance(va, T.App) and va.op == "upd"):
        return None, "expanded states are not an overwrite of some sites of the repeated states"
    spec, written = va.args[1], _strip_wrappers(va.args[2])
    rot = [x[1] for x in spec if isinstance(x, (tuple, list)) and len(x) == 2 and x[0] == "adv"]
    if len(rot) != 1:
        return None, "written sites not one index array"
    rot = rot[0]
    parts = []
    for mono, c in idx.terms.items():
        if c != 1 or len(mono) != 1 or mono[0][1] != 1:
            return None, "index table is not a plain sum of parts"
        pa = _strip_wrappers(T.P(mono[0][0])).single_atom()
        if not (isinstance(pa, T.App) and pa.op == "matmul"):
            return None, "a part of the index table is not <columns> . <weights>"
        parts.append((pa.args[0], pa.args[1]))
    if len(parts) != 2:
        return None, "%d parts" % len(parts)
    seen = {}
    for cols, w in parts:
        ca = cols.single_atom()
        if cols == written:
            sites, what = rot, "rotated"
        elif isinstance(ca, T.App) and ca.op == "index" and ca.args[0] == T.sym("states"):
            sel = [x[1] for x in ca.args[1] if isinstance(x, (tuple, list)) and len(x) == 2 and x[0] == "adv"]
            if len(sel) != 1 or any(isinstance(x, (tuple, list)) and x and x[0] == "slice" and tuple(x[1:]) != (None, None, None) for x in ca.args[1]):
                return None, "column selection of the states not recognised"
            sites, what = sel[0], "kept"
        else:
            return None, "columns %r are neither the written bits nor columns of the states" % (cols,)
        seen[what] = (sites, w)
    if set(seen) != {"rotated", "kept"} or seen["rotated"][0] != rot or not _complementary(rot, seen["kept"][0]):
        return None, "the parts do not visibly partition the sites into the rotated and the other ones"
    for what, (sites, w) in seen.items():
        want = T.app("pow", T.const(2), nsites - 1 - sites)
        if w == want:
            continue
        wa_ = w.single_atom()
        if isinstance(wa_, T.App) and wa_.op == "pow" and wa_.args[0] == T.const(2) and hasattr(wa_.args[1], "all_atoms"):
            sa_ = sites.single_atom()
            if sa_ not in set(wa_.args[1].all_atoms()):
                return False, ("the %s sites enter the index with weights %r, which do not depend on where those sites are: site j of n has the place value 2^(n-1-j) "
                               "(the entries read are those of other basis states whenever such a site is not at its compact position)" % (what, w))
        return None, "weights %r of the %s sites not recognised (expected %r)" % (w, what, want)
    return True, None


def run(ck):
    prog = ck.program
    cd = prog.func(U, "create_dict")
    # ------------------------------------------------------------------ R1 default dictionary
    with ck.guard("C04.R1", "create_dict", cd.site()):
        for p in returning(paths_of(prog, lambda it: it.call_function(VFunc(cd), [], {}, None)), "create_dict"):
            d = p.value
            keys = list(d.obj.items.keys()) if isinstance(d, VDict) and d.obj.items is not None else None
            ck.check(keys is not None and set(keys) == {"X", "Y", "Z"}, "C04.R1", "default keys X, Y, Z", cd.site(), "default dictionary has keys %s" % keys)
            mats = {}
            for k in ("X", "Y", "Z"):
                v = d.obj.items.get(k) if keys else None
                M = matrix_of(v.term) if isinstance(v, VTens) and v.term is not None else None
                ck.check(True if M is not None else None, "C04.R1", "%s: literal 2x2 complex matrix" % k, cd.site(), "the %s entry is not a literal (2,2,2) tensor over Q(sqrt 2): %r" % (k, getattr(v, "term", None)))
                ck.check(shape_is(v, (2, 2, 2)), "C04.R1", "%s: shape (2,2,2)" % k, cd.site(), "the %s entry has shape %s" % (k, getattr(v, "shape", None)))
                mats[k] = M
            if mats.get("Z") is not None:
                ck.check(mats["Z"] == I2, "C04.R1", "Z is the identity", cd.site(), "the Z unitary is %s, expected the identity" % (mats["Z"],))
            for k, S in (("X", SX), ("Y", SY)):
                M = mats.get(k)
                if M is None:
                    continue
                try:
                    uni = mm(M, dag(M))
                    ck.check(uni == I2, "C04.R1", "%s is unitary" % k, cd.site(), "%s %s^dagger = %s, expected the identity" % (k, k, uni))
                    rot = mm(mm(M, S), dag(M))
                    if rot == DIAG:
                        ck.ok("C04.R1", "%s: rows are the conjugated +1 / -1 eigenvectors of sigma_%s" % (k, k.lower()), cd.site(), U_sigma_Udag=str(rot))
                    elif rot == [[Q2(-1), ZERO], [ZERO, ONE]]:
                        ck.violation("C04.R1", "%s: rows are the conjugated +1 / -1 eigenvectors of sigma_%s" % (k, k.lower()), cd.site(),
                                     "U sigma_%s U^dagger = diag(-1, +1): the eigenvector rows are in the wrong order" % k.lower())
                    else:
                        ck.violation("C04.R1", "%s: rows are the conjugated +1 / -1 eigenvectors of sigma_%s" % (k, k.lower()), cd.site(),
                                     "U sigma_%s U^dagger = %s, expected diag(+1, -1): the matrix does not rotate into the %s basis" % (k.lower(), rot, k))
                except ValueError:
                    ck.undecided("C04.R1", "%s algebra" % k, cd.site(), "entries mix different powers of sqrt(2)")
    with ck.guard("C04.R1", "create_dict twice", cd.site()):
        # every dictionary handed out has its own tensors: editing one (users overwrite and conjugate entries in place) must not
        # change what the next create_dict() - and with it every state built afterwards - rotates with
        def th2(it):
            a = it.call_function(VFunc(cd), [], {}, None)
            b = it.call_function(VFunc(cd), [], {}, None)
            return a, b

        for p in returning(paths_of(prog, th2), "create_dict twice"):
            a, b = p.value
            ia, ib = (a.obj.items or {}) if isinstance(a, VDict) else {}, (b.obj.items or {}) if isinstance(b, VDict) else {}
            ck.check(a.obj is not b.obj, "C04.R1", "each call returns its own dictionary", cd.site(), "two create_dict() calls return the same dictionary object")
            for k in sorted(set(ia) & set(ib)):
                va, vb = ia[k], ib[k]
                if not (isinstance(va, VTens) and isinstance(vb, VTens)):
                    continue
                shared = bool(va.obj.roots() & vb.obj.roots())
                glob = [o.origin for o in (va.obj.roots() | vb.obj.roots()) if str(o.origin).startswith("global:")]
                ck.check(not shared and not glob, "C04.R1", "%s: each dictionary has its own tensor" % k, cd.site(),
                         "the %s entry of two dictionaries from create_dict() is the same tensor%s: an in-place edit of one dictionary changes every other dictionary and every state built later"
                         % (k, " (module-level %s)" % glob[0] if glob else ""), key="C04.R1|shared-default|%s" % k)
    with ck.guard("C04.R1", "create_dict(**user)", cd.site()):
        def thu(it):
            x = api.cx_t(it, "userX", (2, 2))
            r = it.call_function(VFunc(cd), [], {"X": x, "H": it.new_list([it.new_list([it.new_list([VConst(1.0), VConst(0.0)]), it.new_list([VConst(0.0), VConst(1.0)])]),
                                                                           it.new_list([it.new_list([VConst(0.0), VConst(0.0)]), it.new_list([VConst(0.0), VConst(0.0)])])])}, None)
            return x, r

        def thg(it):
            # a user unitary written as nested python lists of floats (e.g. 1 / sqrt(2)): the values must arrive in the dictionary unrounded
            f_ = lambda n: VNum("float", T.sym(n))  # noqa: E731
            g = it.new_list([it.new_list([it.new_list([f_("g00r"), f_("g01r")]), it.new_list([f_("g10r"), f_("g11r")])]),
                             it.new_list([it.new_list([f_("g00i"), f_("g01i")]), it.new_list([f_("g10i"), f_("g11i")])])])
            return it.call_function(VFunc(cd), [], {"G": g}, None)

        for p in returning(paths_of(prog, thg), "create_dict(user list of floats)"):
            nar = p.interp.narrowings
            ck.check(not nar, "C04.R1", "user unitary given as python floats is stored in double precision", nar[0][0] if nar else cd.site(),
                     "create_dict(G=<nested list of python floats>): %s before the conversion to double - the stored unitary is the user's matrix rounded to single precision (entries off by ~3e-8, "
                     "rotated amplitudes by ~1e-7), not the per-site unitary the user gave" % (nar[0][1] if nar else ""), key="C04.R1|create_dict|user floats rounded to float32")
            v = p.value.obj.items.get("G") if isinstance(p.value, VDict) and p.value.obj.items else None
            ck.check(shape_is(v, (2, 2, 2)), "C04.R1", "user unitary given as python floats: shape (2,2,2)", cd.site(), "the stored entry has shape %s" % (getattr(v, "shape", None),))

        # a user unitary may only be refused for not being one: if a path refuses the symbolic matrix U = (Ur, Ui), the established
        # condition must be about U U^dagger (or U^dagger U) = 1, i.e. real part Ur Ur^T + Ui Ui^T (resp. Ur^T Ur + Ui^T Ui)
        for p in [q for q in paths_of(prog, thu) if q.outcome == "raise" and getattr(q.value, "exc_name", "") in ("ValueError", "AssertionError", "TypeError")]:
            xr, xi = T.sym("userXr"), T.sym("userXi")
            mm_ = lambda a_, b_: T.app("matmul", a_, b_)  # noqa: E731
            good = {mm_(xr, T.app("t", xr)) + mm_(xi, T.app("t", xi)), mm_(T.app("t", xr), xr) + mm_(T.app("t", xi), xi)}
            tested = []
            for c in p.conds:
                t_ = getattr(c[3] if len(c) > 3 else None, "term", None)
                if t_ is None or not (t_.syms() & {"userXr", "userXi"}):
                    continue
                for a_ in t_.all_atoms():
                    if isinstance(a_, T.App) and a_.op in ("tensor_equal", "tensor_allclose"):
                        for z in a_.args:
                            cz = T.as_stack0(z) if hasattr(z, "terms") else None
                            if cz is not None and len(cz) == 2 and (cz[0].syms() & {"userXr", "userXi"}):
                                tested.append(cz[0])
            if tested:
                ck.check(all(z in good for z in tested), "C04.R1", "a user unitary is refused only for not being unitary [%s]" % _c(p), cd.site(),
                         "create_dict refuses a user matrix when %s differs from the identity; unitarity is U U^dagger = 1, real part Ur Ur^T + Ui Ui^T - a product without the transpose "
                         "is the identity only for symmetric unitaries, every other valid unitary (H S^dagger, the default Y matrix itself) is refused" % (str(tested[0])[:90],),
                         key="C04.R1|create_dict|refuses valid unitaries")
            else:
                ck.undecided("C04.R1", "a user unitary is refused only for not being unitary [%s]" % _c(p), cd.site(), "create_dict can refuse a user matrix on a condition the analyser does not recognise")
        for p in returning(paths_of(prog, thu), "create_dict(user)"):
            x, r = p.value
            items = r.obj.items
            ck.check(set(items.keys()) == {"X", "Y", "Z", "H"}, "C04.R1", "user entries added", cd.site(), "keys with user entries: %s" % sorted(items.keys()))
            ux = items.get("X")
            ck.check(isinstance(ux, VTens) and ux.term == x.term, "C04.R1", "user entry overrides the default with the same key", cd.site(), "a user-supplied X does not replace the default X")
            ck.check(isinstance(ux, VTens) and ux.obj is not x.obj, "C04.R1", "user tensor is copied", cd.site(), "the user's tensor is stored without copying")
    # ------------------------------------------------------------------ R2 row/column binding
    rrp = prog.func(U, "rotate_rho_probs")
    for which in ("model", "explicit"):
        inst = "rotate_rho_probs/" + which
        with ck.guard("C04.R2", inst, rrp.site()):
            def th(it):
                s = make_state(it, "DensityMatrix")
                kw = {"include_extras": VConst(True)}
                if which == "explicit":
                    kw["rho"] = api.cx_t(it, "R", ("N", "N"))
                return it.call_function(VFunc(rrp), [s, api.basis_str(it), tens(it, "states", ("B", "nv"))], kw, None)

            paths = [p for p in paths_of(prog, th, sticky=True, max_paths=30) if p.outcome == "return"]
            ck.check(bool(paths), "C04.R2", inst + ":returns", rrp.site(), "rotate_rho_probs never returns")
            for p in paths:
                it = p.interp
                pn = _c(p)
                es = [c for c in it.ext_calls if c[0] == "numpy.einsum" and within(c, "rotate_rho_probs")]
                if len(es) != 1:
                    ck.undecided("C04.R2", inst + ":factor tensor [%s]" % pn, rrp.site(), "the factor tensor U (x) conj U is not built by exactly one np.einsum (found %d)" % len(es))
                    continue
                ok_, spec = const_of(es[0][1][0])
                ops = es[0][1][1:]
                ins, out = spec.replace(" ", "").split("->")[0].split(","), spec.replace(" ", "").split("->")[1]
                conj_flags = [_is_conj(getattr(o, "term", None)) for o in ops]
                inner_ = [(lambda a_: a_.args[0] if isinstance(a_, T.App) and a_.op == "npconj" else getattr(o, "term", None))(getattr(o, "term", None).single_atom() if getattr(o, "term", None) is not None else None) for o in ops]
                if all(t_ is not None and hasattr(t_, "is_const") and t_.is_const() for t_ in inner_):
                    # no rotated site on this path: both factors are the constant 1, which is its own conjugate
                    ck.ok("C04.R2", inst + ":row index with U, column index with conj(U) (no rotated site: factors are 1) [%s]" % pn, rrp.site())
                    ones_only = True
                else:
                    ones_only = False
                if ones_only:
                    conj_flags = [False, True]  # either operand may play either role
                if len(ins) != 2 or len(out) != 3 or conj_flags.count(True) != 1:
                    ck.undecided("C04.R2", inst + ":factor tensor [%s]" % pn, rrp.site(), "factor einsum %r with conj flags %s not recognised" % (spec, conj_flags))
                    continue
                ket_op, bra_op = conj_flags.index(False), conj_flags.index(True)
                ket_letter = [l for l in ins[ket_op] if l not in ins[bra_op]]
                bra_letter = [l for l in ins[bra_op] if l not in ins[ket_op]]
                if len(ket_letter) != 1 or len(bra_letter) != 1:
                    ck.undecided("C04.R2", inst + ":factor tensor [%s]" % pn, rrp.site(), "cannot tell the expansion letters of %r" % spec)
                    continue
                ket_ax, bra_ax = out.index(ket_letter[0]), out.index(bra_letter[0])
                batch_ax = [i for i, l in enumerate(out) if l not in (ket_letter[0], bra_letter[0])]
                # matrix multiplied into the factor tensor
                # (the conversion made where the matrix meets the factor tensor: calls written in rotate_rho_probs itself - a helper
                # may convert other things, e.g. the unitaries)
                nc = [c for c in p.calls if c[0].endswith("cplx.numpy") and "rotate_rho_probs" in str(c[3])]
                if len(nc) != 1:
                    # ... or the one conversion, in a helper, whose argument is the matrix itself (the model's rho / the entries
                    # selected from the given rho)
                    rres = [c_[6] for c_ in p.calls if c_[0] == "DensityMatrix.rho" and c_[6] is not None]
                    nc = [c for c in p.calls if c[0].endswith("cplx.numpy") and within(c, "rotate_rho_probs") and c[7].get("x") is not None
                          and (c[7].get("x") in rres or (which != "model" and bool(c[7].get("x").syms() & {"Rr", "Ri"})))]
                if len(nc) != 1:
                    ck.undecided("C04.R2", inst + ":matrix [%s]" % pn, rrp.site(), "the matrix multiplied into the factor tensor is not converted by one cplx.numpy call")
                    continue
                mt = nc[0][7].get("x")
                if which == "model":
                    rc = [c for c in p.calls if c[0] == "DensityMatrix.rho"]
                    okm = len(rc) == 1 and rc[0][6] == mt and isinstance(rc[0][5].get("vp"), VConst) and rc[0][5].get("expand").value is True
                    row_ax, col_ax = 0, 1  # C02.R2: rho(v, vp) puts v on the first and vp on the second matrix axis
                    ck.check(bool(okm), "C04.R2", inst + ":uses rho(v) of the expanded states unchanged [%s]" % pn, rrp.site(), "the model matrix is not nn_state.rho(v) (expanded) used as is")
                else:
                    at = mt.single_atom() if mt is not None else None
                    if at is None or not isinstance(at, T.App) or at.op != "index" or len(at.args[1]) != 3:
                        ck.undecided("C04.R2", inst + ":matrix [%s]" % pn, rrp.site(), "explicit rho is not selected by rho[:, rows, cols]: %r" % (mt,))
                        continue
                    sp = at.args[1]
                    pos = []
                    for k in (1, 2):
                        it_ = sp[k]
                        e_ax = None
                        if isinstance(it_, tuple) and it_[0] == "adv":
                            # (a table that is a sum of parts is spread part by part: every part the same way)
                            parts_ = [m_[0][0] for m_, c_ in it_[1].terms.items() if c_ == 1 and len(m_) == 1 and m_[0][1] == 1] if hasattr(it_[1], "terms") else []
                            found = set()
                            for a in parts_ if len(parts_) == len(getattr(it_[1], "terms", ())) else []:
                                if isinstance(a, T.App) and a.op == "unsq" and a.args[2] == 3:
                                    ppos = a.args[1] + a.args[2]
                                    found.add(None if ppos == 2 else (0 if ppos >= 1 else 1))  # where the expansion axis of idx (E, B) lands
                                else:
                                    found.add(None)
                            if len(found) == 1:
                                e_ax = found.pop()
                        pos.append(e_ax)
                    # (the table itself, before it is spread over the row / column axis)
                    for k in (1, 2):
                        it_ = sp[k]
                        if isinstance(it_, tuple) and it_[0] == "adv":
                            tab = it_[1]
                            outer_ = [m_[0][0] for m_, c_ in tab.terms.items() if c_ == 1 and len(m_) == 1 and m_[0][1] == 1]
                            if outer_ and len(outer_) == len(tab.terms) and all(isinstance(a, T.App) and a.op == "unsq" for a in outer_):
                                tab = sum((a.args[0] for a in outer_), T.ZERO)
                            rv_ = it.concrete_items(p.value)
                            vt_ = rv_[2].term if rv_ is not None and len(rv_) == 3 and isinstance(rv_[2], VTens) else None
                            vd, why = index_table_verdict(tab, vt_, T.sym("nv"))
                            ck.check(vd, "C04.R2", inst + ":%s read are those of the expanded states [%s]" % ("rows" if k == 1 else "columns", pn), rrp.site(), why or "",
                                     key="C04.R2|rotate_rho_probs|explicit index table")
                    if None in pos:
                        ck.undecided("C04.R2", inst + ":matrix [%s]" % pn, rrp.site(), "row/column index tensors not recognised: %r" % (sp,))
                        continue
                    row_ax, col_ax = pos
                    ck.check(row_ax != col_ax, "C04.R2", inst + ":rows and columns on different axes [%s]" % pn, rrp.site(), "row and column selectors vary along the same axis: only diagonal elements are read")
                okb = (row_ax == ket_ax and col_ax == bra_ax) or ones_only
                ck.check(okb, "C04.R2", inst + ":row index with U, column index with conj(U) [%s]" % pn, rrp.site(),
                         "rho's ROW index runs along axis %d and its COLUMN index along axis %d of the summand, but the non-conjugated factor U runs along axis %d and conj(U) along axis %d: "
                         "(U rho U^dagger)_ss = sum_ij U_si rho_ij conj(U_sj) needs rows with U - the probabilities of the transposed matrix are returned for bases containing Y" % (row_ax, col_ax, ket_ax, bra_ax),
                         key="C04.R2|rotate_rho_probs|%s-branch-transposed" % which)
                # reduction removes exactly the two expansion axes
                r = p.value
                items = it.concrete_items(r)
                if items is not None and len(items) == 3:
                    tot, terms_v, v = items
                    if isinstance(tot, VTens) and isinstance(terms_v, VTens) and terms_v.shape is not None and tot.shape is not None:
                        ck.check(tot.shape == tuple(terms_v.shape[3:]) and len(terms_v.shape) == 4, "C04.R2", inst + ":sum over the two expansion axes only [%s]" % pn, rrp.site(),
                                 "summand has shape %s and the result %s: the reduction does not remove exactly the two expansion axes" % (terms_v.shape, tot.shape))
    rpi = prog.func(U, "rotate_psi_inner_prod")
    for which in ("model", "explicit"):
        inst = "rotate_psi_inner_prod/" + which
        with ck.guard("C04.R2", inst, rpi.site()):
            def thp(it):
                s = make_state(it, "ComplexWaveFunction")
                kw = {"include_extras": VConst(True)}
                if which == "explicit":
                    kw["psi"] = api.cx_t(it, "PSI", ("N",))
                return it.call_function(VFunc(rpi), [s, api.basis_str(it), tens(it, "states", ("B", "nv"))], kw, None)

            paths = [p for p in paths_of(prog, thp, sticky=True, max_paths=30) if p.outcome == "return"]
            ck.check(bool(paths), "C04.R2", inst + ":returns", rpi.site(), "never returns")
            for p in paths:
                items = p.interp.concrete_items(p.value)
                if items is None or len(items) != 3:
                    ck.undecided("C04.R2", inst, rpi.site(), "extras not returned as a triple")
                    continue
                tot, terms_v, v = items
                if terms_v.shape is not None and tot.shape is not None and len(terms_v.shape) == 3:
                    ck.check(tot.shape == (2,) + tuple(terms_v.shape[2:]), "C04.R2", inst + ":sum over the expansion axis only [%s]" % _c(p), rpi.site(),
                             "summand %s -> result %s: the reduction does not remove exactly the expansion axis" % (terms_v.shape, tot.shape))
                nc = [c for c in p.calls if c[0].endswith("cplx.numpy") and "rotate_psi_inner_prod" in str(c[3])]
                if not nc:
                    pres = [c_[6] for c_ in p.calls if c_[0].endswith(".psi") and c_[6] is not None]
                    nc = [c for c in p.calls if c[0].endswith("cplx.numpy") and within(c, "rotate_psi_inner_prod") and c[7].get("x") is not None
                          and (c[7].get("x") in pres or (which != "model" and bool(c[7].get("x").syms() & {"PSIr", "PSIi"})))]
                if which == "model" and nc:
                    pc = [c for c in p.calls if c[0].endswith(".psi") and within(c, "rotate_psi_inner_prod")]
                    vt_ = v.term if isinstance(v, VTens) else None
                    ck.check(any(c_[6] == nc[0][7].get("x") and c_[7].get("v") == vt_ for c_ in pc), "C04.R2", inst + ":amplitudes of the expanded states [%s]" % _c(p), rpi.site(),
                             "the amplitudes multiplied into the unitary factors are not psi(expanded states)")
                # the amplitudes are multiplied by the entries U[outcome, input] themselves: a factor built from conjugate-transposed
                # entries must have been conjugated back (exactly one of the two)
                tv_ = terms_v.term if isinstance(terms_v, VTens) else None
                if tv_ is not None:
                    n_conj = sum(1 for a_ in tv_.all_atoms() if isinstance(a_, T.App) and a_.op == "npconj" and not (hasattr(a_.args[0], "is_const") and a_.args[0].is_const()))
                    dag_ = _dagger_entries(tv_)
                    if dag_ or n_conj:
                        ck.check((n_conj % 2 == 1) == dag_, "C04.R2", inst + ":amplitudes multiplied by U, not conj(U) [%s]" % _c(p), rpi.site(),
                                 "the summand is psi(v) times the conjugate of U[outcome, input] (%s): the entries of conj(U) psi are returned, which differ from U psi for every basis with a non-real unitary (Y)"
                                 % ("the factor is built from conjugate-transposed entries and never conjugated back" if dag_ else "the factor is conjugated although it holds the entries of U"),
                                 key="C04.R2|rotate_psi_inner_prod|conjugated factor")
                if which == "explicit" and nc:
                    mt = nc[0][7].get("x")
                    at = mt.single_atom() if mt is not None else None
                    ok = at is not None and isinstance(at, T.App) and at.op == "index" and len(at.args[1]) == 2 and at.args[1][0] == ("slice", None, None, None) and isinstance(at.args[1][1], tuple) and at.args[1][1][0] == "adv"
                    ck.check(bool(ok), "C04.R2", inst + ":psi[:, index(expanded states)] [%s]" % _c(p), rpi.site(), "explicit psi is not read at the indices of the expanded states: %r" % (mt,))
                    if ok:
                        vd, why = index_table_verdict(at.args[1][1][1], v.term if isinstance(v, VTens) else None, T.sym("nv"))
                        ck.check(vd, "C04.R2", inst + ":entries read are those of the expanded states [%s]" % _c(p), rpi.site(), why or "", key="C04.R2|rotate_psi_inner_prod|explicit index table")
    # ------------------------------------------------------------------ R3 index provenance in _rotate_basis_state
    rbs = prog.func(U, "_rotate_basis_state")
    with ck.guard("C04.R3", "_rotate_basis_state", rbs.site()):
        def thr(it):
            s = make_state(it, "ComplexWaveFunction")
            return it.call_function(VFunc(rbs), [s, api.basis_str(it), tens(it, "states", ("B", "nv"))], {}, None)

        paths = [p for p in paths_of(prog, thr, sticky=True, max_paths=30) if p.outcome == "return"]
        rot = [p for p in paths if some_selected(p, "_rotate_basis_state") is True]
        flat = [p for p in paths if some_selected(p, "_rotate_basis_state") is False]
        ck.check(bool(rot) and bool(flat), "C04.R3", "rotated and unrotated branches", rbs.site(), "expected a branch with rotated sites and one without")
        check_index_truthiness(ck, "C04.R3", "_rotate_basis_state", rbs.site(), paths)
        for p in flat:
            Ut, v = p.interp.concrete_items(p.value)
            ck.check(isinstance(Ut, VTens) and Ut.term == T.ONE, "C04.R3", "no rotated site -> factor 1", rbs.site(), "without rotated sites the unitary factor is %r, expected 1" % (getattr(Ut, "term", None),))
            ck.check(isinstance(v, VTens) and v.term == T.app("unsq", T.sym("states"), -3, 3), "C04.R3", "no rotated site -> states themselves", rbs.site(), "without rotated sites the expanded states are not the states")
        for p in rot:
            Ut, v = p.interp.concrete_items(p.value)
            t = Ut.term

            def _gather_first(a):
                # Us[:, k][site, row, col] selects the same entries as Us[site, :, row, col][..., k]: one normal form (the gather, then the part)
                if isinstance(a, T.App) and a.op == "index" and len(a.args[1]) == 3 and isinstance(a.args[0], T.Poly):
                    x = a.args[0].single_atom()
                    if (isinstance(x, T.App) and x.op == "index" and len(x.args[1]) == 2 and tuple(x.args[1][0]) == ("slice", None, None, None) and x.args[1][1] in (0, 1)
                            and all(isinstance(q, tuple) and q and q[0] == "adv" for q in a.args[1])):
                        sa, ra, ca = a.args[1]
                        return T.app("index", T.app("index", x.args[0], (sa, ("slice", None, None, None), ra, ca)), ("ellipsis", x.args[1][1]))
                return None

            t = T.subst(t, _gather_first) if t is not None else None
            idxs = [a for a in (t.all_atoms() if t is not None else []) if isinstance(a, T.App) and a.op == "index" and len(a.args[1]) == 4]
            cand = [a for a in idxs if a.args[1][1] == ("slice", None, None, None)]
            lp = t.single_atom() if t is not None else None
            if len(cand) != 1 and isinstance(lp, T.App) and lp.op == "loop" and len(lp.args) >= 3 and isinstance(lp.args[2], T.Poly):
                # the factor accumulated one rotated site at a time: in every iteration the unitary that is looked up (the letter) and
                # the entry that is read (outcome, input) must belong to the same site
                # (the generic iteration: its position symbols stand for every site; the first iteration reads position 0)
                body = lp.args[3] if len(lp.args) >= 4 and isinstance(lp.args[3], T.Poly) else lp.args[2]
                sels = [a for a in body.all_atoms() if isinstance(a, T.App) and a.op == "select"]
                gath = [a for a in body.all_atoms() if isinstance(a, T.App) and a.op == "index" and len(a.args[1]) == 2 and all(isinstance(q, tuple) and q and q[0] == "adv" for q in a.args[1])
                        and any(isinstance(z, T.App) and z.op == "select" for z in (a.args[0].all_atoms() if hasattr(a.args[0], "all_atoms") else []))]

                def _site_of(ix):
                    """x[..., s] -> s for an index term; None when it is not of that form"""
                    a_ = ix.single_atom() if hasattr(ix, "single_atom") else None
                    if isinstance(a_, T.App) and a_.op == "index" and len(a_.args[1]) == 2 and a_.args[1][0] == "ellipsis" and isinstance(a_.args[1][1], tuple) and a_.args[1][1][0] == "adv":
                        return a_.args[0], a_.args[1][1][1]
                    return None

                def _letter_pos(key):
                    """position in the basis string of the letter `key`: basis[y] -> y, basis[sites][i] -> sites[i]"""
                    a_ = key.single_atom() if hasattr(key, "single_atom") else None
                    if not (isinstance(a_, T.App) and a_.op == "index" and len(a_.args[1]) == 1):
                        return None
                    inner = a_.args[0].single_atom() if hasattr(a_.args[0], "single_atom") else None
                    y = a_.args[1][0]
                    y = y[1] if isinstance(y, tuple) and y and y[0] == "adv" else y
                    if isinstance(inner, T.Sym) and inner.name == "arr:basis":
                        return T.P(y) if not isinstance(y, T.Poly) else y
                    if isinstance(inner, T.App) and inner.op == "index" and len(inner.args[1]) == 1 and isinstance(inner.args[1][0], tuple) and inner.args[1][0][0] == "adv":
                        b0 = inner.args[0].single_atom() if hasattr(inner.args[0], "single_atom") else None
                        if isinstance(b0, T.Sym) and b0.name == "arr:basis":
                            return T.app("index", inner.args[1][0][1], (y,))
                    return None

                keys = {_letter_pos(a.args[0]) for a in sels}
                sites_used, roles = set(), []
                for g in gath:
                    for q in g.args[1]:
                        so = _site_of(q[1])
                        sites_used.add(so[1] if so else None)
                    r0, r1 = _site_of(g.args[1][0][1]), _site_of(g.args[1][1][1])
                    roles.append((r0[0] if r0 else None, r1[0] if r1 else None))
                if sels and gath and None not in keys and None not in sites_used and len(keys) == 1 and len(sites_used) == 1:
                    kpos, spos = next(iter(keys)), next(iter(sites_used))
                    ck.check(kpos == spos, "C04.R3", "per-site loop: the unitary of a site's own letter [%s]" % _c(p), rbs.site(),
                             "in the loop over the rotated sites the entry is read at site %s of the outcome / input states, but the unitary is the one of the letter at position %s of the basis string: "
                             "sites and letters are paired by position in two sequences of different lengths (a Z before a rotated site shifts every later letter)" % (str(spos)[:90], str(kpos)[:90]),
                             key="C04.R3|_rotate_basis_state|letter of another site")
                    okr = all(a0 is not None and a1 is not None and "states" in a0.syms() and not any(isinstance(z, T.App) and z.op in ("upd", "repeat") for z in a0.all_atoms())
                              and any(isinstance(z, T.App) and z.op in ("upd", "repeat") for z in a1.all_atoms()) for a0, a1 in roles)
                    ck.check(True if okr else None, "C04.R3", "per-site loop: U[outcome, input] [%s]" % _c(p), rbs.site(), "row / column of the unitary entry are not recognised as (measured outcome, expanded input)")
                    continue
            if len(cand) != 1:
                ck.undecided("C04.R3", "unitary entries [%s]" % _c(p), rbs.site(), "the gather Us[site, :, outcome, input] was not found")
                continue
            sp = cand[0].args[1]
            outcome, inp = sp[2], sp[3]
            # the gathered tensor holds one unitary per *rotated* site (its first axis is indexed by the rank among them)
            base_t = cand[0].args[0]
            sel_atoms = [a for a in (base_t.all_atoms() if hasattr(base_t, "all_atoms") else []) if isinstance(a, T.App) and a.op == "nonzero"]
            site_ix = sp[0]
            by_rank = isinstance(site_ix, tuple) and site_ix[0] == "adv" and any(isinstance(a, T.App) and a.op == "arange" for a in site_ix[1].all_atoms())
            if by_rank:
                ck.check(bool(sel_atoms) if "arr:basis" in (base_t.syms() if hasattr(base_t, "syms") else set()) else None, "C04.R3", "one unitary per rotated site, in site order [%s]" % _c(p), rbs.site(),
                         "the unitaries are stacked for every letter of the basis string but indexed by the rank among the rotated sites: site k of the rotated sites gets the unitary of letter k of the string")
            so = outcome[1].syms() if isinstance(outcome, tuple) and outcome[0] == "adv" else set()
            si = inp[1].syms() if isinstance(inp, tuple) and inp[0] == "adv" else set()
            gen_o = any(isinstance(a, T.App) and a.op == "arange" for a in (outcome[1].all_atoms() if so else []))
            gen_i = any(isinstance(a, T.App) and a.op == "arange" for a in (inp[1].all_atoms() if si else []))
            ok = ("states" in so and not gen_o) and gen_i
            swapped = ("states" in si and not gen_i) and gen_o
            # the gathered matrices are the conjugate transposes of the dictionary's entries (stack(t(re), -t(im))): read at
            # [input, outcome] they give conj(U[outcome, input]) - the right entry, conjugated (what the callers do with it is R2's)
            if swapped and _dagger_entries(base_t):
                ck.ok("C04.R3", "unitary indexed [site, :, measured outcome, summed input] (conjugate transpose read at [input, outcome]) [%s]" % _c(p), rbs.site())
                swapped_dagger = True
            else:
                swapped_dagger = False
            ck.check(True if (ok or swapped_dagger) else (False if swapped else None), "C04.R3", "unitary indexed [site, :, measured outcome, summed input] [%s]" % _c(p), rbs.site(),
                     "the unitary's row index comes from %s and its column index from %s: rows must be the measured outcome (the given states) and columns the summed-over inputs (the generated subspace)" % (
                         "the generated subspace" if gen_o else "the states", "the states" if not gen_i else "the generated subspace"))
            # the factor is the product over the rotated sites of the *complex* gathered entry re + i im (user-added unitaries are complex
            # whatever letters the string contains)
            G = cand[0]
            top = t.single_atom()
            if isinstance(top, T.App) and top.op == "prod" and hasattr(top.args[0], "all_atoms"):
                def comp(a):
                    if isinstance(a, T.App) and a.op == "index" and hasattr(a.args[0], "single_atom") and a.args[0].single_atom() == G and a.args[1] and a.args[1][-1] in (0, 1):
                        return T.sym("G_re" if a.args[1][-1] == 0 else "G_im")
                    return None

                inner = T.subst(top.args[0], comp)
                wantf = T.sym("G_re") + T.sym("G_im") * T.sym("lit:1j")
                if inner == wantf:
                    ck.ok("C04.R3", "factor = prod over rotated sites of (re + i im) of the gathered entries [%s]" % _c(p), rbs.site())
                else:
                    opaque = [c for c in p.conds if len(c) > 3 and getattr(c[3], "term", None) is None and getattr(c[3], "tag", None) != "in"]  # a membership test on the basis string says nothing about the unitaries' values
                    drops = "G_im" not in inner.syms() or "G_re" not in inner.syms()
                    if drops and not opaque:
                        ck.violation("C04.R3", "factor = prod over rotated sites of (re + i im) of the gathered entries [%s]" % _c(p), rbs.site(),
                                     "on this path the unitary factor is prod(%s): the %s part of the selected unitary entries is dropped (a user-added unitary is complex whatever letters the basis string contains)"
                                     % (str(inner)[:80], "imaginary" if "G_im" not in inner.syms() else "real"), key="C04.R3|factor")
                    else:
                        ck.undecided("C04.R3", "factor = prod over rotated sites of (re + i im) of the gathered entries [%s]" % _c(p), rbs.site(), "unitary factor %s not recognised" % (str(inner)[:120],))
            else:
                ck.undecided("C04.R3", "factor = prod over rotated sites of (re + i im) of the gathered entries [%s]" % _c(p), rbs.site(), "the unitary factor is not a product over the rotated sites")
            vt = v.term if isinstance(v, VTens) else None
            at = vt.single_atom() if vt is not None else None
            okv = at is not None and isinstance(at, T.App) and at.op == "upd" and "states" in at.args[0].syms() and at.args[1][0] == "ellipsis" and any(isinstance(a, T.App) and a.op == "arange" for a in at.args[2].all_atoms())
            ck.check(True if okv else None, "C04.R3", "expanded states differ only on the rotated sites [%s]" % _c(p), rbs.site(), "expanded states are not `states` with the rotated sites overwritten by the enumerated subspace: %r" % (str(vt)[:200],))
            nz = [c for c in p.interp.ext_calls if c[0] == "numpy.where" and within(c, "_rotate_basis_state")]
            lits = set()
            for c in nz:
                if c[1] and isinstance(c[1][0], VTens) and c[1][0].term is not None:
                    lits |= {x for x in c[1][0].term.syms() if x.startswith("lit:")}
            ck.check(lits == {"lit:'Z'"}, "C04.R3", "rotated sites = sites whose basis is not 'Z' [%s]" % _c(p), rbs.site(), "rotated sites are found by comparing with %s" % sorted(lits))
    # ------------------------------------------------------------------ R4 Kronecker sweep order
    km = prog.func(U, "_kron_mult")
    with ck.guard("C04.R4", "_kron_mult", km.site()):
        _check_kron(ck, prog, km)
    rr = prog.func(U, "rotate_rho")
    with ck.guard("C04.R4", "rotate_rho", rr.site()):
        # rotate_rho(rho) = U rho U^dagger for EVERY complex matrix rho (the quantifier names non-symmetric complex ones): decided
        # as an operator word.  The Kronecker sweep K(us, X) is U X (decided by the rules above), cplx.conjugate is X -> X^dagger.
        cj_f = prog.func("qucumber.utils.cplx", "conjugate")

        def _stub_k(it, func, env, node):
            x = argp(env, 1)
            # which operator the sweep applies: the list of the first sweep is U; another list is U* when its matrices are the
            # complex conjugates of the first one's, anything else is not followed
            ms = argp(env, 0)
            first = it.__dict__.setdefault("_rr_first_us", ms)
            op_ = "kmul"
            if ms is not first:
                a_, b_ = it.concrete_items(first), it.concrete_items(ms)
                same = a_ is not None and b_ is not None and len(a_) == len(b_) and all(isinstance(p_, VTens) and isinstance(q_, VTens) and p_.term is not None and p_.term == q_.term for p_, q_ in zip(a_, b_))
                conj_ = False
                if a_ is not None and b_ is not None and len(a_) == len(b_) and not same:
                    def cj(t_):
                        c_ = T.as_stack0(t_) if t_ is not None else None
                        return T.stack0(c_[0], -c_[1]) if c_ is not None and len(c_) == 2 else None
                    conj_ = all(isinstance(p_, VTens) and isinstance(q_, VTens) and q_.term is not None and cj(p_.term) is not None and cj(p_.term) == q_.term for p_, q_ in zip(a_, b_))
                op_ = "kmul" if same else ("kmulc" if conj_ else "kmul?")
                if a_ is None and b_ is None and isinstance(first, VList) and isinstance(ms, VList):
                    # both lists are generic (one matrix per letter of a basis string of unknown length): the second one is the
                    # first one's conjugate when it is an order-preserving map over the first list whose element is the
                    # element-wise conjugate of the element it was made from
                    src_ = getattr(ms.obj, "comp_src", None)
                    p_, q_ = first.obj.elem, ms.obj.elem
                    if ms.obj is first.obj:
                        op_ = "kmul"
                    elif isinstance(src_, VList) and src_.obj is first.obj and isinstance(p_, VTens) and isinstance(q_, VTens) and p_.term is not None and q_.term is not None:
                        c_, pc_ = T.as_stack0(q_.term), T.as_stack0(p_.term)
                        part = (lambda k: pc_[k]) if pc_ is not None and len(pc_) == 2 else (lambda k: T.idx0(p_.term, k))
                        if c_ is not None and len(c_) == 2 and c_[0] == part(0) and c_[1] == -part(1):
                            op_ = "kmulc"
                        elif q_.term == p_.term:
                            op_ = "kmul"
            r = it.fresh(T.app(op_, x.term) if isinstance(x, VTens) and x.term is not None else None, getattr(x, "shape", None), "tensor", node)
            r.obj.fw = 64
            return r

        def _stub_ct(it, func, env, node):
            x = argp(env, 0)
            r = it.fresh(T.app("ctr", x.term) if isinstance(x, VTens) and x.term is not None else None, getattr(x, "shape", None), "tensor", node)
            r.obj.fw = 64
            return r

        def thq(it):
            s = make_state(it, "DensityMatrix")
            o = it.new_tobj("tensor", T.sym("RHO"), (2, "N", "N"), "param:R")
            o.fw = 64
            return it.call_function(VFunc(rr), [s, api.basis_str(it), tens(it, "space", ("N", "nv"))], {"rho": VTens(o)}, None)

        def _word(t):
            """operator word of a term built from kmul / ctr over RHO: list of tokens, or None"""
            a = t.single_atom() if t is not None and hasattr(t, "single_atom") else None
            if isinstance(a, T.Sym) and a.name == "RHO":
                return ["rho"]
            if isinstance(a, T.App) and a.op in ("kmul", "kmulc"):
                w = _word(a.args[0])
                return None if w is None else ["U" if a.op == "kmul" else "U*"] + w
            if isinstance(a, T.App) and a.op == "ctr":
                w = _word(a.args[0])
                return None if w is None else [_flip(x, "+") for x in reversed(w)]
            if isinstance(a, T.App) and a.op == "stack0" and len(a.args) == 2:
                # the element-wise conjugate written on the pair: (re X, -im X) - no exchange of axes, (A B)* = A* B*
                r0 = a.args[0].single_atom() if hasattr(a.args[0], "single_atom") else None
                if isinstance(r0, T.App) and r0.op == "idx0" and r0.args[1] == 0 and a.args[1] == -T.idx0(r0.args[0], 1):
                    w = _word(r0.args[0])
                    return None if w is None else [_flip(x, "*") for x in w]
                return None
            if isinstance(a, T.App) and a.op == "transpose" and len(a.args) == 3 and {a.args[1], a.args[2]} in ({1, 2}, {-1, -2}):
                # the matrix axes exchanged without conjugation: (A B)^T = B^T A^T
                w = _word(a.args[0])
                return None if w is None else [_flip(x, "T") for x in reversed(w)]
            return None

        def _flip(tok, mark):
            # tokens carry the marks they were given: X, X+ (conjugate transpose), XT (transpose), X* (conjugate = + and T)
            name, marks = tok.rstrip("+T*"), tok[len(tok.rstrip("+T*")):]
            conj_ = ("+" in marks) != ("*" in marks)
            tr_ = ("+" in marks) != ("T" in marks)
            if mark == "+":
                conj_, tr_ = not conj_, not tr_
            elif mark == "*":
                conj_ = not conj_
            else:
                tr_ = not tr_
            return name + ("+" if conj_ and tr_ else "*" if conj_ else "T" if tr_ else "")

        paths = [p for p in paths_of(prog, thq, sticky=True, max_paths=20, stubs={km.qualname: _stub_k, cj_f.qualname: _stub_ct}) if p.outcome == "return"]
        ck.check(bool(paths), "C04.R4", "rotate_rho returns", rr.site(), "rotate_rho(rho=...) never returns")
        for p in paths:
            w = _word(p.value.term if isinstance(p.value, VTens) else None)
            if w is None:
                ck.undecided("C04.R4", "rotate_rho = U rho U^dagger", rr.site(), "the result is not a composition of Kronecker sweeps and conjugate transposes of the given matrix: %r" % (str(getattr(p.value, "term", None))[:160],))
            else:
                ck.check(w == ["U", "rho", "U+"], "C04.R4", "rotate_rho = U rho U^dagger", rr.site(),
                         "for an explicitly given matrix rotate_rho returns %s, expected U rho U+ : for a matrix that is not Hermitian this is %s (rho+ denotes the conjugate transpose)"
                         % (" ".join(w), "the conjugate transpose of the rotated matrix" if w == ["U", "rho+", "U+"] else "another matrix"), key="C04.R4|rotate_rho|operator word")
    # ------------------------------------------------------------------ R2 siblings: the plain result is the first of the extras
    # (the rules above read the internals through include_extras=True; the call form users and KL / NLL / gradients use is
    # include_extras=False - both forms must be the same value on the same inputs)
    for fname, cls in (("rotate_psi_inner_prod", "ComplexWaveFunction"), ("rotate_rho_probs", "DensityMatrix")):
        fn_ = prog.func(U, fname)
        inst = fname + ":include_extras=False equals the first extra"
        with ck.guard("C04.R2", inst, fn_.site()):
            def ths(it, cls=cls, fn_=fn_):
                s = make_state(it, cls)
                b, st = api.basis_str(it), tens(it, "states", ("B", "nv"))
                full = it.call_function(VFunc(fn_), [s, b, st], {"include_extras": VConst(True)}, None)
                plain = it.call_function(VFunc(fn_), [s, b, st], {"include_extras": VConst(False)}, None)
                return full, plain, st

            for p in returning(paths_of(prog, ths, sticky=True, max_paths=40), inst):
                full, plain, st = p.value
                items = p.interp.concrete_items(full)
                t0 = items[0].term if items and isinstance(items[0], VTens) else None
                tp = plain.term if isinstance(plain, VTens) else None
                if t0 is None or tp is None:
                    ck.undecided("C04.R2", inst + " [%s]" % _c(p), fn_.site(), "results are not comparable terms")
                    continue
                # "exactly what the dense Kronecker product gives": neither form passes through a clamp or an added epsilon
                tp = unregularised(ck, "C04.R2", fname + "(include_extras=False) [%s]" % _c(p), fn_.site(), "rotated result", tp, key="C04.R2|%s|plain regularised" % fname)
                t0 = unregularised(ck, "C04.R2", fname + "(include_extras=True) [%s]" % _c(p), fn_.site(), "rotated result", t0, key="C04.R2|%s|extras regularised" % fname)
                from .history import _same

                if _same(tp, t0):
                    ck.ok("C04.R2", inst + " [%s]" % _c(p), fn_.site())
                else:
                    # a result that sees the given states only through unique(states) (and never uses the inverse map) is the same for
                    # every ordering of the rows it was given, whereas row k of a correct result belongs to row k of the input
                    UNIQ = ("x:torch.unique", "unique", "x:numpy.unique")
                    if "states" in tp.syms() and not occurs_outside(tp, "states", UNIQ) and not any(uses_part(tp, u, 1) for u in UNIQ):
                        ck.violation("C04.R2", inst + " [%s]" % _c(p), fn_.site(),
                                     "the plain call depends on the given states only through unique(states) and never maps back: the result is in sorted order whatever the order of the batch")
                        continue
                    sa_, sb_ = getattr(plain, "shape", None), getattr(items[0], "shape", None)
                    definite = sa_ is not None and sb_ is not None and (len(sa_) != len(sb_) or any(x != y and "?" not in (x, y) and not str(x).startswith("nnz") and not str(y).startswith("nnz") for x, y in zip(sa_, sb_)))
                    ck.check(False if definite else None, "C04.R2", inst + " [%s]" % _c(p), fn_.site(),
                             "the plain call returns %s; with include_extras=True the first result is %s" % (str(tp)[:160], str(t0)[:120]))
                wr = [e for e in p.effects if "param:states" in e.origins and e.kind == "write"]
                ck.check(not wr, "C04.R2", fname + ":the given states are not modified [%s]" % _c(p), fn_.site(), "the caller's states are written")
    # ------------------------------------------------------------------ R5 history independence (two-call protocol)
    from .history import check_history

    for fname, cls, arg in (("rotate_psi", "ComplexWaveFunction", "space"), ("rotate_psi_inner_prod", "ComplexWaveFunction", "states"),
                            ("rotate_rho", "DensityMatrix", "space"), ("rotate_rho_probs", "DensityMatrix", "states")):
        fn_ = prog.func(U, fname)

        def mk(it, cls=cls, arg=arg):
            return (make_state(it, cls), api.basis_str(it), tens(it, arg, ("N" if arg == "space" else "B", "nv")))

        check_history(ck, "C04.R5", fname + "/" + cls, fn_.site(), mk, lambda it, c, fn_=fn_: it.call_function(VFunc(fn_), [c[0], c[1], c[2]], {}, None), max_paths=40)
    from .history import check_after

    for fname, cls in (("rotate_psi_inner_prod", "ComplexWaveFunction"), ("rotate_rho_probs", "DensityMatrix")):
        fn_ = prog.func(U, fname)

        def mk(it, cls=cls):
            return (make_state(it, cls), api.basis_str(it), tens(it, "states", ("B", "nv")))

        check_after(ck, "C04.R5", fname + " after the full Hilbert space was generated", fn_.site(), mk,
                    lambda it, c: call(it, c[0], "generate_hilbert_space"), lambda it, c, fn_=fn_: it.call_function(VFunc(fn_), [c[0], c[1], c[2]], {}, None), max_paths=40)
    # the state's dictionary is part of its state: after an entry was replaced (nn_state.unitary_dict["Y"] = other, or load() of a
    # file with another dictionary) the next rotation uses the dictionary as it is now
    for fname, cls in (("rotate_psi_inner_prod", "ComplexWaveFunction"), ("rotate_rho_probs", "DensityMatrix")):
        fn_ = prog.func(U, fname)

        def mkd(it, cls=cls, fname=fname):
            s = make_state(it, cls)
            ud = it.get_attr(s, "unitary_dict", None)
            for b in "XYZ":
                ud.obj.items[b] = api.cx_t(it, "D" + b, (2, 2))
            third = tens(it, "space", (4, 2)) if fname in ("rotate_psi", "rotate_rho") else tens(it, "states", ("B", 2))
            return (s, VConst("XY"), third)

        def hv(it, s):
            ud = it.get_attr(s, "unitary_dict", None)
            mp = {}
            for b in "XY":
                it.ops.store_subscript(it, ud, VConst(b), api.cx_t(it, "D" + b + "'", (2, 2)), None) if hasattr(it.ops, "store_subscript") else ud.obj.items.__setitem__(b, api.cx_t(it, "D" + b + "'", (2, 2)))
                for part in "ri":
                    mp["D%s%s" % (b, part)] = "D%s'%s" % (b, part)
            return mp

        check_history(ck, "C04.R5", fname + "/" + cls + " after entries of the state's dictionary were replaced", fn_.site(), mkd,
                      lambda it, c, fn_=fn_: it.call_function(VFunc(fn_), [c[0], c[1], c[2]], {}, None), max_paths=40, havoc=hv, inputs=False)
    ck.require_min("C04.R5", 4)
    # ------------------------------------------------------------------ R6 an explicitly given dictionary is the one that is used
    # "rotating ... gives what the Kronecker product of the per-site unitaries gives": with `unitaries=` given, the per-site
    # unitaries are the given ones for every letter the dictionary defines - also for the letters X, Y, Z the state defines too
    for fname, cls, kw in (("rotate_psi", "ComplexWaveFunction", "psi"), ("rotate_rho", "DensityMatrix", "rho"),
                           ("rotate_psi_inner_prod", "ComplexWaveFunction", "psi"), ("rotate_rho_probs", "DensityMatrix", "rho")):
        fn_ = prog.func(U, fname)
        inst = "%s(unitaries=given)" % fname
        with ck.guard("C04.R6", inst, fn_.site()):
            def thx(it, fn_=fn_, cls=cls, kw=kw, fname=fname):
                s = make_state(it, cls)
                D = it.new_dict({b: api.cx_t(it, "E" + b, (2, 2)) for b in "XYZ"})
                third = tens(it, "space", (4, 2)) if fname in ("rotate_psi", "rotate_rho") else tens(it, "states", ("B", 2))
                given = api.cx_t(it, "GIVEN", (4,) if kw == "psi" else (4, 4))
                return it.call_function(VFunc(fn_), [s, VConst("XY"), third], {"unitaries": D, kw: given}, None)

            ps_ = [p for p in paths_of(prog, thx, sticky=True, max_paths=30) if p.outcome == "return"]
            ck.check(bool(ps_), "C04.R6", inst + ":returns", fn_.site(), "never returns with an explicit dictionary")
            for p in ps_:
                if some_selected(p, "_rotate_basis_state") is False:
                    continue  # the branch "no rotated site": not a path of the basis 'XY'
                t_ = p.value.term if isinstance(p.value, VTens) else None
                if t_ is None:
                    ck.undecided("C04.R6", inst + " [%s]" % _c(p), fn_.site(), "the rotated result is not followed")
                    continue
                sy = t_.syms()
                used = {b for b in "XY" if any(n_.startswith("E" + b) for n_ in sy)}
                # a value written through something the analyser did not follow (the result of a tensor method it does not know, which
                # may be a view of the state) may be where the unitaries went: then nothing is decided
                lostw = [e for e in p.effects if e.kind == "write" and (getattr(e.obj, "maybe_view", False) or getattr(e.obj, "maybe_copy", False))]
                own = any(n_.startswith("u") or "unitar" in n_ for n_ in sy)
                if used != {"X", "Y"} and lostw and not own:
                    ck.undecided("C04.R6", inst + ":the given X and Y are the ones applied [%s]" % _c(p), fn_.site(), "the rotation is written through a value the analyser does not follow (%s)" % lostw[0].detail)
                    continue
                ck.check(used == {"X", "Y"}, "C04.R6", inst + ":the given X and Y are the ones applied [%s]" % _c(p), fn_.site(),
                         "with unitaries={X: EX, Y: EY, Z: EZ} and basis 'XY' the result does not depend on the given %s: the state's own dictionary is used for a letter the given dictionary defines"
                         % " and ".join("E" + b for b in "XY" if b not in used))
    ck.require_min("C04.R6", 6)
    ck.require_min("C04.R1", 12)
    ck.require_min("C04.R2", 10)
    ck.require_min("C04.R3", 6)
    ck.require_min("C04.R4", 6)
    ck.assumptions += [
        "Pauli matrices in the order (|0>, |1>): sigma_x = [[0,1],[1,0]], sigma_y = [[0,-i],[i,0]]; U sigma U^dagger = diag(+1,-1) characterises rows = conjugated (+1, -1) eigenvectors",
        "torch advanced indexing: x[:, A, B][c, ...] = x[c, A[...], B[...]] with A and B broadcast against each other",
        "not decided: numeric equality with the dense Kronecker product, non-negativity / normalisation of rotated probabilities, the in-place block arithmetic of _kron_mult beyond the stride order",
    ]


def _c(p):
    return ",".join("%s=%s" % (c[1][:18], c[2]) for c in p.conds[:3])


def _dagger_entries(t):
    """t holds matrices built as stack(t(re X), -t(im X)) of one complex pair X: the conjugate transposes of the X"""
    if t is None or not hasattr(t, "all_atoms"):
        return False
    for a in t.all_atoms():
        if isinstance(a, T.App) and a.op == "stack0" and len(a.args) == 2 and all(hasattr(x, "single_mono") for x in a.args):
            m0, m1 = a.args[0].single_mono(), a.args[1].single_mono()
            if m0 is None or m1 is None or m0[1] != 1 or m1[1] != -1 or len(m0[0]) != 1 or len(m1[0]) != 1:
                continue
            x0, x1 = m0[0][0][0], m1[0][0][0]
            if isinstance(x0, T.App) and isinstance(x1, T.App) and x0.op == x1.op == "t":
                r0, r1 = x0.args[0].single_atom(), x1.args[0].single_atom()
                if (isinstance(r0, T.App) and isinstance(r1, T.App) and r0.op == r1.op == "idx0" and r0.args[0] == r1.args[0]
                        and r0.args[1] in (0, T.ZERO) and r1.args[1] in (1, T.ONE)):
                    return True
    return False


def _is_conj(t):
    """the operand is the conjugate of the unitary factor: written with an outer conj, or built from conjugate-transposed entries
    (one or the other, not both)"""
    if t is None:
        return None
    at = t.single_atom()
    outer = at is not None and isinstance(at, T.App) and at.op == "npconj"
    inner = at.args[0] if outer and hasattr(at.args[0], "all_atoms") else t
    return outer != _dagger_entries(inner)


def _kron_instance(ck, prog, km, ns):
    """Exact instance: ns sites of dimension 2.  The sweep must apply matrices[s] to every pair of amplitudes {j, j + 2^(ns-1-s)}
    (bit s of j, counted from the most significant, equal to 0) exactly once, reading the current value of the pair: that is
    (u_0 (x) ... (x) u_{ns-1}) x with site 0 the leftmost factor.  Found from the values (the chain of in-place block updates
    and the complex products recorded by the interpreter), whatever the spelling of the loops."""
    site = km.site()
    L = 2 ** ns
    inst = "_kron_mult/%d site%s" % (ns, "" if ns == 1 else "s")

    def thk(it):
        x = api.cx_t(it, "x", (L, "M"))
        ms = it.new_list([api.cx_t(it, "u%d" % i, (2, 2)) for i in range(ns)])
        return x, it.call_function(VFunc(km), [ms, x], {}, None)

    with ck.guard("C04.R4", inst, site):
        paths = paths_of(prog, thk, sticky="term", max_paths=100)
        rets = [p for p in paths if p.outcome == "return"]
        ck.check(len(rets) >= 1 and all(p.outcome == "return" for p in paths), "C04.R4", inst + ":accepted", site,
                 "a state of length 2^%d is refused or fails with %d 2x2 matrices: %s" % (ns, ns, [str(p.value)[:80] for p in paths if p.outcome != "return"][:1]))
        for p in rets:
            x, y = p.value
            t = y.term if isinstance(y, VTens) else None
            steps = []
            while t is not None:
                at = t.single_atom()
                if at is None or not isinstance(at, T.App) or at.op != "upd":
                    break
                base, spec, val = at.args
                steps.append((base, spec, val))
                t = base
            # sites the path has established to be the identity (real part equal to eye, no non-zero imaginary entry): an
            # implementation may leave those out.  Found from the values of the branch conditions, not from their spelling.
            def _is_re(key, k):
                a_ = key[1].single_atom() if key[0] == "t" and hasattr(key[1], "single_atom") else None
                return isinstance(a_, T.App) and a_.op == "tensor_equal" and any(hasattr(z, "syms") and z.syms() == {"u%dr" % k} for z in a_.args) and any(hasattr(z, "all_atoms") and any(isinstance(q, T.App) and q.op.endswith("eye") for q in z.all_atoms()) for z in a_.args)

            def _is_im(key, k):
                a_ = key[1].single_atom() if key[0] == "t" and hasattr(key[1], "single_atom") else None
                return isinstance(a_, T.App) and a_.op == "any" and hasattr(a_.args[0], "syms") and a_.args[0].syms() == {"u%di" % k}

            assumed_id = {k for k in range(ns) if set(cond_truths(p, lambda key, k=k: _is_re(key, k))) == {True} and set(cond_truths(p, lambda key, k=k: _is_im(key, k))) == {False}}
            conditioned = {k for k in range(ns) if any(len(c) > 3 and getattr(c[3], "term", None) is not None and c[3].term.syms() & {"u%dr" % k, "u%di" % k} for c in p.conds)}
            if t is None or t != x.term or (not steps and assumed_id != set(range(ns))):
                v_ = _kron_vectorised(y.term if isinstance(y, VTens) else None, ns)
                if v_ is None:
                    la_ = _kron_layout(y.term if isinstance(y, VTens) else None, ns)
                    if la_ is not None and la_[0] == "ok":
                        ck.ok("C04.R4", inst + ":matrix s is contracted with the axis of site s (reshape / movedim sweep)", site, acts=str(la_[1]))
                        continue
                    if la_ is not None:
                        ck.violation("C04.R4", inst + ":matrix s is contracted with the axis of site s (reshape / movedim sweep)", site,
                                     "with the row index split into one axis per site (site 0 the most significant digit), matrix k is contracted with the axis of site %s%s: "
                                     "site 0 is the leftmost factor of the tensor product, so matrix k must act on the axis of site k"
                                     % (la_[1], " - the sites are taken in reversed order" if la_[0] == "reversed" else ""), key="C04.R4|%s|site axes" % inst)
                        continue
                lost = [e for e in p.effects if e.kind == "write" and getattr(e.obj, "maybe_copy", False) and getattr(e.obj, "reshape_of", None) is not None]
                if v_ is None and lost and isinstance(y, VTens) and y.term is not None and not any(s_.startswith("u") and s_[1:-1].isdigit() for s_ in y.term.syms()):
                    # the returned tensor carries nothing of the matrices, and the sweep was written into the reshape of a tensor
                    # whose memory layout is the caller's: for a layout that is not contiguous that reshape is a copy
                    ck.violation("C04.R4", inst + ":the sweep reaches the returned tensor", lost[0].site,
                                 "the sweep is written in place into reshape(...) of a clone of the given state; clone keeps the memory layout of its source, so for a state that is not "
                                 "contiguous (an explicitly given matrix passed as a transposed view) reshape returns a copy, the update is lost and the state comes back unrotated",
                                 key="C04.R4|_kron_mult|update written into a reshape copy")
                elif v_ is None:
                    ck.undecided("C04.R4", inst + ":block updates", site, "the result is not a chain of in-place block updates of a copy of the input")
                elif v_[0] == "ok":
                    ck.ok("C04.R4", inst + ":site s is contracted along the axis of stride 2^(n-1-s) (vectorised sweep)", site, strides=v_[1])
                else:
                    ck.violation("C04.R4", inst + ":site s is contracted along the axis of stride 2^(n-1-s) (vectorised sweep)", site,
                                 "the sweep reshapes the state and contracts matrix s along an axis of stride %s; site 0 is the leftmost factor, so matrix s must act on the axis of stride 2^(n-1-s) = %s%s"
                                 % (v_[1], {k: 2 ** (ns - 1 - k) for k in range(ns)}, " (the strides are those of the reversed site order)" if v_[0] == "reversed" else ""), key="C04.R4|%s|vectorised strides" % inst)
                continue
            mm = [c for c in p.calls if c[0].endswith("cplx.matmul")]
            per_site = {}
            bad = stale = None
            for base, spec, val in steps:
                rec = [c for c in mm if c[6] == val]
                a = list(rec[0][7].values()) if rec else []
                if len(rec) < 1 or len(a) < 2:
                    bad = "a block is not assigned the complex product matmul(unitary, block)"
                    break
                us = [k for k in range(ns) if a[0] == T.stack0(T.sym("u%dr" % k), T.sym("u%di" % k))]
                if len(us) != 1:
                    bad = "the left factor of a block product is not one of the given matrices: %r" % (a[0],)
                    break
                if (len(spec) in (1, 2) and isinstance(spec[0], (tuple, list)) and len(spec[0]) == 4 and tuple(spec[0][:3]) == ("op", "unflatten", 1) and len(spec[0][3]) == 3
                        and (len(spec) == 1 or (tuple(spec[1][:2]) == ("op", "permute") and len(spec[1]) == 3))):
                    # the row axis split into (left, site, right) and the site axis moved next to last: one matrix product for all the
                    # blocks of the site - the pairs {j, j + right} with digit 0 at that position
                    dims_ = tuple(spec[0][3])
                    rd_ = T.app("unflatten", base, 1, dims_)
                    order_ = tuple(spec[1][2]) if len(spec) == 2 else None
                    if order_ is not None:
                        rd_ = T.app("permute", rd_, order_)
                    if a[1] != rd_:
                        bad = "a block product does not read the block it overwrites"
                        break
                    try:
                        l_, n_, r_ = (int(d_) for d_ in dims_)
                    except (TypeError, ValueError):
                        bad = "split sizes %r are not concrete" % (dims_,)
                        break
                    site_ax_ok = (order_ is None and False) or (order_ is not None and len(order_) >= 2 and order_[-2] == 2)
                    if n_ != 2 or l_ * n_ * r_ != L or not site_ax_ok:
                        bad = "row axis split as %r with axes ordered %r: the site axis is not the contracted one" % (dims_, order_)
                        break
                    for j_ in range(L):
                        if (j_ // r_) % 2 == 0:
                            per_site.setdefault(us[0], []).append(frozenset((j_, j_ + r_)))
                    continue
                if a[1] != T.app("index", base, spec):
                    earlier = [b_ for b_, _s, _v in steps if b_ != base] + [x.term]
                    if any(a[1] == T.app("index", b_, spec) for b_ in earlier):
                        stale = "a block product reads an earlier value of the state (not the value left by the updates made so far): rotations already applied to these amplitudes are discarded"
                    else:
                        bad = "a block product does not read the block it overwrites"
                    break
                sl = [x_ for x_ in spec if isinstance(x_, (tuple, list)) and x_ and x_[0] == "slice" and tuple(x_[1:]) != (None, None, None)]
                if len(sl) != 1 or len(spec) < 2 or tuple(spec[1]) != tuple(sl[0]) or not all(isinstance(v, int) or v is None for v in sl[0][1:]):
                    bad = "block addressed by %r: expected [:, <concrete slice>, ...]" % (spec,)
                    break
                idx = frozenset(range(L)[slice(*sl[0][1:])])
                per_site.setdefault(us[0], []).append(idx)
            if stale:
                ck.violation("C04.R4", inst + ":every block product reads the current state", site, stale)
                continue
            if bad:
                ck.undecided("C04.R4", inst + ":block updates", site, bad)
                continue

            def blocks(stride):
                return sorted(sorted((j, j + stride)) for j in range(L) if (j // stride) % 2 == 0)

            got = {k: sorted(sorted(b) for b in v) for k, v in per_site.items()}
            big = {k: blocks(2 ** (ns - 1 - k)) for k in range(ns)}
            little = {k: blocks(2 ** k) for k in range(ns)}
            missing = set(range(ns)) - set(got)
            tagp = ("" if not p.conds else " [%s]" % _c(p))
            if missing and all(got[k] == big[k] for k in got):
                if missing <= assumed_id:
                    ck.ok("C04.R4", inst + ":site s acts on the pairs {j, j + 2^(n-1-s)} once each (identity sites %s left out)%s" % (sorted(missing), tagp), site)
                elif missing & conditioned:
                    ck.undecided("C04.R4", inst + ":sites %s are left out%s" % (sorted(missing), tagp), site, "whether the test that skips these sites establishes that their unitary is the identity was not recognised")
                else:
                    ck.violation("C04.R4", inst + ":site s acts on the pairs {j, j + 2^(n-1-s)} once each%s" % tagp, site, "the unitaries of sites %s are never applied" % sorted(missing))
            elif missing:
                ck.violation("C04.R4", inst + ":site s acts on the pairs {j, j + 2^(n-1-s)} once each%s" % tagp, site,
                             "with the sites %s left out, the remaining unitaries act on the index pairs %s; expected %s (a site that is skipped must still advance the stride)"
                             % (sorted(missing), got, {k: big[k] for k in got}), key="C04.R4|%s|pairs" % inst)
            elif got == big:
                ck.ok("C04.R4", inst + ":site s acts on the pairs {j, j + 2^(n-1-s)} once each" + tagp, site, pairs={str(k): v for k, v in got.items()})
            elif got == little and ns > 1:
                ck.violation("C04.R4", inst + ":site s acts on the pairs {j, j + 2^(n-1-s)} once each", site,
                             "site s acts on pairs at distance 2^s: site 0 is the least significant factor, i.e. the tensor product is taken in reversed site order, contradicting generate_hilbert_space")
            else:
                ck.violation("C04.R4", inst + ":site s acts on the pairs {j, j + 2^(n-1-s)} once each", site,
                             "the unitaries act on the index pairs %s; expected %s" % (got, big))


def _kron_layout(term, ns):
    """A sweep written out of place as reshape / movedim / matmul chains: every axis of the intermediate tensors is followed by
    name ('c' the (re, im) axis, 's<k>' the digit of site k - site 0 the most significant one -, 'T' whatever trails the row
    axis), a matrix product with u<k> contracts the axis standing second to last.  Returns ('ok' | 'reversed' | 'wrong',
    {matrix: site it acts on}) or None when a step is not followed or the result's rows are not back in their order."""
    SIZE = {"c": 2}
    for k_ in range(ns):
        SIZE["s%d" % k_] = 2
    acts = {}

    class Lost(Exception):
        pass

    def atoms(labels):
        out = []
        for l_ in labels:
            out.extend(atoms(l_) if isinstance(l_, tuple) else [l_])
        return out

    def regroup(labels, dims):
        flat = atoms(labels)
        out, pos = [], 0
        for j, d in enumerate(dims):
            d = str(d)
            if d in ("-1", "?"):
                # takes what the remaining named dims leave over
                need_after = 1
                n_sym_after = 0
                for d2 in dims[j + 1:]:
                    if str(d2) in ("-1", "?"):
                        raise Lost()
                    if not str(d2).lstrip("-").isdigit():
                        n_sym_after += 1  # a symbolic size after the inferred one: the trailing axis, standing by itself
                        continue
                    need_after *= int(d2)
                rest = flat[pos:]
                k_ = len(rest)
                if n_sym_after:
                    if n_sym_after != 1 or not rest or rest[-1] != "T" or str(dims[-1]).lstrip("-").isdigit():
                        raise Lost()
                    k_ -= 1
                sz = 1
                while k_ > 0 and sz < need_after:
                    k_ -= 1
                    if rest[k_] == "T":
                        raise Lost()
                    sz *= SIZE[rest[k_]]
                if sz != need_after:
                    raise Lost()
                grp = rest[:k_]
                pos += len(grp)
            elif not d.lstrip("-").isdigit():
                # a symbolic size: that of the trailing axis, which must be standing here by itself
                if pos >= len(flat) or flat[pos] != "T":
                    raise Lost()
                grp = ["T"]
                pos += 1
            else:
                want, sz, grp = int(d), 1, []
                while sz < want:
                    if pos >= len(flat) or flat[pos] == "T":
                        raise Lost()
                    sz *= SIZE[flat[pos]]
                    grp.append(flat[pos])
                    pos += 1
                if sz != want:
                    raise Lost()
            out.append(grp[0] if len(grp) == 1 else tuple(grp))
        if pos != len(flat):
            raise Lost()
        return out

    def lay(t):
        if not hasattr(t, "terms"):
            raise Lost()
        ls = None
        for mono in t.terms:
            ats = [a for a, _ in mono if not (isinstance(a, T.Sym) and a.name.startswith("lit:"))]
            if len(ats) != 1 or dict(mono)[ats[0]] != 1:
                raise Lost()
            l_ = lay_atom(ats[0])
            if ls is not None and atoms(l_) != atoms(ls):
                raise Lost()
            ls = l_
        if ls is None:
            raise Lost()
        return ls

    def lay_atom(a):
        if isinstance(a, T.Sym):
            if a.name in ("xr", "xi"):
                return [tuple("s%d" % k_ for k_ in range(ns)) if ns > 1 else "s0", "T"]
            raise Lost()
        if not isinstance(a, T.App):
            raise Lost()
        if a.op == "stack0":
            ls = [lay(c) for c in a.args]
            if any(atoms(x) != atoms(ls[0]) for x in ls[1:]):
                raise Lost()
            return ["c"] + ls[0]
        if a.op == "idx0":
            l_ = lay(a.args[0])
            if not l_ or l_[0] != "c":
                raise Lost()
            return l_[1:]
        if a.op == "view" and isinstance(a.args[1], (tuple, list)):
            return regroup(lay(a.args[0]), list(a.args[1]))
        if a.op == "view" and isinstance(a.args[1], str) and a.args[1].startswith("merge_last") and a.args[1][10:].isdigit():
            l_ = lay(a.args[0])
            n_ = int(a.args[1][10:])
            if len(l_) < n_:
                raise Lost()
            return l_[:-n_] + [tuple(atoms(l_[-n_:]))]
        if a.op == "view" and isinstance(a.args[1], str) and a.args[1].startswith("regroup:"):
            # the same factors in the same row-major order, cut into other groups (reshape back to a shape taken earlier): as many
            # factors per new axis as the description says
            counts = [int(x_) for x_ in a.args[1][8:].split(",")]
            flat = atoms(lay(a.args[0]))
            if sum(counts) != len(flat):
                raise Lost()
            out, pos = [], 0
            for c_ in counts:
                grp = flat[pos:pos + c_]
                pos += c_
                out.append(grp[0] if c_ == 1 else tuple(grp))
            return out
        if a.op == "permute":
            l_ = lay(a.args[0])
            order = list(a.args[1])
            if sorted(order) != list(range(len(l_))):
                raise Lost()
            return [l_[j] for j in order]
        if a.op == "flatten_last2":
            l_ = lay(a.args[0])
            if len(l_) < 2:
                raise Lost()
            return l_[:-2] + [tuple(atoms(l_[-2:]))]
        if a.op == "matmul" and len(a.args) == 2:
            sy = a.args[0].syms() if hasattr(a.args[0], "syms") else set()
            ks = {int(x[1:-1]) for x in sy if len(x) >= 3 and x[0] == "u" and x[1:-1].isdigit() and x[-1] in "ri"}
            if len(sy) != 1 or len(ks) != 1:
                raise Lost()
            l_ = lay(a.args[1])
            if len(l_) < 2 or isinstance(l_[-2], tuple) or not str(l_[-2]).startswith("s"):
                raise Lost()
            k_ = next(iter(ks))
            site = int(l_[-2][1:])
            if acts.get(k_, site) != site:
                raise Lost()
            acts[k_] = site
            return l_
        raise Lost()

    try:
        final = lay(term)
    except (Lost, ValueError, KeyError, IndexError, TypeError):
        return None
    if atoms(final) != ["c"] + ["s%d" % k_ for k_ in range(ns)] + ["T"] or set(acts) != set(range(ns)):
        return None
    if all(acts[k_] == k_ for k_ in range(ns)):
        return ("ok", acts)
    if ns > 1 and all(acts[k_] == ns - 1 - k_ for k_ in range(ns)):
        return ("reversed", acts)
    return ("wrong", acts)


def _kron_vectorised(term, ns):
    """A sweep written as `contract(matrix_s, state reshaped to (..., a, 2, b, ...))` per site (einsum / matmul on a view): from
    the recorded reshape dimensions, the stride (in amplitudes) of the axis each matrix is contracted along.
    Returns ('ok' | 'reversed' | 'wrong', {site: stride}) or None when this form is not recognised."""
    if term is None:
        return None
    strides = {}
    for a in term.all_atoms():
        if not (isinstance(a, T.App) and a.op in ("einsum2", "matmul")):
            continue
        ops = a.args[1:] if a.op == "einsum2" else a.args
        if len(ops) != 2:
            continue
        k = None
        for o in ops:
            sy = o.syms() if hasattr(o, "syms") else set()
            ks = {int(x[1:-1]) for x in sy if len(x) >= 3 and x[0] == "u" and x[1:-1].isdigit() and x[-1] in "ri"}
            if len(sy) == 1 and len(ks) == 1:
                k = next(iter(ks))
                mat = o
        if k is None:
            continue
        other = ops[1] if ops[0] is mat else ops[0]
        # the state operand: (a component of) view(<state>, dims)
        oa = other.single_atom() if hasattr(other, "single_atom") else None
        if isinstance(oa, T.App) and oa.op == "idx0":
            oa = oa.args[0].single_atom() if hasattr(oa.args[0], "single_atom") else None
            lead = 1  # the complex axis was in front of the viewed dims
        else:
            lead = 0
        if not (isinstance(oa, T.App) and oa.op == "view"):
            return None
        try:
            dims = [int(d) for d in oa.args[1]][lead:]
        except (TypeError, ValueError):
            return None
        if a.op == "einsum2":
            spec = a.args[0]
            ins, out = spec.split("->")[0].split(","), spec.split("->")[1]
            si = 1 if ops[0] is mat else 0
            contracted = [c for c in ins[si] if c in ins[1 - si] and c not in out]
            if len(contracted) != 1 or len(ins[si]) != len(dims):
                return None
            pos = ins[si].index(contracted[0])
        else:
            pos = len(dims) - 2
        tail = dims[pos + 1:]
        if tail and tail[-1] == -1:
            # the inferred last axis takes whatever the named axes leave over: the remaining row digits (if any) and the trailing
            # batch axes - the rows are 2^ns, so the contracted axis has stride 2^ns / (product of the axes up to and including it)
            head = dims[:pos + 1]
            if any(d <= 0 for d in head) or any(d < 0 for d in tail[:-1]):
                return None
            hp = 1
            for d in head:
                hp *= d
            if hp <= 0 or (2 ** ns) % hp:
                return None
            st = (2 ** ns) // hp
            tp = 1
            for d in tail[:-1]:
                tp *= d
            if st % tp:
                return None
        else:
            if any(d < 0 for d in tail):
                return None
            st = 1
            for d in tail:
                st *= d
        if strides.get(k, st) != st:
            return None
        strides[k] = st
    if set(strides) != set(range(ns)):
        return None
    if all(strides[k] == 2 ** (ns - 1 - k) for k in range(ns)):
        return ("ok", strides)
    if ns > 1 and all(strides[k] == 2 ** k for k in range(ns)):
        return ("reversed", strides)
    return ("wrong", strides)


def _check_kron(ck, prog, km):
    """Sites are swept from the last to the first while the stride starts at 1 and is multiplied by the
    site dimension after the site is processed => site 0 has the largest stride (leftmost factor)."""
    for ns in (1, 2, 3, 4):
        _kron_instance(ck, prog, km, ns)
    _kron_generic(ck, prog, km)


def _kron_generic(ck, prog, km):
    site = km.site()
    # ---- block addressing of one site: blocks of n elements with stride r, block starts K*n*r + I for
    # K in range(l // n), I in range(r): a bijection onto range(l) (mixed radix (K, j, I))
    def thb(it):
        x = api.cx_t(it, "x", ("N", "M"))
        ms = it.new_list(None)
        ms.obj.elem = api.cx_t(it, "u", (2, 2))
        return it.call_function(VFunc(km), [ms, x], {}, None)

    for p in [q for q in paths_of(prog, thb, sticky=True, max_paths=20) if q.outcome == "return"][:1]:
        t = p.value.term
        loops = [l for l in p.interp.loops if "_kron_mult" in l["site"]]
        inner = sorted({l["site"] for l in loops}, key=lambda x: int(x.rsplit(":", 1)[1]))
        ups = [a for a in (t.all_atoms() if t is not None else []) if isinstance(a, T.App) and a.op == "upd" and len(a.args[1]) >= 2 and isinstance(a.args[1][1], tuple) and a.args[1][1][0] == "slice"]
        gen = None
        for u in ups:
            sl = u.args[1][1]
            syms = set()
            for b in sl[1:]:
                if isinstance(b, T.Poly):
                    syms |= b.syms()
            loopsyms = sorted(x for x in syms if x.startswith("i@"))
            if len(loopsyms) == 2:
                gen = (sl, loopsyms, sorted(x for x in syms if x.startswith("carry:")))
        if gen is None or len(inner) < 3:
            pass  # another addressing scheme: the exact 1..4-site instances decide
        else:
            sl, (s1, s2), carries = gen
            K, I = T.sym(s1), T.sym(s2)  # outer (block) and inner (offset) loop variables, by line order
            if int(s1.rsplit(":", 1)[1]) > int(s2.rsplit(":", 1)[1]):
                K, I = I, K
            a, b, c = (x if isinstance(x, T.Poly) else T.P(x) for x in sl[1:])
            r = c
            n_ = T.const(2)
            ok = (a == n_ * r * K + I) and (b - a == n_ * r) and r.single_atom() is not None
            # recognised addressing scheme for any number of sites (evidence beyond the exact instances; other schemes are
            # not wrong for being different, so nothing is reported when this one is not matched)
            if ok:
                ck.ok("C04.R4", "_kron_mult:block = n elements with stride r starting at K*n*r + I (any number of sites)", site)
            # offset loop runs over range(r), block loop over range(l // n)
            rng = {l["site"]: l["iter"] for l in loops if l["generic"] is not None or True}
            il = [l for l in loops if l["site"] == inner[-1]]
            okI = any(isinstance(l["iter"], VRange) and num_term(l["iter"].start) == T.ZERO and num_term(l["iter"].stop) == r and num_term(l["iter"].step) == T.ONE for l in il)
            if ok and okI:
                ck.ok("C04.R4", "_kron_mult:offsets I run over range(r)", site)
            kl = [l for l in loops if l["site"] == inner[-2]]
            okK = any(isinstance(l["iter"], VRange) and num_term(l["iter"].start) == T.ZERO and num_term(l["iter"].step) == T.ONE and num_term(l["iter"].stop) is not None
                      and any(isinstance(at, T.App) and at.op == "floordiv" and at.args[1] == n_ for at in num_term(l["iter"].stop).all_atoms()) for l in kl)
            if ok and okK:
                ck.ok("C04.R4", "_kron_mult:blocks K run over range(l // n)", site)

    def thk(it):
        x = api.cx_t(it, "x", ("N", "M"))
        ms = it.new_list([api.cx_t(it, "u0", (2, 2)), api.cx_t(it, "u1", (2, 2))])
        return x, it.call_function(VFunc(km), [ms, x], {}, None)

    paths = [p for p in paths_of(prog, thk, sticky=True, max_paths=20) if p.outcome == "return"]
    for p in paths:
        x, y = p.value
        wr = [e for e in p.effects if "param:x" in e.origins and e.kind == "write"]
        ck.check(not wr and isinstance(y, VTens) and y.obj is not x.obj, "C04.R4", "_kron_mult:input not modified", site, "the rotated state is written into the caller's tensor")
