"""API surface table: abstract entry contexts for the public operations of the library.

Each entry builds abstract arguments and performs the call inside an interpreter run; rule
modules consume the resulting paths (effects, results, call records)."""
from .. import terms as T
from .common import *  # noqa: F401,F403

STATES = ("PositiveWaveFunction", "ComplexWaveFunction", "DensityMatrix")


def intsym(name, pos=True, nonneg=True):
    v = VNum("int", T.sym(name), pos=pos, nonneg=nonneg or pos)
    v.dim = name
    return v


def bases_arr(it, name="bases", rows="B"):
    b = tens(it, name, (rows, "nv"), kind="ndarray")
    b.obj.valkind = "str"
    return b


def basis_str(it):
    u = VUnknown("basis", "str")
    u.not_none = True
    u.length = "nv"  # one letter per site
    return u


def state_entries(cls):
    """(name, builder(it, s) -> result) for read-only operations of a state class."""
    wf = cls != "DensityMatrix"
    E = []

    def add(name, fn):
        E.append((name, fn))

    add("probability", lambda it, s: call(it, s, "probability", tens(it, "v", ("B", "nv"))))
    add("sample", lambda it, s: call(it, s, "sample", intsym("k", pos=False), num_samples=intsym("num_samples")))
    add("sample/initial_state", lambda it, s: call(it, s, "sample", intsym("k", pos=False), initial_state=tens(it, "init", ("B", "nv")), overwrite=VConst(True)))
    add("normalization", lambda it, s: call(it, s, "normalization", tens(it, "space", ("N", "nv"))))
    add("compute_normalization", lambda it, s: call(it, s, "compute_normalization", tens(it, "space", ("N", "nv"))))
    add("generate_hilbert_space", lambda it, s: call(it, s, "generate_hilbert_space"))
    add("subspace_vector", lambda it, s: call(it, s, "subspace_vector", intsym("num", pos=False)))
    add("importance_sampling_weight", lambda it, s: call(it, s, "importance_sampling_weight", tens(it, "vp", ("B", "nv")), tens(it, "v", ("B", "nv"))))
    add("gradient/no-bases", lambda it, s: call(it, s, "gradient", tens(it, "S", ("B", "nv"))))
    add("positive_phase_gradients/no-bases", lambda it, s: call(it, s, "positive_phase_gradients", tens(it, "S", ("B", "nv"))))
    add("compute_exact_gradients/no-bases", lambda it, s: call(it, s, "compute_exact_gradients", tens(it, "S", ("B", "nv")), tens(it, "space", ("N", "nv"))))
    add("compute_batch_gradients/no-bases", lambda it, s: call(it, s, "compute_batch_gradients", intsym("k", pos=False), tens(it, "S", ("B", "nv")), tens(it, "Nb", ("Bn", "nv"))))
    if cls != "PositiveWaveFunction":
        add("gradient/bases", lambda it, s: call(it, s, "gradient", tens(it, "S", ("B", "nv")), bases_arr(it)))
        add("compute_batch_gradients/bases", lambda it, s: call(it, s, "compute_batch_gradients", intsym("k", pos=False), tens(it, "S", ("B", "nv")), tens(it, "Nb", ("Bn", "nv")), bases_arr(it)))
        add("compute_exact_gradients/bases", lambda it, s: call(it, s, "compute_exact_gradients", tens(it, "S", ("B", "nv")), tens(it, "space", ("N", "nv")), bases_arr(it)))
        add("am_grads", lambda it, s: call(it, s, "am_grads", tens(it, "v", ("E", "B", "nv"))))
        add("ph_grads", lambda it, s: call(it, s, "ph_grads", tens(it, "v", ("E", "B", "nv"))))
    if wf:
        add("psi", lambda it, s: call(it, s, "psi", tens(it, "v", ("B", "nv"))))
        add("amplitude", lambda it, s: call(it, s, "amplitude", tens(it, "v", ("B", "nv"))))
        add("phase", lambda it, s: call(it, s, "phase", tens(it, "v", ("B", "nv"))))
    else:
        add("rho", lambda it, s: call(it, s, "rho", tens(it, "v", ("Bv", "nv")), tens(it, "vp", ("Bp", "nv"))))
        add("rho/expand=False", lambda it, s: call(it, s, "rho", tens(it, "v", ("B", "nv")), tens(it, "vp", ("B", "nv")), expand=VConst(False)))
        add("pi", lambda it, s: call(it, s, "pi", tens(it, "v", ("Bv", "nv")), tens(it, "vp", ("Bp", "nv"))))
        add("pi_grad", lambda it, s: call(it, s, "pi_grad", tens(it, "v", ("B", "nv")), tens(it, "vp", ("B", "nv"))))
    add("save", lambda it, s: call(it, s, "save", basis_str(it), it.new_dict({"note": VConst("x")}, origin="param:metadata")))
    return E


def rbm_entries(cls):
    E = []
    aux = cls == "PurificationRBM"
    E.append(("effective_energy", lambda it, m: call(it, m, "effective_energy", tens(it, "v", ("B", "nv")))))
    E.append(("effective_energy_gradient", lambda it, m: call(it, m, "effective_energy_gradient", tens(it, "v", ("B", "nv")))))
    E.append(("effective_energy_gradient/noreduce", lambda it, m: call(it, m, "effective_energy_gradient", tens(it, "v", ("B", "nv")), reduce=VConst(False))))
    E.append(("prob_h_given_v", lambda it, m: call(it, m, "prob_h_given_v", tens(it, "v", ("B", "nv")))))
    E.append(("sample_h_given_v", lambda it, m: call(it, m, "sample_h_given_v", tens(it, "v", ("B", "nv")))))
    E.append(("gibbs_steps", lambda it, m: call(it, m, "gibbs_steps", intsym("k", pos=False), tens(it, "init", ("B", "nv")))))
    E.append(("partition", lambda it, m: call(it, m, "partition", tens(it, "space", ("N", "nv")))))
    if aux:
        E.append(("prob_a_given_v", lambda it, m: call(it, m, "prob_a_given_v", tens(it, "v", ("B", "nv")))))
        E.append(("prob_v_given_ha", lambda it, m: call(it, m, "prob_v_given_ha", tens(it, "h", ("B", "nh")), tens(it, "a", ("B", "na")))))
        E.append(("sample_v_given_ha", lambda it, m: call(it, m, "sample_v_given_ha", tens(it, "h", ("B", "nh")), tens(it, "a", ("B", "na")))))
        E.append(("gamma", lambda it, m: call(it, m, "gamma", tens(it, "v", ("Bv", "nv")), tens(it, "vp", ("Bp", "nv")))))
        E.append(("gamma_grad", lambda it, m: call(it, m, "gamma_grad", tens(it, "v", ("B", "nv")), tens(it, "vp", ("B", "nv")))))
        E.append(("mixing_term", lambda it, m: call(it, m, "mixing_term", tens(it, "v", ("B", "nv")))))
    else:
        E.append(("prob_v_given_h", lambda it, m: call(it, m, "prob_v_given_h", tens(it, "h", ("B", "nh")))))
        E.append(("sample_v_given_h", lambda it, m: call(it, m, "sample_v_given_h", tens(it, "h", ("B", "nh")))))
    return E


def observable_instances(it, prog):
    """Concrete instances of every built-in observable (name -> VObj)."""
    out = {}
    mk = lambda cls, *a, **k: it.instantiate(prog.cls(cls), list(a), dict(k), None)  # noqa: E731
    for nm in ("SigmaX", "SigmaY", "SigmaZ"):
        out[nm] = mk(nm)
        out[nm + "/absolute"] = mk(nm, absolute=VConst(True))
    c = intsym("c")
    out["NeighbourInteraction/open"] = mk("NeighbourInteraction", periodic_bcs=VConst(False), c=c)
    out["NeighbourInteraction/periodic"] = mk("NeighbourInteraction", periodic_bcs=VConst(True), c=intsym("c"))
    A = VUnknown("A", "unknown")
    A.not_none = True
    out["SWAP/any-region"] = mk("SWAP", A)
    out["SWAP/list-region"] = mk("SWAP", it.new_list([VConst(0), VConst(1)]))
    out["SWAP/int-region"] = mk("SWAP", VConst(0))
    return out


def metric_entries():
    M = "qucumber.utils.training_statistics"
    E = []

    def f(prog, name):
        return VFunc(prog.func(M, name))

    def tgt(it, wf):
        return cx_t(it, "target", ("N",) if wf else ("N", "N"))

    E.append(("fidelity", lambda it, s, wf: it.call_function(f(it.program, "fidelity"), [s, tgt(it, wf)], {"space": tens(it, "space", ("N", "nv"))}, None)))
    E.append(("KL/no-bases", lambda it, s, wf: it.call_function(f(it.program, "KL"), [s, tgt(it, wf)], {"space": tens(it, "space", ("N", "nv"))}, None)))
    E.append(("KL/bases", lambda it, s, wf: it.call_function(f(it.program, "KL"), [s, tgt(it, wf)], {"space": tens(it, "space", ("N", "nv")), "bases": it.new_list([basis_str(it), basis_str(it)])}, None)))
    E.append(("NLL/no-bases", lambda it, s, wf: it.call_function(f(it.program, "NLL"), [s, tens(it, "samples", ("B", "nv"))], {"space": tens(it, "space", ("N", "nv"))}, None)))
    E.append(("NLL/bases", lambda it, s, wf: it.call_function(f(it.program, "NLL"), [s, tens(it, "samples", ("B", "nv"))], {"space": tens(it, "space", ("N", "nv")), "sample_bases": bases_arr(it, "sample_bases")}, None)))
    return E


def cx_t(it, name, shape):
    o = it.new_tobj("tensor", T.stack0(T.sym(name + "r"), T.sym(name + "i")), (2,) + tuple(shape), "param:" + name)
    o.fw = 64  # the operands the properties quantify over are float64
    return VTens(o)


def param_effects(path, include_grad=False):
    """Effects of a path that change model parameters (or their gradients)."""
    out = []
    for e in path.effects:
        if e.kind in ("params", "rebind-param"):
            out.append(e)
        elif e.kind in ("write", "meta") and any(o.startswith("attr:rbm_") or o.startswith("attr:rbm.") for o in e.origins):
            out.append(e)
        elif e.kind == "grad" and include_grad:
            out.append(e)
        elif e.kind == "setattr" and isinstance(e.obj, object) and getattr(e.obj, "origin", "").startswith("attr:rbm"):
            out.append(e)
    return out


def unknown_effects(path, origins_prefix=()):
    """Opaque calls that received objects whose origin starts with one of the prefixes."""
    out = []
    for e in path.effects:
        if e.kind == "ext-call" and isinstance(e.detail, tuple):
            for o in e.detail[2]:
                org = getattr(o, "origin", "")
                roots = [r.origin for r in o.roots()] if hasattr(o, "roots") else [org]
                if any(r.startswith(p) for r in roots for p in origins_prefix):
                    out.append((e, o))
    return out
