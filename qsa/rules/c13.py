"""C13 – streaming statistics: draw count, burn-in/steps schedule, chain continuity, overwrite,
sibling agreement of the two `statistics`, pairwise-merge identity, divisor != 0."""
from fractions import Fraction

import ast

from .. import terms as T
from .. import ints
from .common import *  # noqa: F401,F403
from . import api

UT = "qucumber.observables.utils"


def _stats_paths(ck, kind, cls, init, overwrite, nchains):
    """kind: 'observable' | 'system'."""
    prog = ck.program

    def th(it):
        s = make_state(it, cls)
        obs = api.observable_instances(it, prog)
        if kind == "observable":
            recv = obs["SigmaZ"]
        elif kind == "system-same-name":
            recv = it.instantiate(prog.cls("System"), [obs["SigmaZ"], obs["SigmaZ/absolute"]], {}, None)  # two observables, one name
        else:
            recv = it.instantiate(prog.cls("System"), [obs["SigmaZ"], obs["SigmaX"]], {}, None)
        kw = {"burn_in": api.intsym("burn_in", pos=False), "steps": api.intsym("steps", pos=False)}
        ns = api.intsym("num_samples")
        if init:
            kw["initial_state"] = tens(it, "init", ("C", "nv"))
            kw["overwrite"] = VConst(overwrite)
            kw["num_chains"] = api.intsym("ignored_chains")
        else:
            kw["num_chains"] = VConst(0) if nchains == "zero" else api.intsym("num_chains")
        del it.effects[:]
        r = call(it, recv, "statistics", s, ns, **kw)
        return s, recv, r, kw

    def stub_update(it, func, env, node):
        # modular: the merge routine itself is decided by R5/R6; the drivers only need its length law
        la, lb = argp(env, 2), argp(env, 5)  # (avg_a, var_a, len_a, avg_b, var_b, len_b) by position
        from ..ops import binop

        ab = argp(env, 3)
        if isinstance(ab, VTens):
            # one vectorised merge for all observables: slot k of the result is the merge of slot k of the arguments
            vb_ = argp(env, 4)

            def mk(nm, src):
                comps = T.as_stack0(src.term) if isinstance(src, VTens) and src.term is not None else None
                return it.fresh(T.stack0(*[T.app(nm, c_) for c_ in comps]) if comps is not None else None, ab.shape, ab.kind, node)

            return VTuple([mk("merged_mean", ab), mk("merged_var", vb_), binop(it, "Add", la, lb, node)])
        mb, vb = num_term(ab), num_term(argp(env, 4))
        return VTuple([VNum("float", T.app("merged_mean", mb) if mb is not None else T.sym("merged_mean")),
                       VNum("float", T.app("merged_var", vb) if vb is not None else T.sym("merged_var")), binop(it, "Add", la, lb, node)])

    upd = prog.func(UT, "_update_statistics")
    paths = paths_of(prog, th, max_paths=60, sticky=True, stubs={upd.qualname: stub_update})
    ck.note_functions(functions_in_paths(paths))
    return paths


def run(ck):
    prog = ck.program
    upd = prog.func(UT, "_update_statistics")
    usite = upd.site()
    # ------------------------------------------------------------------ R5 / R6 the merge routine
    with ck.guard("C13.R5", "_update_statistics", usite):
        def th(it):
            args = [
                VNum("float", T.sym("avg_a")), VNum("float", T.sym("var_a")), VNum("int", T.sym("len_a"), nonneg=True),
                VNum("float", T.sym("avg_b")), VNum("float", T.sym("var_b")), VNum("int", T.sym("len_b"), pos=True),
            ]
            return it.call_function(VFunc(upd), args, {}, None)

        paths = paths_of(prog, th, max_paths=40)
        lows = {"len_a": 0, "len_b": 1}
        rets = [p for p in paths if p.outcome == "return"]
        ck.check(bool(rets), "C13.R5", "returns", usite, "_update_statistics never returns")
        n_generic = 0
        # another convention of the same helper (its callers then convert on the way in and out): the second moments it merges are
        # sums of squared deviations, M = M_a + M_b + delta^2 n_a n_b / n, or population variances, (n_a v_a + n_b v_b + delta^2 n_a n_b / n) / n
        alt = None
        for p in rets:
            items_ = p.interp.concrete_items(p.value)
            v_ = num_term(items_[1]) if items_ is not None and len(items_) == 3 else None
            if v_ is not None and {"var_a", "var_b"} <= v_.syms():
                la_, lb_ = T.sym("len_a"), T.sym("len_b")
                d_ = T.sym("avg_b") - T.sym("avg_a")
                m2 = T.sym("var_a") + T.sym("var_b") + d_ * d_ * la_ * lb_ / (la_ + lb_)
                pv = (la_ * T.sym("var_a") + lb_ * T.sym("var_b") + d_ * d_ * la_ * lb_ / (la_ + lb_)) / (la_ + lb_)
                if T.ratfun_equal(v_, m2):
                    alt = "sums of squared deviations"
                elif T.ratfun_equal(v_, pv):
                    alt = "population variances"
        ck.__dict__["_c13_conv"] = alt or "unbiased variances"
        if alt is not None:
            ck.undecided("C13.R5", "variance convention", usite, "_update_statistics merges %s (the pairwise update is right for them); whether every caller converts its unbiased chunk variances on the way in and the result on the way out is not decided" % alt)
        for p in paths:
            pname = ",".join("%s=%s" % (c[1], c[2]) for c in p.conds) or "straight-line"
            # ---- R6 every division on this path has a non-zero divisor
            for site, dterm, conds, dval in getattr(p.interp, "divisions", []):
                ok = ints.positive_on_path(dterm, lows, conds)
                ck.check(ok, "C13.R6", "divisor %r [%s]" % (dterm, pname), site,
                         "division by %r, which is 0 for a first chunk of a single chain (len_a = 0, len_b = 1): ZeroDivisionError when num_chains = 1" % (dterm,),
                         key="C13.R6|_update_statistics|divisor-zero")
            if p.outcome != "return":
                continue
            items = p.interp.concrete_items(p.value)
            if items is None or len(items) != 3:
                ck.undecided("C13.R5", "result triple [%s]" % pname, usite, "result is not a (mean, variance, length) triple")
                continue
            mean, var, ln = (num_term(x) for x in items)
            facts = ints.cmp_facts(p.conds)
            # ---- R6b the variance of a one-element chunk is undefined (NaN from torch.var_mean): it may
            # only enter the result on paths where that chunk is known to have more than one element
            for vs, ls in (("var_a", "len_a"), ("var_b", "len_b")):
                if var is not None and vs in var.syms() and alt is None:
                    guarded = ints.positive_on_path(T.sym(ls) - 1, {}, p.conds) is True
                    ck.check(True if guarded else False, "C13.R6", "%s used only if %s > 1 [%s]" % (vs, ls, pname), usite,
                             "the variance of a chunk enters the merge although the chunk may hold a single value (%s = 1 gives NaN from the unbiased estimator): "
                             "statistics with num_chains = 1 are NaN / raise" % ls, key="C13.R6|_update_statistics|chunk-variance-unguarded:" + vs)
            # ---- R5 pairwise-merge identity on the generic branch (both chunks > 1, total > 1)
            la, lb = T.sym("len_a"), T.sym("len_b")
            generic = var is not None and {"var_a", "var_b"} <= var.syms()
            if generic:
                n_generic += 1
                n = la + lb
                ref_mean = (T.sym("avg_a") * la + T.sym("avg_b") * lb) / n
                d = T.sym("avg_b") - T.sym("avg_a")
                ref_var = ((la - 1) * T.sym("var_a") + (lb - 1) * T.sym("var_b") + d * d * la * lb / n) / (n - 1)
                ck.check(T.ratfun_equal(mean, ref_mean), "C13.R5", "mean [%s]" % pname, usite, "merged mean is not (n_a m_a + n_b m_b)/(n_a+n_b): %r" % (mean,))
                ck.check(T.ratfun_equal(var, ref_var) or (None if alt is not None else False), "C13.R5", "variance [%s]" % pname, usite,
                         "merged variance is not the pairwise (Chan et al.) update ((n_a-1)s_a^2+(n_b-1)s_b^2+delta^2 n_a n_b/n)/(n-1): %r" % (var,))
                ck.check(ln == n, "C13.R5", "length [%s]" % pname, usite, "merged length is not n_a + n_b")
            elif var is not None and mean is not None and ln is not None and not (isinstance(items[2], VConst) and items[2].value == 0):
                # degenerate branches: the mean and the length must still be the pooled ones
                n = la + lb
                ref_mean = (T.sym("avg_a") * la + T.sym("avg_b") * lb) / n
                ck.check(T.ratfun_equal(mean, ref_mean), "C13.R5", "mean [%s]" % pname, usite, "merged mean on a degenerate branch is not the pooled mean")
                ck.check(ln == n, "C13.R5", "length [%s]" % pname, usite, "merged length is not n_a + n_b")
        ck.check(n_generic >= 1, "C13.R5", "generic branch present", usite, "no path merges two non-trivial chunks")
    # ------------------------------------------------------------------ R1-R4 the two statistics drivers
    for kind, owner in (("observable", "ObservableBase"), ("system", "System")):
        ssite = prog.method(owner, "statistics").site()
        for cls in ("PositiveWaveFunction", "DensityMatrix"):
            for ctx, init, ow, nch in (("chains=given", False, False, "sym"), ("chains=0", False, False, "zero"),
                                       ("initial_state/overwrite=False", True, False, None), ("initial_state/overwrite=True", True, True, None)):
                inst = "%s.statistics/%s/%s" % (owner, cls, ctx)
                with ck.guard("C13.R1", inst, ssite):
                    paths = _stats_paths(ck, kind, cls, init, ow, nch)
                    rets = [p for p in paths if p.outcome == "return"]
                    if not rets:
                        ck.undecided("C13.R1", inst, ssite, "statistics never returns: %s" % [str(p.value) for p in paths][:2])
                        continue
                    for p in rets:
                        _check_driver(ck, inst, ssite, p, owner, init, ow, nch)
    # ------------------------------------------------------------------ R4 together = alone
    # "evaluating several observables together gives each the result it would get alone on the same chain states": a composite
    # whose leaf carries the name of another registered observable (|SigmaZ| + SigmaX next to SigmaZ) included
    ssite2 = prog.method("System", "statistics_from_samples").site()
    inst = "System.statistics_from_samples/(SigmaZ, |SigmaZ| + SigmaX)"
    with ck.guard("C13.R4", inst, ssite2):
        def tha(it):
            from ..ops import binop

            s = make_state(it, "PositiveWaveFunction")
            obs = api.observable_instances(it, prog)
            comp = binop(it, "Add", obs["SigmaZ/absolute"], obs["SigmaX"], None)
            recv = it.instantiate(prog.cls("System"), [obs["SigmaZ"], comp], {}, None)
            smp = tens(it, "samples", ("B", "nv"))
            r = call(it, recv, "statistics_from_samples", s, smp)
            alone = {"first": call(it, obs["SigmaZ"], "apply", s, smp), "second": call(it, comp, "apply", s, smp)}
            return recv, r, alone

        for p in [q for q in paths_of(prog, tha, max_paths=40, sticky=True) if q.outcome == "return"][:6]:
            recv, r, alone = p.value
            obsd = p.interp.get_attr(recv, "observables", None)
            if not (isinstance(r, VDict) and r.obj.items is not None and isinstance(obsd, VDict) and obsd.obj.items is not None and len(obsd.obj.items) == 2):
                ck.undecided("C13.R4", inst, ssite2, "the result / the registered observables are not followed")
                continue
            for (nm_, _o), key_ in zip(obsd.obj.items.items(), ("first", "second")):
                dct = r.obj.items.get(nm_)
                got = num_term(dct.obj.items.get("mean")) if isinstance(dct, VDict) and dct.obj.items is not None and dct.obj.items.get("mean") is not None else None
                at_ = alone[key_].term if isinstance(alone[key_], VTens) else None
                want = T.app("mean", at_, "all") if at_ is not None else None
                if got is None or want is None:
                    ck.undecided("C13.R4", inst + ":%s observable" % key_, ssite2, "the reported mean or the stand-alone value is not followed")
                elif got == want:
                    ck.ok("C13.R4", inst + ":%s observable: reported mean = mean of its own apply()" % key_, ssite2)
                else:
                    # the stand-alone value takes an absolute value that the reported one lacks (or the reverse): values of another
                    # observable were used
                    ab_g = {a_ for a_ in got.all_atoms() if isinstance(a_, T.App) and a_.op == "abs"}
                    ab_w = {a_ for a_ in want.all_atoms() if isinstance(a_, T.App) and a_.op == "abs"}
                    ck.check(False if ab_g != ab_w else None, "C13.R4", inst + ":%s observable: reported mean = mean of its own apply()" % key_, ssite2,
                             "evaluated together with SigmaZ, the observable %s reports the mean of %s, alone it is %s: the values of another observable (same name, other sign convention) are reused"
                             % (nm_, str(got)[:120], str(want)[:120]), key="C13.R4|System|shared by name")
    # "any set of observables": two different observables may carry the same name (SigmaZ() and SigmaZ(absolute=True) do);
    # each must still be evaluated on every draw, and reported
    ssite = prog.method("System", "statistics").site()
    inst = "System.statistics/two observables with the same name"
    with ck.guard("C13.R4", inst, ssite):
        for p in [q for q in _stats_paths(ck, "system-same-name", "PositiveWaveFunction", False, False, "sym") if q.outcome == "return"]:
            it = p.interp
            sfs = [c for c in it.calls if c[0] == "ObservableBase.statistics_from_samples"]
            recvs = {id(c[1][0].inst) for c in sfs if c[1] and isinstance(c[1][0], VObj)}
            ck.check(len(recvs) == 2, "C13.R4", inst + ":every observable given is evaluated [%s]" % path_tag(p), prog.cls("System").find_method("__init__").site(),
                     "System(SigmaZ(), SigmaZ(absolute=True)) evaluates %d of the 2 observables: observables are kept in a dictionary keyed by their name, a second observable with the same name "
                     "replaces the first, which gets no result (and the entry under its name is the other observable's)" % len(recvs), key="C13.R4|System|same-name observables dropped")
    ck.require_min("C13.R1", 16)
    ck.require_min("C13.R2", 32)
    ck.require_min("C13.R3", 8)
    ck.require_min("C13.R4", 8)
    ck.require_min("C13.R5", 4)
    ck.require_min("C13.R6", 3)
    ck.assumptions += [
        "torch.var_mean returns the unbiased variance (NaN for a single value) and the mean of its argument",
        "the pairwise update of Chan, Golub, LeVeque is the reference for merging (mean, variance, n) triples",
        "the distribution of the draws is not decided",
    ]


def _check_driver(ck, inst, ssite, p, owner, init, ow, nch):
    it = p.interp
    s, recv, r, kw = p.value
    ns = T.sym("num_samples")
    # the draw loop is the summarised loop (in whichever function) whose body holds the call that advances the chains
    smp_nodes = [n_ for k_, l_ in it.call_ast.items() if k_.endswith(".sample") and "Observable" not in k_ for n_ in l_]
    loops = [l for l in it.loops if any(x is n_ for n_ in smp_nodes for x in ast.walk(l["node"]))]
    if not loops:
        loops = [l for l in it.loops if owner + ".statistics" in l["site"]]
    outer = [l for l in loops if l["generic"] is not None or l["first"] is not None]
    if not outer:
        if nch == "zero":
            # num_chains = num_samples: exactly one draw, the loop is unrolled
            sc = [c for c in it.calls if c[0].endswith(".sample") and "Observable" not in c[0]]
            ck.check(len(sc) == 1 and num_term(sc[0][5].get("k")) == T.sym("burn_in") and num_term(sc[0][5].get("num_samples")) == ns, "C13.R1", inst + ":one draw of num_samples chains", ssite,
                     "with num_chains = 0 the statistics are not one burn-in draw of num_samples chains")
            return
        ck.undecided("C13.R1", inst + ":draw loop", ssite, "no summarised draw loop found")
        return
    lp = outer[0]
    # ---------------- R1 number of draws
    if init:
        nc = T.sym("C")
    elif nch == "zero":
        nc = ns
    else:
        nc = T.app("min", *sorted([T.sym("num_chains"), ns], key=repr))
    want_stop = T.app("ceil", ns * T.inv(nc)) if nc != ns else T.ONE
    itv = lp["iter"]
    from ..interp import _count_term

    ct_ = _count_term(itv)  # a range, or a zip of a range with sources that never end
    ok = ct_[0] == "range" and ct_[1] == T.ZERO and ct_[3] == T.ONE
    stop = ct_[2] if ct_[0] == "range" else None
    if ok and stop == want_stop:
        ck.ok("C13.R1", inst + ":ceil(num_samples/num_chains) draws", lp["site"], draws=stop)
    elif ok and stop is not None and (stop == T.app("floordiv", ns, nc) or stop == T.app("trunc", ns * T.inv(nc))):
        ck.violation("C13.R1", inst + ":ceil(num_samples/num_chains) draws", lp["site"], "the number of draws is floor(num_samples/num_chains): fewer samples than requested are drawn")
    elif ok and stop is not None and stop.syms() != want_stop.syms():
        ck.violation("C13.R1", inst + ":ceil(num_samples/num_chains) draws", lp["site"], "the number of draws %r does not depend on %s" % (stop, sorted(want_stop.syms())))
    else:
        ck.undecided("C13.R1", inst + ":ceil(num_samples/num_chains) draws", lp["site"], "draw count %r not recognised (expected %r)" % (stop, want_stop))
    # ---------------- R2 schedule and chain continuity (from the recorded sample() calls)
    sc = [c for c in it.calls if c[0].endswith(".sample") and c[0].split(".")[0] in ("NeuralStateBase", "PositiveWaveFunction", "ComplexWaveFunction", "DensityMatrix")]
    if len(sc) != 2:
        ck.check(None if len(sc) > 2 else False, "C13.R2", inst + ":one sample() per draw", ssite, "sample() is called %d times per (first, generic) draw pair; expected once per draw" % len(sc))
        return
    first, gen = sc
    k1, k2 = num_term(first[5].get("k")), num_term(gen[5].get("k"))
    ck.check((k1 == T.sym("burn_in")) if k1 is not None else None, "C13.R2", inst + ":burn-in before the first draw", ssite, "the first draw uses k = %r, expected burn_in" % (k1,))
    ck.check((k2 == T.sym("steps")) if k2 is not None else None, "C13.R2", inst + ":steps between later draws", ssite, "later draws use k = %r, expected steps" % (k2,))
    i1, i2 = first[5].get("initial_state"), gen[5].get("initial_state")
    if init:
        src = kw["initial_state"]
        if ow:
            ck.check(isinstance(i1, VTens) and i1.obj is src.obj, "C13.R3", inst + ":chains are the caller's tensor", ssite, "with overwrite=True the chains are not the caller's initial_state")
        else:
            ck.check(isinstance(i1, VTens) and i1.obj is not src.obj and i1.obj.origin == "fresh", "C13.R3", inst + ":chains are a copy", ssite,
                     "with overwrite=False the chains share storage with the caller's initial_state")
        wr = [e for e in p.effects if "param:init" in e.origins and e.kind in ("write", "meta")]
        if ow:
            okw = bool(wr)
            if not wr:
                # a path on which every draw takes no Gibbs step (burn_in <= 0 and steps <= 0 established): nothing to update
                sc_ = [c for c in p.conds if getattr(c[3] if len(c) > 3 else None, "term", None) is not None]
                nost = [ints.positive_on_path(1 - num_term(d_[5].get("k")), {}, sc_) is True if num_term(d_[5].get("k")) is not None else False for d_ in (first, gen)]
                okw = True if all(nost) else (None if any(nost) else False)
            ck.check(okw, "C13.R3", inst + ":updated in place", ssite, "overwrite=True never updates the caller's tensor")
        else:
            ck.check(not wr, "C13.R3", inst + ":initial_state untouched", wr[0].site if wr else ssite, "the caller's initial_state is written although overwrite=False")
    else:
        ck.check(isinstance(i1, VConst) and i1.value is None, "C13.R2", inst + ":fresh start", ssite, "the first draw does not start from a fresh random state")
        n1 = num_term(first[5].get("num_samples"))
        want_nc = ns if nch == "zero" else T.app("min", *sorted([T.sym("num_chains"), ns], key=repr))
        okn1 = n1 == want_nc
        if not okn1 and nch != "zero" and n1 is not None:
            # min(num_chains, num_samples) written as a case distinction: on a path that established num_chains <= num_samples it
            # is num_chains, on one that established the opposite (or num_chains == 0) it is num_samples
            nc_s = T.sym("num_chains")
            cm_ = [c for c in p.conds if getattr(c[3] if len(c) > 3 else None, "term", None) is not None and {"num_chains", "num_samples"} & c[3].term.syms()]
            if n1 == nc_s and ints.positive_on_path(ns - nc_s + 1, {}, cm_) is True:
                okn1 = True
            elif n1 == ns and (ints.positive_on_path(nc_s - ns + 1, {}, cm_) is True):
                okn1 = True
            elif n1 in (nc_s, ns) and cm_:
                okn1 = None  # a case distinction on the two numbers the analyser cannot close
        ck.check(okn1, "C13.R1", inst + ":chain count normalised", ssite, "sample() is asked for %r chains; expected %r" % (n1, want_nc))
    r1 = first[4]
    ck.check(isinstance(i2, VTens) and isinstance(r1, VTens) and i2.obj is r1.obj, "C13.R2", inst + ":chains continue", ssite,
             "later draws do not continue the chains returned by the previous draw")
    o2 = gen[5].get("overwrite")
    ck.check(isinstance(o2, VConst) and o2.value is True, "C13.R2", inst + ":chains advanced in place", ssite, "internal chain updates do not use overwrite=True")
    # ---------------- R4 every observable sees the same chain state of the draw; counts advance once per draw
    sfs = [c for c in it.calls if c[0] == "ObservableBase.statistics_from_samples"]  # the public entry point itself (a private worker it delegates to is not another evaluation)
    per_draw = len(sfs) // 2 if sfs else 0
    nobs = 1 if owner == "ObservableBase" else 2
    # the evaluations themselves: apply() of each registered observable (however the driver reaches it)
    regs = [recv] if owner == "ObservableBase" else [v_ for v_ in (it.get_attr(recv, "observables", None).obj.items or {}).values() if isinstance(v_, VObj)]
    app_calls = [c for c in it.calls if c[0].endswith(".apply") and isinstance(c[5].get("self"), VObj) and any(c[5]["self"].inst is r_.inst for r_ in regs)]
    if not sfs and app_calls:
        per_obs = {id(r_.inst): [c for c in app_calls if c[5]["self"].inst is r_.inst] for r_ in regs}
        ck.check(all(len(v_) == 2 for v_ in per_obs.values()), "C13.R4", inst + ":each observable once per draw", ssite,
                 "the registered observables are evaluated %s times in the 2 analysed draws (expected once per draw each)" % sorted(len(v_) for v_ in per_obs.values()))
        if all(len(v_) == 2 for v_ in per_obs.values()):
            for j, v_ in enumerate(per_obs.values()):
                for draw, c in zip((first, gen), v_):
                    smp_t = c[7].get("samples") if len(c) > 7 else None
                    ck.check((smp_t == draw[6]) if (smp_t is not None and draw[6] is not None) else None, "C13.R4", inst + ":evaluated on this draw's chains #%d" % j, ssite,
                             "an observable is not evaluated on the chain state returned by the current draw")
    else:
        ck.check(per_draw == nobs and len(sfs) == 2 * nobs, "C13.R4", inst + ":each observable once per draw", ssite, "statistics_from_samples is called %d times for %d observables and 2 analysed draws" % (len(sfs), nobs))
    if len(sfs) == 2 * nobs:
        for j, c in enumerate(sfs):
            draw = first if j < nobs else gen
            smp_t = c[7].get("samples") if len(c) > 7 else None
            ck.check((smp_t == draw[6]) if (smp_t is not None and draw[6] is not None) else None, "C13.R4", inst + ":evaluated on this draw's chains #%d" % j, ssite,
                     "an observable is not evaluated on the chain state returned by the current draw")
    ups = [c for c in it.calls if c[0].endswith("_update_statistics")]
    vec = [c for c in ups if isinstance(argp(c[5], 3), VTens)]
    if vec:
        # one vectorised merge per draw (the chunk statistics of all observables in one array): one slot per observable
        slots = [T.as_stack0(argp(c[5], 3).term) if argp(c[5], 3).term is not None else None for c in vec]
        okv = len(vec) == len(ups) == 2 and all(sl is not None and len(sl) == nobs for sl in slots)
        ck.check(True if okv else None, "C13.R4", inst + ":one merge per observable and draw", ssite,
                 "the merges take arrays the analyser cannot split into one slot per observable (%d merges, slots %s)" % (len(ups), [len(sl) if sl else None for sl in slots]))
    else:
        ck.check(len(ups) == 2 * nobs, "C13.R4", inst + ":one merge per observable and draw", ssite, "_update_statistics is called %d times, expected %d" % (len(ups), 2 * nobs))
    # every name reports the statistics of the observable registered under it (and of no other)
    obsd = it.get_attr(recv, "observables", None) if owner == "System" else None
    if isinstance(obsd, VDict) and obsd.obj.items is not None and isinstance(r, VDict) and r.obj.items is not None and (sfs or app_calls):
        own = {}
        for c in sfs:
            slf, res_ = c[5].get("self"), c[4]
            if isinstance(slf, VObj) and isinstance(res_, VDict) and res_.obj.items is not None:
                for key_ in ("mean", "variance"):
                    t_ = num_term(res_.obj.items.get(key_)) if res_.obj.items.get(key_) is not None else None
                    if t_ is not None:
                        own.setdefault(key_, {}).setdefault(t_, set()).add(id(slf.inst))
        # (the chunk statistics of an observable are mean / unbiased variance of what its apply() returned, whoever computes them)
        for c in app_calls:
            rt_ = c[6] if len(c) > 6 else None
            if rt_ is not None and hasattr(rt_, "terms"):
                own.setdefault("mean", {}).setdefault(T.app("mean", rt_, "all"), set()).add(id(c[5]["self"].inst))
                own.setdefault("variance", {}).setdefault(T.app("var_unbiased", rt_), set()).add(id(c[5]["self"].inst))
        for nm_, dct in r.obj.items.items():
            o_ = obsd.obj.items.get(nm_)
            if not isinstance(dct, VDict) or dct.obj.items is None or not isinstance(o_, VObj):
                continue
            for key_, mop in (("mean", "merged_mean"), ("variance", "merged_var")):
                t_ = num_term(dct.obj.items.get(key_)) if dct.obj.items.get(key_) is not None else None
                srcs = [a.args[0] for a in (t_.all_atoms() if t_ is not None else []) if isinstance(a, T.App) and a.op == mop and a.args and a.args[0] in own.get(key_, {})]
                if not srcs:
                    ck.undecided("C13.R4", inst + ":%s of %r comes from the observable registered under that name" % (key_, nm_), ssite, "the reported %s is not a merge of recorded chunk statistics" % key_)
                    continue
                owners = set().union(*[own[key_][a_] for a_ in srcs])
                ck.check(owners == {id(o_.inst)}, "C13.R4", inst + ":%s of %r comes from the observable registered under that name" % (key_, nm_), ssite,
                         "the %s reported under %r is merged from the chunk statistics of another observable: names and values are matched in different orders" % (key_, nm_))
    if len(ups) == 2 * nobs and not vec and len(sfs) == 2 * nobs:
        # the second moment handed to the merge is the chunk's unbiased variance in the form the merge routine works with (as is;
        # times n - 1 for sums of squared deviations; times (n - 1) / n for population variances): a caller left on another form
        # than the routine's merges quantities of two kinds
        conv = ck.__dict__.get("_c13_conv", "unbiased variances")
        forms = {"unbiased variances": lambda v_, n_: v_, "sums of squared deviations": lambda v_, n_: v_ * (n_ - 1), "population variances": lambda v_, n_: v_ * (n_ - 1) / n_}
        for j, (c, sf) in enumerate(zip(ups, sfs)):
            res_ = sf[4]
            cv_ = num_term(res_.obj.items.get("variance")) if isinstance(res_, VDict) and res_.obj.items and res_.obj.items.get("variance") is not None else None
            vb_, lb_ = num_term(argp(c[5], 4)), num_term(argp(c[5], 5))
            if cv_ is None or vb_ is None or lb_ is None:
                continue
            hit = [k_ for k_, f_ in forms.items() if vb_ == f_(cv_, lb_) or T.ratfun_equal(vb_, f_(cv_, lb_))]
            if conv in hit:
                ck.ok("C13.R4", inst + ":chunk variance handed over as %s #%d" % (conv, j), ssite)
            elif hit:
                ck.violation("C13.R4", inst + ":chunk variance handed over as %s #%d" % (conv, j), ssite,
                             "_update_statistics merges %s, but this caller hands it the chunk's %s: variance and standard error come out wrong as soon as there is more than one draw" % (conv, hit[0]),
                             key="C13.R4|%s|merge convention" % owner)
            else:
                ck.undecided("C13.R4", inst + ":chunk variance handed over as %s #%d" % (conv, j), ssite, "what is handed to the merge (%s) is not a recognised form of the chunk variance" % (str(vb_)[:120],))
    if len(ups) == 2 * nobs and not vec:
        nc_t = num_term(argp(ups[0][5], 5))
        from ..values import dim_size

        def _rows(draw):
            sh_ = getattr(draw[4], "shape", None)
            return dim_size(sh_[0]) if sh_ else None

        for j, c in enumerate(ups):
            lb = num_term(argp(c[5], 5))
            la = num_term(argp(c[5], 2))
            # the chunk merged after a draw is that draw's chain states: its length is the number of rows sample() returned
            # (with a caller's initial_state that is the length of the initial_state, whatever num_chains was given)
            rows = _rows(first if j < nobs else gen)
            if lb is None or rows is None:
                ck.undecided("C13.R4", inst + ":chunk length = chain count #%d" % j, ssite, "chunk length %r / rows of the draw %r not followed" % (lb, rows))
            elif lb == rows:
                ck.ok("C13.R4", inst + ":chunk length = chain count #%d" % j, ssite)
            elif not (lb.syms() & rows.syms()) and lb.syms() and rows.syms():
                ck.violation("C13.R4", inst + ":chunk length = chain count #%d" % j, ssite,
                             "a draw of %r chain states is merged as a chunk of %r values: variance, standard error and the reported count are those of another number of samples" % (rows, lb),
                             key="C13.R4|%s|chunk length is not the draw's rows" % owner)
            else:
                ck.check(True if lb == nc_t else None, "C13.R4", inst + ":chunk length = chain count #%d" % j, ssite, "a merge uses chunk length %r for a draw of %r rows" % (lb, rows))
            if j < nobs:
                ck.check(la == T.ZERO, "C13.R4", inst + ":first merge starts from 0 #%d" % j, ssite, "the first merge of a run starts from length %r" % (la,))
        # all observables of one draw merge against the same accumulated length
        if nobs == 2:
            la_g = [num_term(argp(c[5], 2)) for c in ups[nobs:]]
            ck.check(la_g[0] == la_g[1], "C13.R4", inst + ":same accumulated count for all observables", ssite,
                     "observables of one draw are merged against different sample counts (%r vs %r): the count is advanced inside the observable loop" % (la_g[0], la_g[1]))
    # reported count = chains x draws
    res = r
    cnt = None
    if isinstance(res, VDict) and res.obj.items is not None:
        if owner == "ObservableBase":
            cnt = res.obj.items.get("num_samples")
        else:
            inner = [v for v in res.obj.items.values() if isinstance(v, VDict)]
            if inner:
                cnt = inner[0].obj.items.get("num_samples")
    ct = num_term(cnt) if cnt is not None else None
    okc = None
    if ct is not None:
        at = ct.single_atom()
        if at is not None and isinstance(at, T.App) and at.op == "accum":
            from ..values import dim_size as _ds

            sh1_ = getattr(first[4], "shape", None)
            nc_t = _ds(sh1_[0]) if sh1_ else None  # the rows of a draw: what one draw adds to the count
            if nc_t is None:
                nc_t = num_term(argp(ups[0][5], 5)) if ups else None
            okc = (at.args[2] == nc_t and at.args[3] == nc_t)
        elif ups and num_term(argp(ups[0][5], 5)) is not None and ct == 2 * num_term(argp(ups[0][5], 5)):
            okc = True  # carried in an object's attribute instead of a local: one chain count per analysed draw (first + generic iteration)
        elif ct.is_const() or (ups and num_term(argp(ups[0][5], 5)) is not None and not (num_term(argp(ups[0][5], 5)).syms() & ct.syms())):
            okc = False  # the reported count does not grow with the draws at all
    ck.check(okc, "C13.R1", inst + ":reported count = chains x draws", ssite, "the reported num_samples %r is not the chain count accumulated once per draw" % (ct,))
    # standard error = sqrt(reported variance / reported count) - the count actually drawn, not the count asked for
    dicts = []
    if isinstance(res, VDict) and res.obj.items is not None:
        dicts = [res] if owner == "ObservableBase" else [v for v in res.obj.items.values() if isinstance(v, VDict)]
    for dct in dicts[:2]:
        se, va, cn = (num_term(dct.obj.items.get(k)) if dct.obj.items.get(k) is not None else None for k in ("std_error", "variance", "num_samples"))
        if se is None or va is None or cn is None:
            ck.undecided("C13.R1", inst + ":std_error = sqrt(variance / count)", ssite, "standard error, variance or count is not a number the analyser follows")
            continue
        want_se = T.sqrt(va * T.inv(cn))
        if se == want_se:
            ck.ok("C13.R1", inst + ":std_error = sqrt(variance / count)", ssite)
        elif se == T.sqrt(va * T.inv(ns)) and cn != ns:
            ck.violation("C13.R1", inst + ":std_error = sqrt(variance / count)", ssite,
                         "the standard error divides the variance by the number of samples asked for (num_samples), not by the number drawn (%r): they differ whenever num_samples is not a multiple of the chain count" % (cn,))
        else:
            d = lin_diff(se * se, va * T.inv(cn))
            ck.check(diff_verdict(d), "C13.R1", inst + ":std_error = sqrt(variance / count)", ssite, "std_error^2 vs variance / count: " + diff_msg(d))
