"""C18 – early stopping: lookback index, gate, criteria, strict comparison, refusals."""
from .. import terms as T
from .. import ints
from .common import *  # noqa: F401,F403
from . import api
from .c17 import make_cb, unk, period, epoch, gate_decisions


def idx_name(v):
    if v is None or (isinstance(v, VConst) and v.value is None):
        return "cur"
    t = num_term(v)
    return repr(t) if t is not None else "?"


def stub_metric_get_value(it, func, env, node):
    idx = env.get("index")
    nm = env.get("name")
    ok, n = const_of(nm)
    r = VNum("float", T.sym("M[%s]" % idx_name(idx)))
    return r


def stub_obs_get_value(it, func, env, node):
    idx = env.get("index")
    k = idx_name(idx)
    return it.new_dict({"mean": VNum("float", T.sym("M[%s]" % k)), "variance": VNum("float", T.sym("V[%s]" % k), pos=True),
                        "std_error": VNum("float", T.sym("SE[%s]" % k)), "num_samples": VNum("int", T.sym("N[%s]" % k))})


STUBS = {"MetricEvaluator.get_value": stub_metric_get_value, "ObservableEvaluator.get_value": stub_obs_get_value}


def make_es(it, prog, evaluator, criterion, cls="EarlyStopping"):
    if evaluator == "metric":
        ev = make_cb(it, prog, "MetricEvaluator")
    else:
        ev = make_cb(it, prog, "ObservableEvaluator")
    ev.inst.attrs["past_values"] = it.new_list(None)
    ev.inst.attrs["period"] = VNum("int", T.sym("eperiod"), pos=True)  # the evaluator's own period: another number than the stopper's
    name = VConst("m1" if evaluator == "metric" else "SigmaZ")
    kw = {"period": period(), "tolerance": VNum("float", T.sym("tol")), "patience": api.intsym("p"), "evaluator_callback": ev, "quantity_name": name}
    if cls == "EarlyStopping":
        kw["criterion"] = VConst(criterion)
    return it.instantiate(prog.cls(cls), [], kw, None), ev


def run(ck):
    prog = ck.program
    es = prog.cls("EarlyStopping")
    osite = es.find_method("on_epoch_end").site()
    p_ = T.sym("p")
    look = repr(-p_ - 1)
    combos = [("metric", "relative"), ("metric", "absolute"), ("observable", "relative"), ("observable", "absolute"), ("observable", "variance"),
              ("metric", " Relative "), ("observable", "VARIANCE")]
    _second_run(ck, prog, osite, p_)
    for evk, crit in combos:
        inst = "%s/%s" % (evk, crit.strip().lower() if crit.strip() != crit or crit.lower() != crit else crit)
        if crit != crit.strip().lower():
            inst += " (normalised from %r)" % crit
        with ck.guard("C18.R1", inst, osite):
            def th(it):
                cb, ev = make_es(it, prog, evk, crit)
                st = make_state(it, "PositiveWaveFunction")
                ep = epoch()
                n0 = len(it.effects)
                call(it, cb, "on_epoch_end", st, ep)
                return cb, ev, st, ep, n0

            paths = paths_of(prog, th, max_paths=60, stubs=STUBS)
            rets = [p for p in paths if p.outcome == "return"]
            ck.check(bool(rets), "C18.R1", inst + ":evaluates", osite, "on_epoch_end never returns: %s" % [str(p.value)[:80] for p in paths][:2])
            seen_stop = seen_nostop = False
            # a callable the analyser did not follow ran inside on_epoch_end (a criterion looked up through a table it cannot read):
            # what was read and decided there is not known - nothing below is judged on such a path
            blind = [p for p in rets if any(e.kind == "ext-call" for e in p.effects[p.value[4]:])]
            if blind:
                ck.undecided("C18.R1", inst + ":criterion followed", osite, "on_epoch_end calls something the analyser does not follow (%s)" % (blind[0].interp.opaque_log[-1][0] if getattr(blind[0].interp, "opaque_log", None) else "?"))
                continue
            for p in rets:
                cb, ev, st, ep, n0 = p.value
                it = p.interp
                gv = [c for c in p.calls if c[0].endswith(".get_value")]
                stops = [e for e in p.effects[n0:] if e.kind == "setattr" and e.detail in ("_stop_training", "stop_training")]
                g = gate_decisions(p)
                if not gv and not stops:
                    # a checked epoch (multiple of the period) with more than p evaluations recorded on which the criterion is not even
                    # evaluated: whatever else the path tested, a stop that is due at this epoch is missed
                    enough = any(ints.positive_on_path(T.sym(s_) - p_, {}, p.conds) is True for s_ in _len_syms(p))
                    if g and g[0] is True and enough:
                        ck.violation("C18.R1", inst + ":the criterion is evaluated at every checked epoch with enough history [%s]" % _c(p), osite,
                                     "on a multiple of the period, with more than p evaluations recorded, on_epoch_end returns without evaluating the convergence criterion (path conditions: %s): "
                                     "a stop that is due at this epoch is missed (evaluator and stopper periods may differ)" % ", ".join("%s=%s" % (c[1][:40], c[2]) for c in p.conds)[:240],
                                     key="C18.R1|EarlyStopping|check skipped")
                    continue
                # ---------------- evaluation only under the period gate
                ck.check(bool(g) and g[0] is True, "C18.R2", inst + ":checked only on multiples of the period [%s]" % _c(p), osite, "the convergence test runs on an epoch that is not a multiple of the period")
                # ---------------- R1 lookback index and gate
                idxs = sorted({idx_name(c[5].get("index")) for c in gv})
                bad = [i for i in idxs if i not in ("cur", look, "-1")]
                if bad:
                    ck.violation("C18.R1", inst + ":lookback index", osite,
                                 "the earlier evaluation is read at index %s; 'p evaluations before the current one' is index -p-1 (= %s): with patience 1 the current value is compared with itself" % (bad, look),
                                 key="C18.R1|EarlyStopping|lookback-index")
                else:
                    ck.ok("C18.R1", inst + ":lookback index [%s]" % _c(p), osite, indices=idxs)
                # a path on which the earlier evaluation was found to be exactly 0 has an unbounded relative deviation by definition
                zero_ref = True in cond_truths(p, lambda k: k[0] == "eq" and (k[1].is_zero() or k[2].is_zero()) and any(x.startswith("M[") for x in (k[1].syms() | k[2].syms())))
                if zero_ref:
                    ck.check(not stops, "C18.R2", inst + ":no stop when the reference evaluation is 0 [%s]" % _c(p), osite, "training is stopped although the relative deviation from a zero reference is unbounded")
                    continue
                ck.check(look in idxs and ("cur" in idxs or "-1" in idxs), "C18.R1", inst + ":compares current with lookback [%s]" % _c(p), osite,
                         "the criterion does not read both the current evaluation and the one p evaluations earlier (indices read: %s)" % idxs,
                         key="C18.R1|EarlyStopping|lookback-index")
                # gate: len(evaluator) must be known >= p+1 on this path
                lens = [T.sym(s) for s in _len_syms(p)]
                okgate = False
                for L in lens:
                    if ints.positive_on_path(L - p_, {}, p.conds) is True:
                        okgate = True
                ck.check(okgate, "C18.R1", inst + ":enough history [%s]" % _c(p), osite,
                         "the criterion is evaluated without establishing that more than p evaluations exist (needs len >= p+1)", key="C18.R1|EarlyStopping|history-gate")
                # ---------------- R2 the deviation is defined for every history, zeros included: a division of two Python floats raises
                # ZeroDivisionError when the divisor is 0.0 (numpy scalars give inf instead); monitored values are Python floats
                for dsite, dterm, _dc, dval in getattr(it, "divisions", []):
                    if "early_stopping" not in dsite:
                        continue
                    pyfloat = isinstance(dval, VNum) and dval.kind in ("float", "int") and not dval.pos
                    mon = dterm is not None and any(x.startswith("M[") or x.startswith("V[") for x in dterm.syms())
                    from ..interp import _cond_key

                    guarded = False
                    for c_ in _dc:
                        t_ = getattr(c_[3] if len(c_) > 3 else None, "term", None)
                        if t_ is None:
                            continue
                        key_, flip_ = _cond_key(t_)
                        if key_[0] == "eq" and {repr(key_[1]), repr(key_[2])} == {repr(dterm), repr(T.ZERO)} and (c_[2] != flip_) is False:
                            guarded = True  # the path established divisor != 0
                    if mon and not guarded:
                        ck.check(not pyfloat, "C18.R2", inst + ":deviation defined when an earlier evaluation is exactly 0 [%s]" % _c(p), dsite,
                                 "the criterion divides by %r, a Python float that is 0.0 for histories the property quantifies over (sequences containing zeros): ZeroDivisionError aborts training where the "
                                 "deviation is simply unbounded (no stop)" % (dterm,), key="C18.R2|EarlyStopping|division-by-zero-evaluation")
                # ---------------- R2 criterion formula and strict comparison
                devc = [c for c in p.conds if len(c) > 3 and getattr(c[3], "term", None) is not None and _is_cmp(c[3].term)]
                dev = None
                for c in devc:
                    at = c[3].term.single_atom()
                    a, b = at.args
                    if b == T.sym("tol") or a == T.sym("tol"):
                        dev = (at.op, a, b, c[2])
                if dev is None:
                    ck.undecided("C18.R2", inst + ":criterion", osite, "comparison with the tolerance not found")
                    continue
                op, a, b, outcome = dev
                ck.check(op == "cmp_Lt" and b == T.sym("tol"), "C18.R2", inst + ":strictly below tolerance [%s]" % _c(p), osite,
                         "the stop test is `%s` rather than `deviation < tolerance`" % op.replace("cmp_", ""))
                ML, MC = T.sym("M[%s]" % look), T.sym("M[cur]")
                # accept the indices actually used for diagnosing the formula independently of R1
                used = [i for i in idxs if i not in ("cur", "-1")]
                if used:
                    ML = T.sym("M[%s]" % used[0])
                    VL = T.sym("V[%s]" % used[0])
                else:
                    VL = T.sym("V[%s]" % look)
                if "-1" in idxs and "cur" not in idxs:
                    MC = T.sym("M[-1]")
                c_ = crit.strip().lower()
                want = {"relative": T.absval((ML - MC) / ML), "absolute": T.absval(ML - MC), "variance": T.absval(ML - MC) / T.sqrt(VL)}[c_]
                if a == want:
                    ck.ok("C18.R2", inst + ":criterion formula [%s]" % _c(p), osite, deviation=a)
                else:
                    alts = {"relative": T.absval((ML - MC) / MC), "absolute": None, "variance": T.absval(ML - MC) / VL}
                    if a.syms() != want.syms():
                        ck.violation("C18.R2", inst + ":criterion formula", osite, "the %s criterion depends on %s; expected %s" % (c_, sorted(a.syms()), sorted(want.syms())))
                    elif alts.get(c_) is not None and a == alts[c_]:
                        ck.violation("C18.R2", inst + ":criterion formula", osite, "the %s criterion is %r; expected %r" % (c_, a, want))
                    elif T.ratfun_equal(a, want):
                        ck.ok("C18.R2", inst + ":criterion formula [%s]" % _c(p), osite)
                    else:
                        ck.violation("C18.R2", inst + ":criterion formula", osite, "the %s criterion is %r; expected %r" % (c_, a, want)) if _same_atoms(a, want) else \
                            ck.undecided("C18.R2", inst + ":criterion formula", osite, "deviation %r not recognised (expected %r)" % (a, want))
                # ---------------- success => stop_training = True and last_epoch = epoch
                le = cb.inst.attrs.get("last_epoch")
                if outcome:
                    seen_stop = True
                    okstop = any(e.kind == "setattr" for e in stops)
                    flag = st.inst.attrs.get("_stop_training")
                    ck.check(okstop and isinstance(flag, VConst) and flag.value is True, "C18.R2", inst + ":stop requested [%s]" % _c(p), osite, "below the tolerance the stop flag is not set to True")
                    ck.check(le is ep, "C18.R2", inst + ":last_epoch recorded [%s]" % _c(p), osite, "last_epoch is not set to the stopping epoch")
                else:
                    seen_nostop = True
                    ck.check(not stops, "C18.R2", inst + ":no stop above tolerance [%s]" % _c(p), osite, "the stop flag is written although the deviation is not below the tolerance")
            ck.check(seen_stop and seen_nostop, "C18.R2", inst + ":both decisions reachable", osite, "stop and no-stop outcomes are not both reachable")
    # ------------------------------------------------------------------ R3 constructor
    isite = es.find_method("__init__").site()
    for evk, crit, exc in (("metric", "variance", "TypeError"), ("metric", " Variance", "TypeError"), ("metric", "bogus", "ValueError"), ("observable", "bogus", "ValueError")):
        inst = "refuses %s/%r" % (evk, crit)
        with ck.guard("C18.R3", inst, isite):
            paths = paths_of(prog, lambda it: make_es(it, prog, evk, crit)[0], stubs=STUBS)
            # a constructor that came back with a criterion the analyser did not follow (a table it cannot read, looked up without an
            # exception it could see): whether the name was accepted is not known
            blind = [p for p in paths if p.outcome == "return" and isinstance(p.value, VObj) and isinstance(p.value.inst.attrs.get("deviation"), VUnknown)]
            if blind:
                ck.undecided("C18.R3", inst, isite, "the criterion table is not followed: %r" % (blind[0].value.inst.attrs.get("deviation"),))
                continue
            ck.check(all(p.outcome == "raise" and p.value.exc_name == exc for p in paths), "C18.R3", inst, isite,
                     "constructing EarlyStopping(%s evaluator, criterion=%r) does not raise %s (%s)" % (evk, crit, exc, [str(p.value)[:60] for p in paths]))
    with ck.guard("C18.R3", "refuses non-evaluator"):
        def thn(it):
            return it.instantiate(es, [], {"period": period(), "tolerance": VConst(0.1), "patience": VConst(2), "evaluator_callback": make_cb(it, prog, "Logger"), "quantity_name": VConst("x")}, None)

        paths = paths_of(prog, thn)
        ck.check(all(p.outcome == "raise" and p.value.exc_name == "TypeError" for p in paths), "C18.R3", "refuses non-evaluator", isite, "a callback that is not an evaluator is accepted")
    for crit, meth in (("relative", "_relative_change"), ("absolute", "_absolute_change"), ("variance", "_variance_scaled_abs_change")):
        with ck.guard("C18.R3", "table/" + crit):
            for p in returning(paths_of(prog, lambda it: make_es(it, prog, "observable", crit)[0], stubs=STUBS), crit):
                d = p.value.inst.attrs.get("deviation")
                ck.check((isinstance(d, VFunc) and d.func is not None and d.func.name == meth) if not isinstance(d, VUnknown) else None, "C18.R3", "table/" + crit, isite, "criterion %r is mapped to %s" % (crit, getattr(getattr(d, "func", None), "name", d)))
    with ck.guard("C18.R3", "VarianceBasedEarlyStopping"):
        for p in returning(paths_of(prog, lambda it: make_es(it, prog, "observable", None, cls="VarianceBasedEarlyStopping")[0], stubs=STUBS), "vbes"):
            o = p.value
            cr = o.inst.attrs.get("criterion")
            ck.check(isinstance(cr, VConst) and cr.value == "variance", "C18.R3", "VarianceBasedEarlyStopping -> variance", prog.cls("VarianceBasedEarlyStopping").find_method("__init__").site(),
                     "the deprecated class does not select the variance criterion")
            ck.check(prog.cls("VarianceBasedEarlyStopping").find_method("on_epoch_end") is es.methods["on_epoch_end"], "C18.R3", "VarianceBasedEarlyStopping inherits on_epoch_end", isite, "the deprecated class overrides on_epoch_end")
            paths = paths_of(prog, lambda it: make_es(it, prog, "metric", None, cls="VarianceBasedEarlyStopping")[0], stubs=STUBS)
            ck.check(all(p.outcome == "raise" and p.value.exc_name == "TypeError" for p in paths), "C18.R3", "VarianceBasedEarlyStopping refuses MetricEvaluator", isite, "variance criterion accepted for plain metrics")
    ck.require_min("C18.R1", 14)
    ck.require_min("C18.R2", 30)
    ck.require_min("C18.R3", 10)
    ck.assumptions += [
        "evaluators record one entry per evaluation (C17.R2), so index -1 is the current evaluation and -p-1 the one p evaluations earlier",
        "the monitored values themselves (metric functions) are opaque",
    ]


def _c(p):
    return ",".join("%s=%s" % (c[1][:28], c[2]) for c in p.conds[-3:])


def _is_cmp(t):
    at = t.single_atom()
    return at is not None and isinstance(at, T.App) and at.op.startswith("cmp_")


def _second_run(ck, prog, osite, p_):
    """The stopper and its evaluator are reused for a second run (clear_history(), then new evaluations): at a checked epoch of
    the second run with more than p evaluations recorded, the criterion is evaluated on the *current* history again."""
    for evk, crit in (("metric", "relative"), ("observable", "variance")):
        inst = "%s/%s, second run after clear_history()" % (evk, crit)
        with ck.guard("C18.R1", inst, osite):
            def th(it, evk=evk, crit=crit):
                cb, ev = make_es(it, prog, evk, crit)
                st = make_state(it, "PositiveWaveFunction")
                call(it, cb, "on_epoch_end", st, epoch())
                # the evaluator starts over: clear_history(), then a new run records other values (another list, another length)
                call(it, ev, "clear_history")
                ev.inst.attrs["past_values"] = it.new_list(None)
                n0, c0 = len(it.calls), len(it.conds)
                it._c18_opaque0 = len(getattr(it, "opaque_log", []))
                call(it, cb, "on_epoch_end", st, VNum("int", T.sym("epoch2"), nonneg=True))
                return n0, c0

            for p in [q for q in paths_of(prog, th, max_paths=160, sticky="term", stubs=STUBS) if q.outcome == "return"]:
                n0, c0 = p.value
                gv2 = [c for c in p.calls[n0:] if c[0].endswith(".get_value")]
                conds2 = p.conds[c0:]
                g2 = []
                for c in conds2:
                    t = getattr(c[3] if len(c) > 3 else None, "term", None)
                    if t is not None and t == T.app("cmp_Eq", T.app("mod", T.sym("epoch2"), T.sym("period")), T.ZERO):
                        g2.append(c[2])
                    elif t is not None and t == T.app("cmp_NotEq", T.app("mod", T.sym("epoch2"), T.sym("period")), T.ZERO):
                        g2.append(not c[2])
                lens2 = set()
                for c in conds2:
                    t = getattr(c[3] if len(c) > 3 else None, "term", None)
                    if t is not None:
                        lens2 |= {s_ for s_ in t.syms() if s_.startswith("len(")}
                enough = any(ints.positive_on_path(T.sym(s_) - p_, {}, conds2) is True for s_ in lens2)
                # the length of the history the evaluator holds *now* (the list installed after clear_history())
                cur_len = {s_ for s_ in lens2 if s_ != "len(VList)"}
                vs_patience = [c for c in conds2 if getattr(c[3] if len(c) > 3 else None, "term", None) is not None
                               and (c[3].term.syms() & cur_len) and "p" in c[3].term.syms()]
                if g2 and g2[0] is True and not gv2 and cur_len and not vs_patience:
                    # the call decided without ever comparing the current history's length with the patience and without reading a
                    # value: for the histories with more than p evaluations that this path admits, nothing was evaluated
                    enough = True
                # (a callable the analyser did not follow ran in this call: what it read is not known)
                unfollowed = len(getattr(p.interp, "opaque_log", [])) > getattr(p.interp, "_c18_opaque0", 0)
                if g2 and g2[0] is True and enough:
                    ck.check(bool(gv2) or (None if unfollowed else False), "C18.R1", inst + ":the criterion is evaluated on the current history [%s]" % _c(p), osite,
                             "in the second run, on a multiple of the period with more than p evaluations recorded, on_epoch_end decides without reading the evaluator's current values "
                             "(a deviation kept from the first run decides): path conditions %s" % ", ".join("%s=%s" % (c[1][:40], c[2]) for c in conds2)[:240],
                             key="C18.R1|EarlyStopping|stale deviation")


def _len_syms(p):
    out = set()
    for c in p.conds:
        v = c[3] if len(c) > 3 else None
        t = getattr(v, "term", None)
        if t is not None:
            for s in t.syms():
                if s.startswith("len("):
                    out.add(s)
    return out


def _same_atoms(a, b):
    return {x for x in a.all_atoms() if isinstance(x, T.Sym)} == {x for x in b.all_atoms() if isinstance(x, T.Sym)}
