"""C05 – block Gibbs sampling: exact conditionals, step structure, overwrite semantics, start state."""
from .. import terms as T
from .common import *  # noqa: F401,F403

RBMS = ("BinaryRBM", "PurificationRBM")


def _rbm(ck, cls, fn, max_paths=16):
    def th(it):
        m = make_rbm(it, cls, "rbm_am")
        del it.effects[:]
        return fn(it, m)

    paths = paths_of(ck.program, th, max_paths=max_paths)
    ck.note_functions(functions_in_paths(paths))
    return paths


def cond_refs(R, x):
    """Reference conditional probabilities from role terms."""
    out = {
        "prob_h_given_v": ("v", T.sigmoid(aff(x("v"), R["W"], R["c"]))),
    }
    if "U" in R:
        out["prob_a_given_v"] = ("v", T.sigmoid(aff(x("v"), R["U"], R["d"])))
        out["prob_v_given_ha"] = ("ha", T.sigmoid(T.app("matmul", x("h"), R["W"]) + T.app("matmul", x("a"), R["U"]) + R["b"]))
    else:
        out["prob_v_given_h"] = ("h", T.sigmoid(T.app("matmul", x("h"), R["W"]) + R["b"]))
    return out


def run(ck):
    prog = ck.program
    for cls in RBMS:
        has_aux = cls == "PurificationRBM"
        dims = {"v": "nv", "h": "nh", "a": "na"}
        # ------------------------------------------------------------ R1 conditionals
        for form, lead in (("batched", ("B",)), ("vector", ())):
            with ck.guard("C05.R1", "%s/%s" % (cls, form)):
                def fn(it, m):
                    R = role_terms(it, m)
                    res = {}
                    for name, (argk, _) in cond_refs(R, T.sym).items():
                        args = [tens(it, k, lead + (dims[k],)) for k in argk]
                        res[name] = call(it, m, name, *args)
                        sname = name.replace("prob_", "sample_")
                        args2 = [tens(it, k, lead + (dims[k],)) for k in argk]
                        res[sname] = call(it, m, sname, *args2)
                    res["E"] = call(it, m, "effective_energy", tens(it, "v", lead + ("nv",)))
                    res["shapes"] = role_shapes(it, m, {"v": lead + ("nv",)})
                    return R, res

                paths = _rbm(ck, cls, fn)
                for p in returning(paths, cls):
                    if not shape_err_verdict(ck, "C05.R1", "%s/%s" % (cls, form), paths):
                        continue
                    R, res = p.value
                    _mx = batch_reductions(p, ("B",))
                    ck.check(not _mx, "C05.R1", "%s/%s:each row's conditional depends on that row only" % (cls, form), _mx[0][0] if _mx else prog.method(cls, "effective_energy").site(),
                             "%s over the axes %s, which include the batch axis: rows of a batch are mixed" % ((_mx[0][1], _mx[0][2]) if _mx else ("", "")))
                    refs = cond_refs(R, T.sym)
                    for name, (argk, ref) in refs.items():
                        site = prog.method(cls, name).site()
                        got = res[name].term
                        want = ref
                        if form == "vector":
                            # batch of one, squeezed (auto_unsqueeze_args on every listed argument)
                            ren = {k: T.app("unsq", T.sym(k), -2, 2) for k in argk}
                            want = T.app("sq", T.rename_syms(ref, ren), -2)
                        inst = "%s.%s/%s" % (cls, name, form)
                        if got == want:
                            ck.ok("C05.R1", inst, site, prob=got)
                        else:
                            _report_cond(ck, inst, site, got, want)
                        out_dim = {"prob_h_given_v": "nh", "prob_a_given_v": "na"}.get(name, "nv")
                        ck.check(shape_is(res[name], lead + (out_dim,)), "C05.R1", inst + ":shape", site,
                                 "conditional has shape %s, expected %s" % (res[name].shape, lead + (out_dim,)))
                        sname = name.replace("prob_", "sample_")
                        sv = res[sname]
                        ssite = prog.method(cls, sname).site()
                        ok = sv.term == T.app("bern", got) if got is not None and sv.term is not None else None
                        ck.check(ok, "C05.R1", "%s.%s/%s" % (cls, sname, form), ssite,
                                 "sampler is not a Bernoulli draw from %s: %r" % (name, sv.term))
                        ck.check(sv.obj.valkind == "bern", "C05.R1", "%s.%s/%s:0/1" % (cls, sname, form), ssite, "sampler output is not produced by torch.bernoulli")
                    # pre-activations of the conditionals are those inside the energy's softplus terms
                    if form == "batched":
                        # (a latent layer written as one concatenated matrix product is pushed apart into its layers first)
                        pre_E = {a.args[0] for a in distribute_cat(res["E"].term, res["shapes"]).all_atoms() if isinstance(a, T.App) and a.op == "softplus"}
                        pre_C = set()
                        for name in ("prob_h_given_v", "prob_a_given_v"):
                            if name in res:
                                at = res[name].term.single_atom()
                                if at is not None and at.op == "sigmoid":
                                    pre_C.add(at.args[0])
                        same = (pre_E == pre_C) if (pre_E and pre_C) else None  # an energy not written with softplus is not judged here (C01.R4 / C02.R5 do)
                        ck.check(same, "C05.R1", cls + ":energy<->conditionals", prog.method(cls, "effective_energy").site(),
                                 "softplus arguments of the effective energy %s differ from the hidden-layer pre-activations of the Gibbs conditionals %s" % (sorted(map(repr, pre_E)), sorted(map(repr, pre_C))))
        # ------------------------------------------------------------ R2 step structure, R3 overwrite
        gsite = prog.method(cls, "gibbs_steps").site()
        for ow in (False, True):
            inst = "%s.gibbs_steps/overwrite=%s" % (cls, ow)
            with ck.guard("C05.R2", inst, gsite):
                def fn(it, m):
                    R = role_terms(it, m)
                    R["_shapes"] = role_shapes(it, m)
                    v0 = tens(it, "init", ("B", "nv"))
                    k = VNum("int", T.sym("k"), nonneg=True)
                    r = call(it, m, "gibbs_steps", k, v0, overwrite=VConst(ow))
                    return R, v0, r

                paths = _rbm(ck, cls, fn)
                for p in returning(paths, inst):
                    shape_err_verdict(ck, "C05.R2", inst, paths)
                    R, v0, r = p.value
                    loops = [l for l in p.interp.loops if "gibbs_steps" in l["site"]]
                    if not loops and isinstance(r, VTens) and r.term == T.sym("init"):
                        # a path that takes no step at all and hands back the start state: right exactly when k is 0
                        from .. import ints

                        kc_ = [c for c in p.conds if getattr(c[3] if len(c) > 3 else None, "term", None) is not None and "k" in c[3].term.syms()]
                        zero = ints.positive_on_path(1 - T.sym("k"), {}, kc_)
                        ck.check(True if zero is True else None, "C05.R2", inst + ":no step exactly when k is 0 [%s]" % path_tag(p), gsite,
                                 "a path without any Gibbs step returns the start state, but the path does not establish k <= 0")
                        writes_init = [e for e in p.effects if "param:init" in e.origins and e.kind in ("write", "meta")]
                        if ow:
                            ck.check(r.obj is v0.obj, "C05.R3", inst + ":returns initial_state", gsite, "with overwrite=True the returned chain is not the caller's tensor")
                        else:
                            ck.check(not writes_init, "C05.R3", inst + ":untouched", writes_init[0].site if writes_init else gsite,
                                     "the caller's start state is written although overwrite=False (%s)" % (writes_init[0].detail if writes_init else ""))
                            ck.check(r.obj.origin == "fresh", "C05.R3", inst + ":fresh result", gsite, "with overwrite=False the result shares storage with %s" % r.obj.origin)
                        continue
                    if len(loops) != 1 or loops[0]["generic"] is None:
                        ck.undecided("C05.R2", inst, gsite, "expected exactly one summarised loop in gibbs_steps, found %d" % len(loops))
                        continue
                    lp = loops[0]
                    # iteration count: exactly k
                    cnt = T._show(_loop_count(lp))
                    itv = lp["iter"]
                    from ..interp import _count_term

                    ct_ = _count_term(itv)
                    robj = r.obj
                    # steps taken before the loop (a first step peeled off it): the value the loop's first iteration leaves in the
                    # chain is then the (1 + peeled)-fold step of the start state
                    peeled = 0
                    if robj in lp["generic"]["terms"] and lp["first"]["terms"].get(robj) is not None:
                        def _step(x):
                            hp_ = T.app("bern", T.sigmoid(aff(x, R["W"], R["c"])))
                            pre_ = T.app("matmul", hp_, R["W"]) + R["b"]
                            if has_aux:
                                pre_ = pre_ + T.app("matmul", T.app("bern", T.sigmoid(aff(x, R["U"], R["d"]))), R["U"])
                            return T.app("bern", T.sigmoid(pre_))

                        f_ = lp["first"]["terms"][robj]
                        cand, x_ = [], _step(T.sym("init"))
                        for n_ in range(3):
                            cand.append(x_)
                            x_ = _step(x_)
                        hit = [n_ for n_, c_ in enumerate(cand) if c_ == f_ or c_ == distribute_cat(f_, R["_shapes"])]
                        peeled = hit[0] if hit else 0
                    okc = (ct_ == ("range", T.ZERO, T.sym("k") - peeled, T.ONE)) if ct_[0] == "range" else None  # a trip count the analyser cannot tell is undecided
                    ck.check(okc, "C05.R2", inst + ":k iterations", lp["site"], "the Gibbs loop does not run exactly k times: %s%s" % (ct_[1:] if ct_[0] == "range" else cnt, " after %d step(s) taken before it" % peeled if peeled else ""))
                    # returned object is the loop-carried visible buffer
                    in_buf = robj in lp["generic"]["terms"]
                    # (a chain carried by rebinding a name to each step's fresh result, not by a buffer: what is returned is still a
                    # value the loop advanced - its step structure is then not read off a buffer, so it is not judged here)
                    advanced = isinstance(r, VTens) and r.term is not None and any(isinstance(a_, T.App) and a_.op == "loop" for a_ in r.term.all_atoms())
                    ck.check(True if in_buf else (None if advanced else False), "C05.R2", inst + ":returns chain", gsite, "the returned tensor is not the buffer updated by the loop")
                    if robj in lp["generic"]["terms"]:
                        carry = T.sym(lp["carried"][robj])
                        hp = T.app("bern", T.sigmoid(aff(carry, R["W"], R["c"])))
                        pre = T.app("matmul", hp, R["W"]) + R["b"]
                        if has_aux:
                            ap = T.app("bern", T.sigmoid(aff(carry, R["U"], R["d"])))
                            pre = pre + T.app("matmul", ap, R["U"])
                        want = T.app("bern", T.sigmoid(pre))
                        got = lp["generic"]["terms"][robj]
                        if got != want:
                            # (hidden and auxiliary layer drawn together from one stacked layer: pushed apart into the two layers)
                            got = distribute_cat(got, R["_shapes"])
                        sv_ = stacked_layer_verdict(lp["generic"]["terms"][robj], want, R["_shapes"]) if got != want else None
                        if got == want:
                            ck.ok("C05.R2", inst + ":step", lp["site"], step=got)
                        elif sv_ is not None and sv_[0] == "pairing":
                            ck.violation("C05.R2", inst + ":step", lp["site"], "in the stacked hidden + auxiliary layer (instance num_aux == num_hidden) %s: every unit of a layer is drawn with the other layer's bias" % sv_[1],
                                         key="C05.R2|gibbs_steps|stacked layer misaligned")
                        else:
                            _report_step(ck, inst + ":step", lp["site"], got, want, lp, robj)
                        first = lp["first"]["terms"].get(robj)
                        want1 = T.rename_syms(want, {lp["carried"][robj]: "init"})
                        for _n in range(peeled):
                            want1 = T.rename_syms(want, {lp["carried"][robj]: "init"}) if False else _step(want1)
                        if first is not None and first != want1:
                            first = distribute_cat(first, R["_shapes"])
                        _dims = {"nh", "na", "nv", "B"}
                        ok1 = (first == want1) if first is not None else None
                        if ok1 is False and (first.syms() - _dims) == (want1.syms() - _dims):
                            ok1 = None  # the same values enter, written another way: not decided by comparing normal forms
                        ck.check(ok1, "C05.R2", inst + ":first step from initial_state", lp["site"],
                                 "the first step does not start from the given initial state")
                    # ---- R3 overwrite
                    writes_init = [e for e in p.effects if "param:init" in e.origins and e.kind in ("write", "meta")]
                    if ow:
                        ck.check(r.obj is v0.obj, "C05.R3", inst + ":returns initial_state", gsite, "with overwrite=True the returned chain is not the caller's tensor")
                        ck.check(bool(writes_init), "C05.R3", inst + ":updated in place", gsite, "with overwrite=True the caller's tensor is never written")
                    else:
                        ck.check(not writes_init, "C05.R3", inst + ":untouched", writes_init[0].site if writes_init else gsite,
                                 "the caller's start state is written although overwrite=False (%s)" % (writes_init[0].detail if writes_init else ""))
                        ck.check(r.obj.origin == "fresh", "C05.R3", inst + ":fresh result", gsite, "with overwrite=False the result shares storage with %s" % r.obj.origin)
            # constant k: 0 and 2
            with ck.guard("C05.R2", inst + "/k const", gsite):
                def fn2(it, m):
                    R = role_terms(it, m)
                    R["_shapes"] = role_shapes(it, m)
                    r0 = call(it, m, "gibbs_steps", VConst(0), tens(it, "init", ("B", "nv")), overwrite=VConst(ow))
                    r2 = call(it, m, "gibbs_steps", VConst(2), tens(it, "init", ("B", "nv")), overwrite=VConst(ow))
                    return R, r0, r2

                for p in returning(_rbm(ck, cls, fn2), inst):
                    R, r0, r2 = p.value
                    ck.check(r0.term == T.sym("init"), "C05.R2", inst + ":k=0 returns start", gsite, "k=0 does not return the start state unchanged: %r" % (r0.term,))

                    def step(x):
                        hp = T.app("bern", T.sigmoid(aff(x, R["W"], R["c"])))
                        pre = T.app("matmul", hp, R["W"]) + R["b"]
                        if has_aux:
                            pre = pre + T.app("matmul", T.app("bern", T.sigmoid(aff(x, R["U"], R["d"]))), R["U"])
                        return T.app("bern", T.sigmoid(pre))

                    w2 = step(step(T.sym("init")))
                    g2 = r2.term
                    if g2 is not None and g2 != w2:
                        g2 = distribute_cat(g2, R["_shapes"])
                    _dims = {"nh", "na", "nv", "B"}
                    ok2 = (g2 == w2) if g2 is not None else None
                    if ok2 is False and (g2.syms() - _dims) == (w2.syms() - _dims) and distribute_cat(r2.term, R["_shapes"]) != r2.term:
                        ok2 = None  # a stacked-layer spelling the normaliser could not push apart completely
                    ck.check(ok2, "C05.R2", inst + ":k=2 is two steps", gsite, "k=2 is not the two-fold composition of the block-Gibbs step")
    # ---------------------------------------------------------------- sample(): forwarding, start state
    for scls in ("PositiveWaveFunction", "ComplexWaveFunction", "DensityMatrix"):
        ssite = prog.method(scls, "sample").site()
        for ow, form in ((False, ("B", "nv")), (True, ("B", "nv")), (False, ("nv",)), (True, ("nv",)), (True, ("B", "nv", "float32"))):
            f32 = form[-1] == "float32"  # "every start state": 0/1 configurations kept in single precision (or as integers)
            form = form[:-1] if f32 else form
            inst = "%s.sample/overwrite=%s%s%s" % (scls, ow, "" if len(form) == 2 else "/1-D start state", "/float32 start state" if f32 else "")
            with ck.guard("C05.R3", inst, ssite):
                def th(it, f32=f32, form=form):
                    s = make_state(it, scls)
                    v0 = tens(it, "init", form)
                    if f32:
                        v0.obj.fw = 32
                    k = VNum("int", T.sym("k"), nonneg=True)
                    r = call(it, s, "sample", k, initial_state=v0, overwrite=VConst(ow))
                    return v0, r, k

                paths = paths_of(prog, th)
                ck.note_functions(functions_in_paths(paths))
                for p in returning(paths, inst):
                    v0, r, k = p.value
                    gcalls = [c for c in p.calls if c[0].endswith(".gibbs_steps")]
                    ck.check(len(gcalls) == 1, "C05.R2", inst + ":delegates", ssite, "sample() does not call rbm_am.gibbs_steps exactly once")
                    if len(gcalls) == 1:
                        env = gcalls[0][5]
                        ck.check(num_term(env.get("k")) == T.sym("k"), "C05.R2", inst + ":k forwarded", ssite, "k is not forwarded unchanged to gibbs_steps")
                        ist = env.get("initial_state")
                        # the chains start from the caller's state: that tensor itself, or (when it must be preserved) a copy of it
                        same_vals = isinstance(ist, VTens) and (ist.obj is v0.obj or (not ow and len(gcalls[0]) > 7 and gcalls[0][7].get("initial_state") == T.sym("init")))
                        ck.check(same_vals, "C05.R2", inst + ":initial_state forwarded", ssite, "initial_state is not forwarded to gibbs_steps")
                        okw, w = const_of(env.get("overwrite"))
                        if okw and w is ow:  # evidence only: what decides is the effect on the caller's tensor (below), however the flag travels
                            ck.ok("C05.R3", inst + ":overwrite forwarded", ssite)
                        rb = it_cls_of(gcalls[0][1][0])
                        ck.check(rb is not None, "C05.R2", inst + ":uses rbm_am", ssite, "gibbs_steps receiver is not the amplitude network")
                    writes_init = [e for e in p.effects if "param:init" in e.origins and e.kind in ("write", "meta")]
                    if ow:
                        # updated in place; what is returned is the caller's tensor itself or - for a start state of another dtype - the
                        # same new state in the model's dtype
                        same_val = r.obj is v0.obj or (f32 and r.term is not None and r.term == v0.obj.term)
                        from .. import ints as _ints

                        kc_ = [c for c in p.conds if getattr(c[3] if len(c) > 3 else None, "term", None) is not None and "k" in c[3].term.syms()]
                        if not writes_init and _ints.positive_on_path(1 - T.sym("k"), {}, kc_) is True:
                            # a path on which k is 0: no step, nothing to update - the start state itself comes back
                            ck.check(bool(same_val) and r.term == T.sym("init"), "C05.R3", inst + ":in place [k = 0]", ssite, "with k = 0 and overwrite=True the start state is not handed back unchanged")
                            continue
                        ck.check(bool(same_val) and bool(writes_init), "C05.R3", inst + ":in place", ssite,
                                 "overwrite=True does not update the caller's tensor in place" if not writes_init else "overwrite=True does not return the updated state")
                    else:
                        ck.check(not writes_init and r.obj.origin == "fresh", "C05.R3", inst + ":untouched", writes_init[0].site if writes_init else ssite,
                                 "overwrite=False writes or returns the caller's tensor")
        inst = "%s.sample/no initial_state" % scls
        with ck.guard("C05.R4", inst, ssite):
            def th2(it):
                s = make_state(it, scls)
                ns = VNum("int", T.sym("num_samples"), pos=True)
                ns.dim = "num_samples"
                r = call(it, s, "sample", VConst(0), num_samples=ns)
                return r

            for p in returning(paths_of(prog, th2), inst):
                r = p.value
                ck.check(shape_is(r, ("num_samples", "nv")), "C05.R4", inst + ":shape", ssite, "start state has shape %s, expected (num_samples, num_visible)" % (r.shape,))
                at = r.term.single_atom() if r.term is not None else None
                ok = at is not None and isinstance(at, T.App) and at.op == "bern" and at.args[0] == T.const(T.Fraction(1, 2))
                ck.check(ok, "C05.R4", inst + ":uniform bits", ssite, "default start state is not a Bernoulli(0.5) draw: %r" % (r.term,))
    # ------------------------------------------------------------------ R5 history independence (two-call protocol)
    from .history import check_history, havoc_module

    for cls in ("BinaryRBM", "PurificationRBM"):
        def mkr(it, cls=cls):
            return (make_rbm(it, cls, "rbm_am"), tens(it, "init", ("B", "nv")))

        check_history(ck, "C05.R5", "%s.gibbs_steps/overwrite=False" % cls, prog.method(cls, "gibbs_steps").site(), mkr,
                      lambda it, c: call(it, c[0], "gibbs_steps", VConst(2), c[1], overwrite=VConst(False)), havoc=lambda it, m: havoc_module(it, m, "rbm_am"))
    for scls in ("PositiveWaveFunction", "ComplexWaveFunction", "DensityMatrix"):
        def mks(it, scls=scls):
            return (make_state(it, scls), tens(it, "init", ("B", "nv")))

        check_history(ck, "C05.R5", "%s.sample/overwrite=False" % scls, prog.method(scls, "sample").site(), mks,
                      lambda it, c: call(it, c[0], "sample", VConst(2), initial_state=c[1], overwrite=VConst(False)))
    # ------------------------------------------------------------------ R1/R3 a batch of exactly one row keeps its batch axis
    # ("samples are arrays of the requested shape": one chain is a (1, n) array; only a 1-D argument is a single vector)
    for cls in ("BinaryRBM", "PurificationRBM"):
        with ck.guard("C05.R1", cls + "/batch of one"):
            def fn1(it, m, cls=cls):
                R = role_terms(it, m)
                out = {}
                dims_ = {"v": "nv", "h": "nh", "a": "na"}
                for name, (argk, _) in cond_refs(R, T.sym).items():
                    for nm_ in (name, name.replace("prob_", "sample_")):
                        args = [tens(it, k, (1, dims_[k])) for k in argk]
                        out[nm_] = call(it, m, nm_, *args)
                v0 = tens(it, "v0", (1, "nv"))
                out["gibbs_steps"] = call(it, m, "gibbs_steps", VConst(2), v0, overwrite=VConst(True))
                out["start"] = v0
                return out

            for p in returning(_rbm(ck, cls, fn1), cls + "/batch of one"):
                res = p.value
                for nm_, r_ in res.items():
                    if nm_ == "start":
                        continue
                    od_ = {"prob_h_given_v": "nh", "prob_a_given_v": "na", "sample_h_given_v": "nh", "sample_a_given_v": "na"}.get(nm_, "nv")
                    ck.check(shape_is(r_, (1, od_)), "C05.R1", "%s.%s/batch of one: result keeps the batch axis" % (cls, nm_), prog.method(cls, nm_).site(),
                             "for a batch of exactly one row (shape (1, n)) the result has shape %s: the batch axis is dropped although the argument was not a single vector" % (getattr(r_, "shape", None),),
                             key="C05.R1|%s.%s|batch of one squeezed" % (cls, nm_))
                st_ = res["start"]
                ck.check(shape_is(st_, (1, "nv")), "C05.R3", "%s.gibbs_steps/batch of one: the caller's start state keeps its shape" % cls, prog.method(cls, "gibbs_steps").site(),
                         "after gibbs_steps(..., overwrite=True) the caller's (1, n) start state has shape %s" % (getattr(st_, "shape", None),), key="C05.R3|%s|start state reshaped" % cls)
    ck.require_min("C05.R5", 10)
    ck.require_min("C05.R1", 30)
    ck.require_min("C05.R2", 30)
    ck.require_min("C05.R3", 20)
    ck.require_min("C05.R4", 6)
    ck.assumptions += [
        "torch.bernoulli(p) draws independent bits with success probability p from torch's default generator",
        "detailed balance follows mathematically from exact conditionals + hidden-then-visible order; the empirical law is not measured",
        "Tensor.to(...) may return the same storage (documented device exception of overwrite)",
    ]


def it_cls_of(v):
    if isinstance(v, VObj) and v.inst.origin == "attr:rbm_am":
        return v.inst.cls
    return None


def _loop_count(lp):
    itv = lp["iter"]
    return (repr(num_term(getattr(itv, "start", None)) if hasattr(itv, "start") else itv),
            repr(num_term(getattr(itv, "stop", None))) if hasattr(itv, "stop") else "?")


def _report_cond(ck, inst, site, got, want):
    if got is None:
        ck.undecided("C05.R1", inst, site, "no term")
        return
    ag, aw = got.single_atom(), want.single_atom()
    if ag is not None and aw is not None and isinstance(ag, T.App) and isinstance(aw, T.App) and ag.op == aw.op == "sigmoid":
        d = lin_diff(ag.args[0], aw.args[0])
        ck.check(diff_verdict(d), "C05.R1", inst, site, "pre-activation of the conditional: " + diff_msg(d), got=got, want=want)
        return
    if ag is not None and aw is not None and isinstance(ag, T.App) and isinstance(aw, T.App) and ag.op == "sq" and aw.op == "sq":
        _report_cond(ck, inst, site, ag.args[0], aw.args[0])
        return
    if got.syms() != want.syms():
        ck.violation("C05.R1", inst, site, "conditional depends on %s, expected %s" % (sorted(got.syms()), sorted(want.syms())))
        return
    if ag is None or not isinstance(ag, T.App) or ag.op != "sigmoid":
        ck.violation("C05.R1", inst, site, "conditional is not a logistic sigmoid of the pre-activation: %r" % (got,)) if (ag is not None and isinstance(ag, T.App) and ag.op in ("softplus", "tanh", "exp", "clamp")) else ck.undecided("C05.R1", inst, site, "unrecognised conditional %r" % (got,))
        return
    ck.undecided("C05.R1", inst, site, "conditional differs structurally: %r vs %r" % (got, want))


def _cond_diag(got, want):
    return (None,)


def _report_step(ck, inst, site, got, want, lp, robj):
    carried = set(lp["carried"].values())
    _dims = {"nh", "na", "nv", "B"}
    if (got.syms() - _dims) == (want.syms() - _dims) and got.syms() != want.syms():
        # the same values enter; what differs is a size symbol (a slice bound, a reshape): not a dependency
        ck.undecided("C05.R2", inst, site, "step differs structurally: %r vs %r" % (got, want))
        return
    stale = [s for s in got.syms() if s in carried and s != lp["carried"][robj]]
    if stale:
        ck.violation("C05.R2", inst, site, "the visible update reads a hidden/auxiliary buffer left over from the previous iteration (%s): "
                     "it is not resampled from the current visible state before use" % ", ".join(stale))
        return
    if got.syms() != want.syms():
        ck.violation("C05.R2", inst, site, "one Gibbs step depends on %s, expected %s" % (sorted(got.syms()), sorted(want.syms())))
        return
    ag = got.single_atom()
    if ag is None or not isinstance(ag, T.App) or ag.op != "bern":
        ck.violation("C05.R2", inst, site, "the new visible state is not a Bernoulli sample: %r" % (got,))
        return
    ck.undecided("C05.R2", inst, site, "step differs structurally: %r vs %r" % (got, want))
