"""C08 – observable estimators: no mutation of the batch, real (B,) results, local-estimator
structure of X / Y / Z / ZZ, importance-weight ratio."""
from .. import terms as T
from .common import *  # noqa: F401,F403
from . import api

STATES = api.STATES
CPLX = "qucumber.utils.cplx"


def _apply_paths(ck, cls, oname, sticky=True):
    prog = ck.program

    def th(it):
        s = make_state(it, cls)
        o = api.observable_instances(it, prog)[oname]
        smp = tens(it, "samples", ("B", "nv"))
        r = call(it, o, "apply", s, smp)
        return s, o, smp, r

    paths = paths_of(prog, th, max_paths=40, sticky=sticky)
    ck.note_functions(functions_in_paths(paths))
    return paths


def flipped_term(S, i):
    spec = ("ellipsis", i)
    return T.upd(S, spec, T.absval(T.app("index", S, spec) - 1))


def run(ck):
    prog = ck.program
    obs_names = ["SigmaX", "SigmaY", "SigmaZ", "SigmaX/absolute", "SigmaY/absolute", "SigmaZ/absolute",
                 "NeighbourInteraction/open", "NeighbourInteraction/periodic"]
    for cls in STATES:
        for oname in obs_names:
            ocls = oname.split("/")[0]
            inst = "%s/%s" % (oname, cls)
            asite = prog.method(ocls, "apply").site()
            with ck.guard("C08.R1", inst, asite):
                paths = _apply_paths(ck, cls, oname)
                if not shape_err_verdict(ck, "C08.R2", inst, paths):
                    continue
                base_inst = inst
                for p in returning(paths, inst):
                    inst = base_inst + ("[%s]" % path_tag(p) if len(paths) > 1 else "")
                    s, o, smp, r = p.value
                    _mx = batch_reductions(p, ("B",))
                    ck.check(not _mx, "C08.R2", inst + ":each sample's value depends on that sample only", _mx[0][0] if _mx else asite,
                             "%s over the axes %s, which include the batch axis: the per-sample values of a batch are mixed" % ((_mx[0][1], _mx[0][2]) if _mx else ("", "")))
                    # ---------------- R1: the batch is not written
                    wr = [e for e in p.effects if "param:samples" in e.origins and e.kind in ("write", "meta")]
                    ck.check(not wr, "C08.R1", inst + ":samples untouched", wr[0].site if wr else asite,
                             "apply writes the caller's sample batch (%s via %s)" % (wr[0].detail if wr else "", " > ".join(wr[0].stack[-2:]) if wr else ""))
                    unk = api.unknown_effects(p, ("param:samples",))
                    if unk:
                        ck.undecided("C08.R1", inst + ":opaque", unk[0][0].site, "the batch is handed to an opaque call %s" % (unk[0][0].detail[1],))
                    pe = api.param_effects(p, include_grad=True)
                    ck.check(not pe, "C08.R1", inst + ":model untouched", pe[0].site if pe else asite, "apply changes model parameters")
                    # ---------------- R2: real, one value per sample
                    ck.check(shape_is(r, ("B",)), "C08.R2", inst + ":shape", asite,
                             "apply returns shape %s; expected one value per sample (B,)" % (getattr(r, "shape", None),))
                    t = r.term if isinstance(r, VTens) else None
                    if t is None:
                        ck.undecided("C08.R2", inst + ":real", asite, "no term for the result")
                        continue
                    ck.check(T.as_stack0(t) is None and "lit:1j" not in t.syms(), "C08.R2", inst + ":real", asite, "the result is a complex pair, not a real number per sample")
                    # ---------------- R3: estimator structure
                    S = T.sym("samples")
                    absolute = oname.endswith("/absolute")
                    if ocls in ("SigmaX", "SigmaY"):
                        _check_flip_estimator(ck, inst, asite, p, cls, ocls, absolute)
                    elif ocls == "SigmaZ":
                        want = 2 * T.app("mean", S, (-1,)) - 1
                        if absolute:
                            want = T.absval(want)
                        d = lin_diff(t, want)
                        ck.check(diff_verdict(d), "C08.R3", inst + ":2*mean-1", asite, "SigmaZ estimator vs 2*mean_sites(sample)-1: " + diff_msg(d), got=t)
                    else:
                        x = 2 * S - 1
                        c = T.sym("c")
                        if oname.endswith("open"):
                            a = T.app("index", x, (("slice", None, None, None), ("slice", None, -c, None)))
                            b = T.app("index", x, (("slice", None, None, None), ("slice", c, None, None)))
                            want = T.app("sum", a * b, (-1,)) * T.inv(T.sym("nv"))
                        else:
                            isym = [n for n in t.syms() if n.startswith("i@")]
                            if len(isym) > 1:
                                ck.undecided("C08.R3", inst + ":pairs", asite, "periodic pairing index list not recognised")
                                continue
                            # (no list of partner sites at all - a rotation of the chain, say - is compared in the gather normal form)
                            perm = ("advcomp", T.app("mod", T.sym(isym[0] if isym else "i") + c, T.sym("nv")), ("range", T.ZERO, T.sym("nv"), T.ONE))
                            b = T.app("index", x, (("slice", None, None, None), perm))
                            want = T.app("sum", x * b, (-1,)) * T.inv(T.sym("nv"))
                        if t != want:
                            # one normal form for "the sites s(i), i in range(n)" however they are selected (a slice, a list of
                            # site numbers built by a comprehension or list(range(..)))
                            t, want = _site_gather_normal(t), _site_gather_normal(want)
                        if t == want:
                            ck.ok("C08.R3", inst + ":pairs (i, i+c)/L", asite, got=t)
                        else:
                            _diag_zz(ck, inst, asite, t, want)
    # ------------------------------------------------------------------ R4 importance weights
    for cls in STATES:
        inst = "importance_sampling_weight/" + cls
        wsite = prog.method(cls, "importance_sampling_weight").site()
        with ck.guard("C08.R4", inst, wsite):
            def th(it):
                s = make_state(it, cls)
                vp, v = tens(it, "vp", ("B", "nv")), tens(it, "v", ("B", "nv"))
                w = call(it, s, "importance_sampling_weight", vp, v)
                num = call(it, s, "importance_sampling_numerator", vp, v)
                den = call(it, s, "importance_sampling_denominator", v)
                ed = it.call_function(VFunc(prog.func(CPLX, "elementwise_division")), [num, den], {}, None)
                den_p0 = call(it, s, "importance_sampling_denominator", vp)
                ed_p0 = it.call_function(VFunc(prog.func(CPLX, "elementwise_division")), [num, den_p0], {}, None)
                if cls == "DensityMatrix":
                    refn = call(it, s, "rho", vp, v, expand=VConst(False))
                    refd = it.call_function(VFunc(prog.func(CPLX, "make_complex")), [call(it, s, "probability", v)], {}, None)
                else:
                    refn = call(it, s, "psi", vp)
                    refd = call(it, s, "psi", v)
                return w, ed, num, den, refn, refd, ed_p0

            for p in returning(paths_of(prog, th, sticky=True), inst):
                shape_err_verdict(ck, "C08.R4", inst, [p])
                w, ed, num, den, refn, refd, ed_p0 = p.value
                # by value: the complex quotient as a pair of rational functions (a division written out, scaled or not, is the same
                # function as cplx.elementwise_division; what cannot be taken apart is not decided)
                same_w = w.term == ed.term
                if not same_w and w.term is not None and ed.term is not None:
                    cw, ce = T.as_stack0(w.term), T.as_stack0(ed.term)
                    same_w = None
                    if cw is not None and ce is not None and len(cw) == len(ce) == 2:
                        same_w = all(x == y or T.ratfun_equal(x, y) for x, y in zip(cw, ce))
                # the hooks' own argument order is the library's internal matter (the estimators that call them are judged by
                # value, C08.R2 / C09.R3): when the numerator is the amplitude of the SECOND argument (the order (v, vp) instead
                # of (vp, v)), the positional statements below do not apply as written
                other_order = False
                if cls != "DensityMatrix" and num.term is not None and refd.term is not None and refn.term is not None and num.term == refd.term and num.term != refn.term:
                    other_order = True
                elif cls == "DensityMatrix" and num.term is not None and refn.term is not None and num.term != refn.term and num.term == T.rename_syms(refn.term, {"v": "vp", "vp": "v"}):
                    other_order = True
                if other_order:
                    # ... consistently: the weight then divides by the amplitude of its FIRST argument
                    cw_, ce_ = (T.as_stack0(w.term), T.as_stack0(ed_p0.term)) if w.term is not None and ed_p0.term is not None else (None, None)
                    other_order = w.term == ed_p0.term or (cw_ is not None and ce_ is not None and len(cw_) == len(ce_) == 2 and all(x_ == y_ or T.ratfun_equal(x_, y_) for x_, y_ in zip(cw_, ce_)))
                if other_order:
                    ck.undecided("C08.R4", inst + ":hook argument order", wsite, "the importance-sampling hooks take (sample, flipped configuration) in the other order than this rule calls them with; "
                                 "whether every estimator passes them that way is the estimator rules' matter")
                    continue
                ck.check(same_w, "C08.R4", inst + ":weight=numerator/denominator", wsite, "weight(vp, v) is not numerator(vp, v) / denominator(v)")
                ck.check(num.term == refn.term, "C08.R4", inst + ":numerator", prog.method(cls, "importance_sampling_numerator").site(),
                         "numerator(vp, v) is not %s" % ("rho(vp, v) (argument order rho(s', s))" if cls == "DensityMatrix" else "psi(vp)"),
                         deps=sorted(num.term.syms() & {"v", "vp"}))
                ck.check(den.term == refd.term, "C08.R4", inst + ":denominator", prog.method(cls, "importance_sampling_denominator").site(),
                         "denominator(v) is not %s" % ("(probability(v), 0)" if cls == "DensityMatrix" else "psi(v)"))
                if cls == "DensityMatrix":
                    # rho(vp, v): the first argument is the flipped configuration (row), the second the sample (column)
                    ex = T.rename_syms(refn.term, {"v": "vp", "vp": "v"})
                    ck.check(ex != refn.term, "C08.R4", inst + ":order matters", wsite, "rho(vp, v) == rho(v, vp) structurally: argument order cannot be checked")
    # to_pm1 / to_01
    U = "qucumber.observables.utils"
    for fname, want in (("to_pm1", lambda x: 2 * x - 1), ("to_01", lambda x: (x + 1) / 2)):
        with ck.guard("C08.R3", fname):
            f = prog.func(U, fname)

            def thu(it):
                x = tens(it, "x", ("B", "nv"))
                return x, it.call_function(VFunc(f), [x], {}, None)

            for p in returning(paths_of(prog, thu), fname):
                x, r = p.value
                d = lin_diff(r.term, want(T.sym("x")))
                ck.check(diff_verdict(d), "C08.R3", fname, f.site(), "%s: %s" % (fname, diff_msg(d)))
                wr = [e for e in p.effects if "param:x" in e.origins]
                # (a conversion that works in place is not itself a fault: whether every estimator hands it a copy is decided where
                # it matters, by the samples-untouched rules of the observables)
                ck.check(True if (not wr and r.obj.origin == "fresh") else None, "C08.R1", fname + ":pure", f.site(), "%s modifies or returns its argument" % fname)
    # ------------------------------------------------------------------ R5 history independence (two-call protocol)
    from .history import check_history

    for cls in STATES:
        for oname in ("SigmaX", "SigmaY", "SigmaZ", "NeighbourInteraction/periodic"):
            def mk(it, cls=cls, oname=oname):
                s = make_state(it, cls)
                return (s, api.observable_instances(it, prog)[oname], tens(it, "samples", ("B", "nv")))

            check_history(ck, "C08.R5", "%s/%s" % (oname, cls), prog.method(oname.split("/")[0], "apply").site(), mk,
                          lambda it, c: call(it, c[1], "apply", c[0], c[2]), max_paths=40)
    # ... and independence of OTHER observables of the same class: an interaction with distance c2 evaluated after one with
    # distance c1 (same chain length) is its own operator - its value depends on its own c, boundary condition and nothing of
    # the first one
    ni_site = prog.method("NeighbourInteraction", "apply").site()
    for per1, per2 in ((False, False), (True, True), (False, True)):
        inst = "NeighbourInteraction(%s, c2) after NeighbourInteraction(%s, c1)" % ("periodic" if per2 else "open", "periodic" if per1 else "open")
        with ck.guard("C08.R5", inst, ni_site):
            def th2(it, per1=per1, per2=per2):
                cls_ = prog.cls("NeighbourInteraction")
                st_ = make_state(it, "PositiveWaveFunction")
                o1 = it.instantiate(cls_, [], {"periodic_bcs": VConst(per1), "c": VNum("int", T.sym("c1"), pos=True)}, None)
                o2 = it.instantiate(cls_, [], {"periodic_bcs": VConst(per2), "c": VNum("int", T.sym("c2"), pos=True)}, None)
                x = tens(it, "samples", ("B", "nv"))
                call(it, o1, "apply", st_, x)
                return call(it, o2, "apply", st_, x)

            for p in [q for q in paths_of(prog, th2, max_paths=12, sticky=True) if q.outcome == "return"]:
                tb = getattr(p.value, "term", None)
                if tb is None:
                    ck.undecided("C08.R5", inst, ni_site, "the result is not a term")
                    continue
                xs_ = 2 * T.sym("samples") - 1
                c2_, nv_, i_ = T.sym("c2"), T.sym("nv"), T.sym("i")
                full = ("slice", None, None, None)
                if per2:
                    w_ = T.app("sum", xs_ * T.app("index", xs_, (full, ("advcomp", T.app("mod", i_ + c2_, nv_), ("range", T.ZERO, nv_, T.ONE)))), (-1,)) * T.inv(nv_)
                else:
                    w_ = T.app("sum", T.app("index", xs_, (full, ("slice", None, -c2_, None))) * T.app("index", xs_, (full, ("slice", c2_, None, None))), (-1,)) * T.inv(nv_)
                na, nb_ = _site_gather_normal(w_), _site_gather_normal(tb)
                if na == nb_:
                    ck.ok("C08.R5", inst, ni_site)
                elif "c1" in nb_.syms():
                    ck.violation("C08.R5", inst, ni_site, "the value of the second interaction (distance c2) depends on the distance c1 of an interaction that was evaluated before it: "
                                 "pairs computed for one instance are reused for another (a table shared by all instances, keyed by the chain length only)", key="C08.R5|NeighbourInteraction|pairs of another instance")
                elif per1 != per2 and "c2" not in nb_.syms():
                    ck.violation("C08.R5", inst, ni_site, "the %s interaction evaluated after %s one of the same chain length does not depend on its own distance c2: %s" % ("periodic" if per2 else "open", "an open" if not per1 else "a periodic", str(nb_)[:160]),
                                 key="C08.R5|NeighbourInteraction|pairs of another instance")
                else:
                    ck.undecided("C08.R5", inst, ni_site, "the second interaction's value differs from its value alone in a way that is not classified")
    ck.require_min("C08.R5", 15)
    ck.require_min("C08.R1", 50)
    ck.require_min("C08.R2", 48)
    ck.require_min("C08.R3", 40)
    ck.require_min("C08.R4", 10)
    ck.assumptions += [
        "|s-1| flips a 0/1 spin; <0|sigma_y|1> = -i, <1|sigma_y|0> = +i; local estimator O(s) = sum_s' psi(s')/psi(s) <s|O|s'>",
        "the Z convention is the library's own documented map to_pm1 (0 -> -1, 1 -> +1)",
        "numerical equality of the exact expectation with Tr(rho O) is not decided",
    ]


def _onehot_flip(t, S, I):
    """Row i of where(eye(n) seen as (n, 1, ..., 1, n), A, S) - the batch with A's values at site i and S's elsewhere - as the
    update S[..., i] := A[..., i], for the two spellings of the flip A = |S - 1| and A = 1 - S; None when t is not of that form."""
    a = t.single_atom() if t is not None else None
    if not (isinstance(a, T.App) and a.op == "index" and len(a.args[1]) == 1 and a.args[1][0] == I):
        return None
    w = a.args[0].single_atom() if isinstance(a.args[0], T.Poly) else None
    if not (isinstance(w, T.App) and w.op == "where" and len(w.args) == 3 and w.args[2] == S):
        return None
    m = w.args[0].single_atom() if isinstance(w.args[0], T.Poly) else None
    if not (isinstance(m, T.App) and m.op == "view" and len(m.args) == 2):
        return None
    e = m.args[0].single_atom() if isinstance(m.args[0], T.Poly) else None
    if not (isinstance(e, T.App) and e.op == "eye" and len(e.args) == 1 and e.args[0] == T.sym("nv")):
        return None
    d = m.args[1]
    groups = d.split(":")[1].split(",") if isinstance(d, str) and d.startswith("regroup:") else None
    if groups is None or len(groups) < 2 or groups[0] != "1" or groups[-1] != "1" or any(g != "0" for g in groups[1:-1]):
        return None  # not the identity's rows and columns kept as first and last axis with size-1 axes in between
    spec = ("ellipsis", I)
    A = w.args[1]
    if A == T.absval(S - 1):
        return T.upd(S, spec, T.absval(T.app("index", S, spec) - 1))
    if A == 1 - S:
        return T.upd(S, spec, 1 - T.app("index", S, spec))
    return None


def _check_flip_estimator(ck, inst, asite, p, cls, ocls, absolute):
    prog = ck.program
    it = p.interp
    s, o, smp, r = p.value
    S = T.sym("samples")
    loops = loops_enclosing(it, ".importance_sampling_numerator") or [l for l in it.loops if ocls + ".apply" in l["site"]]
    if not loops:
        acc_t = _vector_flips(ck, inst, asite, p, ocls)
        if acc_t is not None:
            _final_flip_estimate(ck, inst, asite, p, acc_t, absolute)
        return
    if len(loops) != 1 or loops[0]["generic"] is None:
        ck.undecided("C08.R3", inst + ":site loop", asite, "expected exactly one loop over sites, found %d" % len(loops))
        return
    lp = loops[0]
    itv = lp["iter"]
    okr = isinstance(itv, VRange) and num_term(itv.start) == T.ZERO and num_term(itv.stop) == T.sym("nv") and num_term(itv.step) == T.ONE
    if not isinstance(itv, VRange):
        # a loop over something else than a range of site indices (the rows of a tensor of flipped copies, a zip of such): its
        # trip count is the length of what it runs over, when the analyser can tell
        from ..interp import _count_term

        srcs_ = [itv] + list(getattr(itv, "sources", None) or [])
        lens_ = {str(x.shape[0]) for x in srcs_ if isinstance(x, VTens) and x.shape}
        okr = True if lens_ == {"nv"} else None
        if okr is None and _count_term(itv) == ("range", T.ZERO, T.sym("nv"), T.ONE):
            okr = True  # (an enumeration of) a list holding one item per site
    ck.check(okr, "C08.R3", inst + ":all sites", lp["site"], "the site loop does not run over range(samples.shape[-1])")
    isym = "i@" + lp["site"]
    I = T.sym(isym)
    # calls inside the generic iteration
    gen_calls = [c for c in it.calls if c[0].endswith("importance_sampling_numerator")]
    # the last numerator call belongs to the generic iteration
    if len(gen_calls) < 2:
        ck.undecided("C08.R3", inst + ":numerator calls", asite, "importance_sampling_numerator is not called once per site")
        return
    g = gen_calls[-1]
    env = g[5]
    a_vp, a_v = env.get("vp"), env.get("v")
    want_f = flipped_term(S, I)
    alt_f = T.upd(S, ("ellipsis", I), 1 - T.app("index", S, ("ellipsis", I)))  # 1 - s is the same flip on {0, 1}
    ok_f = isinstance(a_vp, VTens) and (a_vp.term in (want_f, alt_f) or _onehot_flip(a_vp.term, S, I) in (want_f, alt_f))
    if ok_f:
        ck.ok("C08.R3", inst + ":flipped at site i", lp["site"], flipped=a_vp.term)
    elif isinstance(a_vp, VTens) and a_vp.term is not None and a_vp.term == S:
        ck.violation("C08.R3", inst + ":flipped at site i", lp["site"], "the numerator is evaluated on the unflipped configuration")
    elif isinstance(a_vp, VTens) and a_vp.term is not None and isym not in a_vp.term.syms():
        ck.violation("C08.R3", inst + ":flipped at site i", lp["site"], "the flipped configuration does not depend on the loop's site index: %r" % (a_vp.term,))
    else:
        ck.undecided("C08.R3", inst + ":flipped at site i", lp["site"], "flipped configuration not recognised: %r" % (getattr(a_vp, "term", None),))
    ck.check(isinstance(a_vp, VTens) and a_vp.obj.origin == "fresh", "C08.R1", inst + ":flip on a copy", lp["site"], "the spin flip is applied to a tensor sharing storage with %s" % (getattr(getattr(a_vp, "obj", None), "origin", "?")))
    ck.check(isinstance(a_v, VTens) and a_v.term == S, "C08.R3", inst + ":reference is the sample", lp["site"], "the second argument of the numerator is not the unflipped batch")
    # accumulated summand
    robj_terms = lp["generic"]["terms"]
    accs = [(obj, t) for obj, t in robj_terms.items()]
    if len(accs) != 1:
        ck.undecided("C08.R3", inst + ":accumulator", lp["site"], "expected one accumulator tensor, found %d" % len(accs))
        return
    acc_obj, gen_t = accs[0]
    carry = T.sym(lp["carried"][acc_obj])
    summand = gen_t - carry
    numer_t = g[6]
    if ocls == "SigmaY" and numer_t is not None:
        coeff = T.stack0(T.ZERO, 2 * T.app("index", S, ("ellipsis", I)) - 1)
        # complex product numer * coeff
        nc = T.as_stack0(numer_t)
        cc = T.as_stack0(coeff)
        if nc is not None:
            numer_t = T.stack0(nc[0] * cc[0] - nc[1] * cc[1], nc[0] * cc[1] + nc[1] * cc[0])
    if numer_t is None:
        ck.undecided("C08.R3", inst + ":summand", lp["site"], "no term for the numerator")
    elif summand == numer_t:
        ck.ok("C08.R3", inst + ":summand", lp["site"], summand=summand)
    else:
        sc, nc = T.as_stack0(summand), T.as_stack0(numer_t)
        if sc is not None and nc is not None and ocls == "SigmaY":
            if sc[0] == -nc[0] and sc[1] == -nc[1]:
                ck.violation("C08.R3", inst + ":summand", lp["site"], "the sigma_y matrix element has the wrong sign (coefficient is -i(2s_i-1) instead of +i(2s_i-1))")
                return
            if isym not in (sc[0].syms() | sc[1].syms()):
                ck.violation("C08.R3", inst + ":summand", lp["site"], "the summand does not depend on the site index")
                return
            fl = T.rename_syms(numer_t, {})
            # coefficient taken from the flipped sample?
            alt = T.stack0(T.ZERO, 2 * T.app("index", flipped_term(S, I), ("ellipsis", I)) - 1)
        if summand.syms() != numer_t.syms():
            ck.violation("C08.R3", inst + ":summand", lp["site"], "the accumulated term depends on %s; expected %s" % (sorted(summand.syms()), sorted(numer_t.syms())))
        elif summand == -numer_t:
            ck.violation("C08.R3", inst + ":summand", lp["site"], "the accumulated term has the wrong sign")
        else:
            ck.undecided("C08.R3", inst + ":summand", lp["site"], "accumulated term is not numerator%s: %r" % ("*i(2s_i-1)" if ocls == "SigmaY" else "", summand))
            return
    # final: real( accum / denominator(samples) ) / nv  [abs]
    _final_flip_estimate(ck, inst, asite, p, acc_obj.term, absolute)


def _vector_flips(ck, inst, asite, p, ocls):
    """All single-spin flips evaluated in one batched call: n copies of the batch on top of each other, one spin flipped per row.
    Decided by value: what every row holds, which site it flips (integer tables of the row / site indices for all small batch
    sizes and site counts), which rows are summed into which sample.  Returns the accumulated numerator term, or None."""
    from .. import ints

    it = p.interp
    S = T.sym("samples")
    gc = [c for c in it.calls if c[0].endswith("importance_sampling_numerator")]
    dv = [c for c in it.calls if c[0].endswith("cplx.elementwise_division") and (ocls + ".apply") in str(c[3])]
    if len(gc) != 1 or len(dv) != 1:
        ck.undecided("C08.R3", inst + ":site loop", asite, "expected exactly one loop over sites, found 0 (and no single batched evaluation of all flips either)")
        return None
    g = gc[0]
    a_vp, a_v = g[5].get("vp"), g[5].get("v")
    tvp, tv = g[7].get("vp"), g[7].get("v")
    name = inst + ":batched flips"
    at = tvp.single_atom() if tvp is not None else None
    if not (isinstance(at, T.App) and at.op == "upd" and len(at.args[1]) == 2 and all(isinstance(q, tuple) and q and q[0] == "adv" for q in at.args[1])):
        ck.undecided("C08.R3", name, asite, "the batch of flipped configurations is not <copies of the batch>[rows, sites] := flipped values: %s" % (str(tvp)[:160],))
        return None
    base, spec, val = at.args
    ba = base.single_atom()
    if not (isinstance(ba, T.App) and ba.op == "repeat" and ba.args[0] == S and tuple(ba.args[1]) == ("nv", "1")):
        ck.undecided("C08.R3", name, asite, "the flipped batch is not built on samples.repeat(num_visible, 1): %s" % (str(base)[:120],))
        return None
    ck.check(tv == base, "C08.R3", name + ":reference is the unflipped copy", asite, "the second argument of the numerator is not the unflipped stack of copies")
    rd = T.app("index", base, spec)
    ck.check(val in (T.ONE - rd, T.absval(rd - 1)), "C08.R3", name + ":the selected spin is flipped", asite, "the value written at the selected entries is %s, not the flipped spin" % (str(val)[:120],))
    ck.check(isinstance(a_vp, VTens) and a_vp.obj.origin == "fresh", "C08.R1", inst + ":flip on a copy", asite, "the spin flip is applied to a tensor sharing storage with %s" % (getattr(getattr(a_vp, "obj", None), "origin", "?")))
    # rows: copy c of sample s is row c * B + s (samples.repeat(n, 1) stacks n copies of the batch); the accumulated numerator
    # reshapes the rows to (n, B) and sums the copies (the shape algebra has checked that split)
    acc = dv[0][7].get("x")
    aa = acc.single_atom() if acc is not None else None

    def _summed_copies(t_):
        """t_ = sum over the copies axis of <rows reshaped to (n, B)>, componentwise linear: the summed row-wise expression, or None"""
        if t_ is None or not hasattr(t_, "terms"):
            return None
        out = T.ZERO
        for mono, c_ in t_.terms.items():
            if len(mono) != 1 or mono[0][1] != 1 or not (isinstance(mono[0][0], T.App) and mono[0][0].op == "sum" and tuple(mono[0][0].args[1]) in ((-2,),)):
                return None
            out = out + c_ * mono[0][0].args[0]

        def strip(a_):
            # elementwise arithmetic commutes with one and the same reshape of the row axis
            if isinstance(a_, T.App) and a_.op == "view" and isinstance(a_.args[1], str) and a_.args[1].startswith("regroup"):
                return a_.args[0]
            return None

        return T.subst(out, strip)

    comps_acc = T.as_stack0(acc) if acc is not None else None
    if isinstance(aa, T.App) and aa.op == "sum" and tuple(aa.args[1]) == (-2,):
        inner_rows = _summed_copies(acc)
        inner_pair = T.as_stack0(inner_rows) if inner_rows is not None else None
    elif comps_acc is not None and len(comps_acc) == 2:
        inner_pair = [_summed_copies(c_) for c_ in comps_acc]
        if any(c_ is None for c_ in inner_pair):
            inner_pair = None
    else:
        inner_pair = None
    if inner_pair is None or len(inner_pair) != 2:
        ck.undecided("C08.R3", name + ":copies summed per sample", asite, "the numerators are not reshaped to (2, num_visible, batch) and summed over the copies: %s" % (str(acc)[:160],))
        return None
    R, C = spec[0][1], spec[1][1]
    bad = None
    decided = 0
    for b in (1, 2, 3, 4):
        for n in (1, 2, 3, 4):
            env = {"B": b, "nv": n}
            rt, ct = ints.eval_array(R, env), ints.eval_array(C, env)
            if rt is None or ct is None or not hasattr(rt, "data") or not hasattr(ct, "data"):
                continue
            decided += 1
            rows, cols = list(rt.data), list(ct.data)
            if sorted(rows) != list(range(b * n)) or len(cols) != b * n:
                bad = bad or (b, n, "the row indices are %s: not every row of the %d copies exactly once" % (rows, n))
                continue
            site_of_row = {r_: c_ for r_, c_ in zip(rows, cols)}
            for s_ in range(b):
                got = sorted(site_of_row[c_ * b + s_] for c_ in range(n))
                if got != list(range(n)):
                    bad = bad or (b, n, "the %d copies of sample %d flip the sites %s, not each of the %d sites once" % (n, s_, got, n))
    if bad is not None:
        ck.violation("C08.R3", name + ":every sample has each of its sites flipped once", asite,
                     "with a batch of %d samples and %d sites %s (row c * B + s is copy c of sample s; the site index must be constant within a copy: repeat_interleave, not a tiled repeat)" % bad,
                     key="C08.R3|%s|batched flips do not cover the sites" % ocls)
        return None
    if not decided:
        ck.undecided("C08.R3", name + ":every sample has each of its sites flipped once", asite, "row / site index tables not evaluated: rows %s, sites %s" % (str(R)[:80], str(C)[:80]))
        return None
    ck.ok("C08.R3", name + ":every sample has each of its sites flipped once", asite, tables=decided)
    # the summed term: the numerators themselves (sigma_x), times i (2 s - 1) of the spin that was flipped (sigma_y)
    num_t = g[6]
    nc = T.as_stack0(num_t) if num_t is not None else None
    if nc is None or len(nc) != 2:
        ck.undecided("C08.R3", name + ":summand", asite, "the numerator is not a (re, im) pair")
        return None
    got_re, got_im = (T.idx0(x_, 0) if False else x_ for x_ in inner_pair)
    if ocls == "SigmaX":
        want_re, want_im = nc[0], nc[1]
    else:
        k_ = 2 * rd - 1  # the spin that is flipped, in the +-1 convention, before the flip
        want_re, want_im = -(k_ * nc[1]), k_ * nc[0]
    # (components may come as idx0(stack0(..)) of the reshaped pair)
    def comp_norm(t_):
        def fn(a_):
            if isinstance(a_, T.App) and a_.op == "idx0" and T.as_stack0(a_.args[0]) is not None:
                return T.as_stack0(a_.args[0])[a_.args[1]]
            return None
        return T.subst(t_, fn)

    got_re, got_im = comp_norm(got_re), comp_norm(got_im)
    if got_re == want_re and got_im == want_im:
        ck.ok("C08.R3", name + ":summand", asite)
        return acc
    if ocls == "SigmaY" and got_re == -want_re and got_im == -want_im:
        ck.violation("C08.R3", name + ":summand", asite, "the sigma_y matrix element has the wrong sign (coefficient is -i(2s_i-1) instead of +i(2s_i-1))")
        return None
    ck.undecided("C08.R3", name + ":summand", asite, "what is summed over the copies is not recognised as the numerator%s: %s" % (" times i(2 s_i - 1)" if ocls == "SigmaY" else "", str(got_re)[:160]))
    return None


def _final_flip_estimate(ck, inst, asite, p, acc_final, absolute):
    prog = ck.program
    it = p.interp
    s, o, smp, r = p.value

    def ref(it2=it):
        accv = VTens(it.new_tobj("tensor", acc_final, (2, "B"), "fresh"))
        den = call(it, s, "importance_sampling_denominator", smp)
        q = it.call_function(VFunc(prog.func(CPLX, "elementwise_division")), [accv, den], {}, None)
        return q

    q = ref()
    want = T.idx0(q.term, 0) * T.inv(T.sym("nv"))
    if absolute:
        want = T.absval(want)
    got = unregularised(ck, "C08.R3", inst, asite, "per-sample estimate", r.term)
    want = strip_regularisers(want) if regularisers(want) else want
    if got == want:
        ck.ok("C08.R3", inst + ":sum/denominator/nsites", asite)
    elif absolute and got == T.idx0(q.term, 0) * T.inv(T.sym("nv")):
        ck.violation("C08.R3", inst + ":sum/denominator/nsites", asite, "the observable was built with absolute=True but the signed per-sample value is returned (the absolute value is not taken)")
    elif (not absolute) and got == T.absval(T.idx0(q.term, 0) * T.inv(T.sym("nv"))):
        ck.violation("C08.R3", inst + ":sum/denominator/nsites", asite, "the absolute value is taken although the observable was built with absolute=False")
    elif got == T.idx0(q.term, 0) or (absolute and got == T.absval(T.idx0(q.term, 0))):
        ck.violation("C08.R3", inst + ":sum/denominator/nsites", asite, "the estimator is not divided by the number of sites")
    elif got == T.idx0(q.term, 1) * T.inv(T.sym("nv")):
        ck.violation("C08.R3", inst + ":sum/denominator/nsites", asite, "the imaginary part is returned instead of the real part")
    elif got.syms() != want.syms():
        ck.violation("C08.R3", inst + ":sum/denominator/nsites", asite, "the result depends on %s; expected %s" % (sorted(got.syms()), sorted(want.syms())))
    else:
        ck.undecided("C08.R3", inst + ":sum/denominator/nsites", asite, "final normalisation not recognised: %r" % (got,))


def _site_gather_normal(term):
    """x[:, <sites>] with the sites given as a slice or as a list [s(i) for i in range(n)]: rewritten to the gather
    ('advcomp', s(i), range(0, n)) with the loop symbol 'i' and n a polynomial in nv and the slice bounds."""
    if term is None:
        return None
    nv, i = T.sym("nv"), T.sym("i")

    def neg(p):
        return hasattr(p, "terms") and p.terms and all(c < 0 for c in p.terms.values()) and "nv" not in p.syms()

    def as_poly(v):
        return v if isinstance(v, T.Poly) else (T.const(v) if isinstance(v, int) else None)

    def strip_max0(p):
        a = p.single_atom() if hasattr(p, "single_atom") else None
        if isinstance(a, T.App) and a.op == "max" and len(a.args) == 2 and any(hasattr(z, "is_zero") and z.is_zero() for z in a.args):
            return [z for z in a.args if not z.is_zero()][0]
        return p

    def fn(a):
        if isinstance(a, T.App) and a.op == "index" and len(a.args[1]) == 2 and a.args[1][0] == "ellipsis":
            a = T.App("index", (a.args[0], (("slice", None, None, None), a.args[1][1])))  # for a batch of rows x[..., s] is x[:, s]
        if not (isinstance(a, T.App) and a.op == "index" and len(a.args[1]) == 2 and tuple(a.args[1][0]) == ("slice", None, None, None)):
            return None
        sp = a.args[1][1]
        base_ = a.args[0]
        if hasattr(base_, "terms") and base_.single_atom() is None and len(base_.terms) >= 1 and isinstance(sp, tuple) and sp and sp[0] == "slice":
            # selecting sites commutes with elementwise arithmetic: (x * y)[:, s] = x[:, s] * y[:, s]
            out = T.ZERO
            for mono, c_ in base_.terms.items():
                term_ = T.const(c_)
                for at_, pw_ in mono:
                    if isinstance(at_, T.Sym) and at_.name.startswith("lit:"):
                        term_ = term_ * T.powq(T.P(at_), pw_)
                    else:
                        sub = T.app("index", T.P(at_), a.args[1])
                        term_ = term_ * T.powq(T.subst(sub, fn), pw_)
                out = out + term_
            return out
        ra = base_.single_atom() if hasattr(base_, "single_atom") else None
        if isinstance(ra, T.App) and ra.op == "roll" and len(ra.args) == 3 and ra.args[2] == -1 and isinstance(sp, tuple) and sp and sp[0] == "slice" and sp[3] in (None, 1) and sp[1] in (None, 0):
            # roll(x, -k) along the sites puts site (i + k) mod L at position i; the first n positions do not wrap when n <= L - k
            k_ = ra.args[1]
            k_ = -(k_ if isinstance(k_, T.Poly) else T.const(k_)) if isinstance(k_, (T.Poly, int)) else None
            hi = nv if sp[2] is None else as_poly(sp[2])
            if k_ is not None and hi is not None:
                hi = nv + hi if neg(hi) else hi
                el = (i + k_) if (nv - k_ - hi).is_zero() else T.app("mod", i + k_, nv)
                return T.app("index", ra.args[0], (("slice", None, None, None), ("advcomp", el, ("range", T.ZERO, hi, T.ONE))))
        if isinstance(sp, tuple) and sp and sp[0] == "slice" and sp[3] in (None, 1):
            lo = T.ZERO if sp[1] is None else as_poly(sp[1])
            hi = nv if sp[2] is None else as_poly(sp[2])
            if lo is None or hi is None:
                return None
            lo = nv + lo if neg(lo) else lo
            hi = nv + hi if neg(hi) else hi
            if lo.is_zero() and hi == nv:
                return a.args[0]
            return T.app("index", a.args[0], (("slice", None, None, None), ("advcomp", i + lo, ("range", T.ZERO, hi - lo, T.ONE))))
        if isinstance(sp, tuple) and sp and sp[0] == "advcomp" and len(sp) == 3 and isinstance(sp[2], tuple) and sp[2] and sp[2][0] == "range" and sp[2][1] == T.ZERO and sp[2][3] == T.ONE and sp[1] is not None:
            el = sp[1]
            m = {s_: "i" for s_ in el.syms() if s_.startswith("i@")}
            if len(m) > 1:
                return None
            el = T.rename_syms(el, m) if m else el
            stop = strip_max0(sp[2][2])
            if el == i and stop == nv:
                return a.args[0]  # every site, in order: the tensor itself
            return T.app("index", a.args[0], (("slice", None, None, None), ("advcomp", el, ("range", T.ZERO, stop, T.ONE))))
        return None

    return T.subst(term, fn)


def _site_witness(gi, wi):
    """Concrete sizes for which two sets of site selections differ: (env, got sites, wanted sites), or None when none is found
    or a selection is outside the enumerable form x[:, [el(i) for i in range(lo, stop, step)]]."""
    import itertools
    from ..ints import eval_count

    def parts(a):
        ix = a.args[1]
        if not (isinstance(ix, tuple) and len(ix) == 2 and tuple(ix[0]) == ("slice", None, None, None) and isinstance(ix[1], tuple) and len(ix[1]) == 3 and ix[1][0] == "advcomp"
                and isinstance(ix[1][2], tuple) and len(ix[1][2]) == 4 and ix[1][2][0] == "range"):
            return None
        el, rg = ix[1][1], ix[1][2]
        if not all(isinstance(x, (T.Poly, int)) for x in (el, rg[1], rg[2], rg[3])):
            return None
        return a.args[0], el, rg[1], rg[2], rg[3]

    ps_g, ps_w = [parts(a) for a in gi], [parts(a) for a in wi]
    if not ps_g or not ps_w or any(x is None for x in ps_g + ps_w):
        return None
    syms = set()
    for _b, el, lo, hi, st in ps_g + ps_w:
        for x in (el, lo, hi, st):
            if isinstance(x, T.Poly):
                syms |= set(x.syms())
    loop = {s_ for s_ in syms if s_ == "i" or s_.startswith("i@")}
    syms = sorted(syms - loop)
    if len(loop) > 1 or len(syms) > 3:
        return None
    lv = next(iter(loop)) if loop else "i"

    def sites(ps, env):
        out = []
        for b, el, lo, hi, st in ps:
            vs = [eval_count(x, env) for x in (lo, hi, st)]
            if any(v is None or v.denominator != 1 for v in vs) or vs[2] == 0:
                return None
            row = []
            for j in range(int(vs[0]), int(vs[1]), int(vs[2])):
                v = eval_count(el, dict(env, **{lv: j}))
                if v is None or v.denominator != 1:
                    return None
                row.append(int(v))
            out.append((repr(b), tuple(row)))
        return sorted(set(out))

    for vals in itertools.product(range(1, 7), repeat=len(syms)):
        env = dict(zip(syms, vals))
        g, w = sites(ps_g, env), sites(ps_w, env)
        if g is None or w is None:
            return None
        if g != w:
            return env, [r for _b, r in g], [r for _b, r in w]
    return None


def _diag_zz(ck, inst, asite, got, want):
    gi = {a for a in got.all_atoms() if isinstance(a, T.App) and a.op == "index"}
    wi = {a for a in want.all_atoms() if isinstance(a, T.App) and a.op == "index"}
    def _alias(a):
        # a selection written in a way that has another, equal spelling (x[:, 0:], x[:, ::1]): comparing index steps says nothing
        for it_ in a.args[1]:
            if isinstance(it_, tuple) and it_ and it_[0] == "slice":
                lo, st = it_[1], it_[3]
                z = lambda v: isinstance(v, T.Poly) and v.is_zero() or v == 0  # noqa: E731
                o = lambda v: (isinstance(v, T.Poly) and v == T.ONE) or v == 1  # noqa: E731
                if (lo is not None and z(lo)) or (st is not None and o(st)):
                    return True
        return False

    def _unknown_ix(a):
        # a selection the analyser could not follow (a list it cannot enumerate, a value handed back by an unmodelled call)
        for it_ in a.args[1]:
            if isinstance(it_, tuple) and it_ and it_[0] == "unk":
                return True
            if isinstance(it_, tuple) and it_ and it_[0] in ("adv", "advcomp") and len(it_) > 1 and hasattr(it_[1], "syms") and any("?" in s_ or s_.startswith(("ret(", "elem(")) for s_ in it_[1].syms()):
                return True
        return False

    if gi != wi and any(_unknown_ix(a) for a in gi):
        ck.undecided("C08.R3", inst + ":pairs (i, i+c)/L", asite, "the sites are selected through an index the analyser does not follow: %s" % (sorted(repr(a.args[1]) for a in gi),))
        return
    if gi != wi and any(_alias(a) for a in gi):
        ck.undecided("C08.R3", inst + ":pairs (i, i+c)/L", asite, "the sites are selected through %s; the expected form is %s" % (sorted(repr(a.args[1]) for a in gi), sorted(repr(a.args[1]) for a in wi)))
        return
    if gi != wi:
        # two spellings of a selection can name the same sites ((i + c % L) for i < L - c is i + c): a difference is reported only
        # with a witness - a chain length and a distance for which the selected sites differ
        wit = _site_witness(gi, wi)
        if wit is None:
            ck.undecided("C08.R3", inst + ":pairs (i, i+c)/L", asite, "the sites are selected through %s; the expected form is %s; no chain length / distance up to 6 tells them apart" % (
                sorted(repr(a.args[1]) for a in gi), sorted(repr(a.args[1]) for a in wi)))
            return
        ck.violation("C08.R3", inst + ":pairs (i, i+c)/L", asite, "the interaction pairs sites through %s; expected %s (same distance c on both factors); for %s the selected sites are %s, expected %s" % (
            sorted(repr(a.args[1]) for a in gi), sorted(repr(a.args[1]) for a in wi), wit[0], wit[1], wit[2]))
        return
    d = lin_diff(got, want)
    ck.check(diff_verdict(d), "C08.R3", inst + ":pairs (i, i+c)/L", asite, "ZZ estimator: " + diff_msg(d), got=got, want=want)
