"""Self-validation of the checker (thorough tier).

For a property, a battery of single-instance source variants is applied to scratch copies of
/repo/qucumber (under a fresh tempfile.mkdtemp, outside /repo and /verif, removed in `finally`):
  * 'caught'  variants break the property and must make the quick check exit 1 with a VIOLATION;
  * 'silent'  variants preserve behaviour and must keep the quick check at exit 0.
Variants are anchored on *normalised* syntax (ast.unparse of the old statements / expression), not on
line numbers or formatting; one whose anchor is absent on the current tree is skipped and counted.
Patch-file variants (reversed `fix:` commits, seeded changes from independent sub-agents) are applied with
`git apply`.  The outcome is evidence about the checker; the exit status of the check reflects /repo only.
"""
import ast
import json
import os
import shutil
import subprocess
import sys
import tempfile
import textwrap
from concurrent.futures import ThreadPoolExecutor

VERIF = os.path.dirname(os.path.dirname(os.path.abspath(__file__)))


# ------------------------------------------------------------------------------ AST-anchored edits
def _norm(node):
    return ast.unparse(node)


def apply_edit(source, old, new, nth=0):
    """Replace the nth occurrence of the statements / expression `old` (matched on normalised syntax)
    by `new`.  Returns new source or None if the anchor is absent."""
    tree = ast.parse(source)
    old_nodes = ast.parse(textwrap.dedent(old)).body
    new_nodes = ast.parse(textwrap.dedent(new)).body if new.strip() else []
    found = [0]
    done = [False]

    old_stmt = [_norm(n) for n in old_nodes]

    class StmtRewriter(ast.NodeTransformer):
        def _rewrite_body(self, body):
            out = []
            i = 0
            while i < len(body):
                if not done[0] and [_norm(x) for x in body[i:i + len(old_stmt)]] == old_stmt:
                    if found[0] == nth:
                        out.extend(new_nodes if new_nodes else [ast.Pass()] if len(body) == len(old_stmt) else [])
                        done[0] = True
                        i += len(old_stmt)
                        found[0] += 1
                        continue
                    found[0] += 1
                out.append(body[i])
                i += 1
            return out

        def generic_visit(self, node):
            for field in ("body", "orelse", "finalbody"):
                b = getattr(node, field, None)
                if isinstance(b, list) and b and isinstance(b[0], ast.stmt):
                    setattr(node, field, self._rewrite_body(b))
            return super().generic_visit(node)

    t2 = StmtRewriter().visit(tree)
    if not done[0] and len(old_nodes) == 1 and isinstance(old_nodes[0], ast.Expr) and len(new_nodes) == 1 and isinstance(new_nodes[0], ast.Expr):
        target = _norm(old_nodes[0].value)
        repl = new_nodes[0].value
        found[0] = 0

        class ExprRewriter(ast.NodeTransformer):
            def visit(self, node):
                if not done[0] and isinstance(node, ast.expr) and _norm(node) == target:
                    if found[0] == nth:
                        done[0] = True
                        found[0] += 1
                        return repl
                    found[0] += 1
                return super().visit(node)

        t2 = ExprRewriter().visit(ast.parse(source))
    if not done[0]:
        return None
    ast.fix_missing_locations(t2)
    return ast.unparse(t2) + "\n"


# ------------------------------------------------------------------------------ running variants
def run_variant(pid, variant, repo):
    """variant: dict(name, kind='edit'|'patch', file, old, new, nth, expect, patch)."""
    d = tempfile.mkdtemp(prefix="qsa_selftest_")
    try:
        shutil.copytree(os.path.join(repo, "qucumber"), os.path.join(d, "qucumber"))
        if variant.get("kind", "edit") == "patch":
            r = subprocess.run(["git", "apply", "--whitespace=nowarn", variant["patch"]], cwd=d, capture_output=True, text=True)
            if r.returncode != 0:
                return {"name": variant["name"], "status": "skipped", "why": "patch does not apply: " + r.stderr.strip()[:160]}
        else:
            path = os.path.join(d, variant["file"])
            if not os.path.isfile(path):
                return {"name": variant["name"], "status": "skipped", "why": "file absent"}
            src = open(path).read()
            try:
                new_src = apply_edit(src, variant["old"], variant["new"], variant.get("nth", 0))
            except SyntaxError as e:
                return {"name": variant["name"], "status": "skipped", "why": "syntax error in variant: %s" % e}
            if new_src is None:
                return {"name": variant["name"], "status": "skipped", "why": "anchor absent on the current tree"}
            open(path, "w").write(new_src)
        env = dict(os.environ, QSA_REPO=d, QSA_EVIDENCE_DIR=os.path.join(d, "ev"))
        env.pop("VERIF_TIER", None)
        r = subprocess.run([sys.executable, os.path.join(VERIF, "check"), pid, "--tier", "quick"], env=env, capture_output=True, text=True, timeout=600)
        rules = sorted({l.split("rule=")[1].split()[0] for l in r.stdout.splitlines() if l.startswith("  rule=")})
        expect = variant["expect"]
        if expect == "caught":
            ok = r.returncode == 1
        elif expect == "undecided":
            ok = r.returncode == 2
        else:
            ok = r.returncode == 0
        return {"name": variant["name"], "status": "ok" if ok else "MISS", "expect": expect, "exit": r.returncode, "rules": rules[:6],
                "first": next((l.strip()[:220] for l in r.stdout.splitlines() if l.startswith("  rule=") or l.startswith("UNDECIDED")), "")}
    except subprocess.TimeoutExpired:
        return {"name": variant["name"], "status": "MISS", "expect": variant["expect"], "exit": "timeout", "rules": []}
    finally:
        shutil.rmtree(d, ignore_errors=True)


def patch_variants(pid):
    """Reversed fix commits and kept seeded changes for this property."""
    out = []
    rf = os.path.join(VERIF, "seeded", "_reverted_fixes")
    if os.path.isdir(rf):
        for fn in sorted(os.listdir(rf)):
            if fn.startswith(pid + "_") and fn.endswith(".diff"):
                out.append({"name": "reverted-fix:" + fn[:-5], "kind": "patch", "patch": os.path.join(rf, fn), "expect": "caught"})
    sd = os.path.join(VERIF, "seeded")
    if os.path.isdir(sd):
        for name in sorted(os.listdir(sd)):
            meta = os.path.join(sd, name, "meta.json")
            if os.path.isfile(meta):
                try:
                    m = json.load(open(meta))
                except Exception:
                    continue
                if m.get("property") == pid and m.get("expect_check") in ("caught", "silent", "undecided") and os.path.isfile(os.path.join(sd, name, "patch.diff")):
                    out.append({"name": "seeded:" + name, "kind": "patch", "patch": os.path.join(sd, name, "patch.diff"), "expect": m["expect_check"]})
    return out


def thorough(ck, variants):
    """Run the battery; record the outcome in the checker's evidence."""
    repo = ck.program.repo
    allv = list(variants) + patch_variants(ck.pid)
    seed = int(os.environ.get("VERIF_SEED", "0") or 0)
    if seed:
        import random

        random.Random(seed).shuffle(allv)  # scheduling order only; every variant is always run
    results = []
    with ThreadPoolExecutor(max_workers=min(16, max(1, len(allv)))) as ex:
        for r in ex.map(lambda v: run_variant(ck.pid, v, repo), allv):
            results.append(r)
    caught = [r for r in results if r["status"] == "ok" and r.get("expect") in ("caught", "undecided")]
    silent = [r for r in results if r["status"] == "ok" and r.get("expect") == "silent"]
    miss = [r for r in results if r["status"] == "MISS"]
    skipped = [r for r in results if r["status"] == "skipped"]
    ck.extra["selftest"] = {
        "programs": len(results), "breaking_variants_caught": len(caught), "equivalent_variants_silent": len(silent),
        "missed": [r for r in miss], "skipped": skipped,
        "samples": results[:40],
    }
    ck.extra["programs"] = len(results)
    for r in miss:
        print("SELFTEST-NOTE property=%s variant=%s expected=%s got exit=%s %s" % (ck.pid, r["name"], r.get("expect"), r.get("exit"), r.get("first", "")[:160]))
    print("%s selftest: %d variants, %d breaking caught, %d equivalent silent, %d missed, %d skipped" % (ck.pid, len(results), len(caught), len(silent), len(miss), len(skipped)))
    if allv and len(skipped) == len(results):
        ck.undecided("selftest", "battery", "", "no self-validation variant is applicable to the current tree")
    return results
