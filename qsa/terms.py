"""Term domain: canonical polynomial normal forms over hash-consed atoms.

A *term* is always a `Poly`: a finite sum of monomials with rational coefficients; a monomial is
a product of atoms with integer powers.  Atoms are symbols (`Sym`), applications of named
operations to terms (`App`) and exponentials (`Exp`).  Normalisation applies a fixed list of
identities that are sound over the reals (rounding is out of scope):

  * commutativity / associativity of + and elementwise *, constant folding, distribution of
    products over sums;
  * exp(a)·exp(b) = exp(a+b), exp(a)^q = exp(q·a), sqrt(exp a) = exp(a/2), log(exp a) = a;
  * linearity of the operations listed in LINEAR (matmul, dot, sum, einsum, views ...);
  * identity of storage-only operations (clone, detach, to, contiguous, data);
  * even/odd laws of cos, sin, atan2(first arg), abs;
  * softplus(x) = log(1+exp(x)) = log1p(exp(x)).

This is value numbering, not equation solving: two terms are reported equal only when their
normal forms coincide; "not equal" therefore means "not shown equal".
"""
from fractions import Fraction

_F0 = Fraction(0)
_F1 = Fraction(1)


class Atom:
    __slots__ = ("key", "_hash")

    def __hash__(self):
        return self._hash

    def __eq__(self, other):
        return isinstance(other, Atom) and self.key == other.key

    def __lt__(self, other):
        return self.skey() < other.skey()

    def skey(self):
        return repr(self)


class Sym(Atom):
    __slots__ = ("name",)

    def __init__(self, name):
        self.name = name
        self.key = ("sym", name)
        self._hash = hash(self.key)

    def __repr__(self):
        return self.name


class App(Atom):
    """op applied to args; args are Poly, str, int, Fraction, None or tuples thereof."""

    __slots__ = ("op", "args", "_repr")

    def __init__(self, op, args):
        self.op = op
        self.args = tuple(args)
        self.key = ("app", op, self.args)
        self._hash = hash(self.key)
        self._repr = None

    def __repr__(self):
        if self._repr is None:
            self._repr = "%s(%s)" % (self.op, ", ".join(_show(a) for a in self.args))
        return self._repr


class Exp(Atom):
    __slots__ = ("arg", "_repr")

    def __init__(self, arg):
        self.arg = arg
        self.key = ("exp", arg)
        self._hash = hash(self.key)
        self._repr = None

    def __repr__(self):
        if self._repr is None:
            self._repr = "exp(%r)" % (self.arg,)
        return self._repr


def _show(a):
    if isinstance(a, tuple):
        return "[" + ", ".join(_show(x) for x in a) + "]"
    return repr(a)


class Poly:
    """Canonical sum of monomials. `terms`: dict mono -> Fraction, mono = tuple of (Atom, int)
    sorted by atom repr."""

    __slots__ = ("terms", "_hash", "_repr", "_key")

    def __init__(self, terms):
        self.terms = terms
        self._key = frozenset(terms.items())
        self._hash = hash(self._key)
        self._repr = None

    def __hash__(self):
        return self._hash

    def __eq__(self, other):
        return isinstance(other, Poly) and self._key == other._key

    def __repr__(self):
        if self._repr is None:
            if not self.terms:
                self._repr = "0"
            else:
                parts = []
                for mono, c in sorted(self.terms.items(), key=lambda kv: _mono_repr(kv[0])):
                    m = _mono_repr(mono)
                    if not mono:
                        parts.append(_frac(c))
                    elif c == 1:
                        parts.append(m)
                    elif c == -1:
                        parts.append("-" + m)
                    else:
                        parts.append(_frac(c) + "*" + m)
                self._repr = "(" + " + ".join(parts) + ")" if len(parts) > 1 else parts[0]
        return self._repr

    # -- queries
    def is_zero(self):
        return not self.terms

    def is_const(self):
        return all(len(m) == 0 for m in self.terms)

    def const_value(self):
        if not self.terms:
            return _F0
        if self.is_const():
            return self.terms[()]
        return None

    def single_atom(self):
        """Return the atom if this poly is exactly 1*atom^1."""
        if len(self.terms) == 1:
            (mono, c), = self.terms.items()
            if c == 1 and len(mono) == 1 and mono[0][1] == 1:
                return mono[0][0]
        return None

    def single_mono(self):
        if len(self.terms) == 1:
            (mono, c), = self.terms.items()
            return mono, c
        return None

    def coeff_of_atom(self, atom):
        """Coefficient of the monomial consisting of exactly atom^1."""
        return self.terms.get(((atom, 1),), _F0)

    # -- arithmetic
    def __add__(self, other):
        other = P(other)
        d = dict(self.terms)
        for m, c in other.terms.items():
            v = d.get(m, _F0) + c
            if v == 0:
                d.pop(m, None)
            else:
                d[m] = v
        return Poly(d)

    __radd__ = __add__

    def __neg__(self):
        return Poly({m: -c for m, c in self.terms.items()})

    def __sub__(self, other):
        return self + (-P(other))

    def __rsub__(self, other):
        return P(other) - self

    def __mul__(self, other):
        other = P(other)
        d = {}
        for m1, c1 in self.terms.items():
            for m2, c2 in other.terms.items():
                m = _mono_mul(m1, m2)
                v = d.get(m, _F0) + c1 * c2
                if v == 0:
                    d.pop(m, None)
                else:
                    d[m] = v
        return Poly(d)

    __rmul__ = __mul__

    def __truediv__(self, other):
        return self * inv(P(other))

    def __rtruediv__(self, other):
        return P(other) * inv(self)

    def __pow__(self, n):
        return powq(self, n)

    # -- traversal
    def atoms(self):
        out = set()
        for m in self.terms:
            for a, _ in m:
                out.add(a)
        return out

    def all_atoms(self):
        """All atoms occurring anywhere (deep)."""
        out = set()
        stack = [self]
        while stack:
            p = stack.pop()
            if isinstance(p, Poly):
                for a in p.atoms():
                    if a not in out:
                        out.add(a)
                        if isinstance(a, Exp):
                            stack.append(a.arg)
                        elif isinstance(a, App):
                            stack.extend(_flat_args(a.args))
        return out

    def syms(self):
        return {a.name for a in self.all_atoms() if isinstance(a, Sym)}


def _flat_args(args):
    for a in args:
        if isinstance(a, tuple):
            for x in _flat_args(a):
                yield x
        elif isinstance(a, Poly):
            yield a


def _frac(c):
    if c.denominator == 1:
        return str(c.numerator)
    return "%d/%d" % (c.numerator, c.denominator)


def _mono_repr(mono):
    if not mono:
        return "1"
    return "*".join(repr(a) if p == 1 else "%r^%d" % (a, p) for a, p in mono)


def _mono_mul(m1, m2):
    if not m1:
        return m2
    if not m2:
        return m1
    d = {}
    exp_arg = None
    for a, p in m1 + m2:
        if isinstance(a, Exp):
            # exp(x)^p merged additively
            contrib = a.arg * Fraction(p)
            exp_arg = contrib if exp_arg is None else exp_arg + contrib
        else:
            d[a] = d.get(a, 0) + p
    # sqrt(x)^(2k) = x^k when x is itself a single atom
    for a in list(d):
        if isinstance(a, App) and a.op == "sqrt" and d[a] % 2 == 0 and d[a] != 0:
            inner = a.args[0].single_atom() if isinstance(a.args[0], Poly) else None
            if inner is not None and not isinstance(inner, Exp):
                k = d.pop(a) // 2
                d[inner] = d.get(inner, 0) + k
    items = [(a, p) for a, p in d.items() if p != 0]
    if exp_arg is not None and not exp_arg.is_zero():
        cv = exp_arg.const_value()
        if cv is not None:
            items.append((Exp(exp_arg), 1))
        else:
            items.append((Exp(exp_arg), 1))
    items.sort(key=lambda ap: ap[0].skey())
    return tuple(items)


def P(x):
    """Coerce to Poly."""
    if isinstance(x, Poly):
        return x
    if isinstance(x, Atom):
        return Poly({((x, 1),): _F1})
    if isinstance(x, bool):
        return const(int(x))
    if isinstance(x, (int, Fraction)):
        return const(x)
    if isinstance(x, float):
        return const(Fraction(x).limit_denominator(10 ** 12) if x == x else 0)
    raise TypeError("cannot coerce %r to Poly" % (x,))


def const(q):
    q = Fraction(q)
    if q == 0:
        return ZERO
    return Poly({(): q})


ZERO = Poly({})
ONE = Poly({(): _F1})


def sym(name):
    return P(Sym(name))


def inv(p):
    sm = p.single_mono()
    if sm is not None:
        mono, c = sm
        return Poly({_mono_pow(mono, -1): 1 / c})
    if p.is_zero():
        return P(App("div0", ()))
    return Poly({((App("group", (p,)), -1),): _F1})


def _mono_pow(mono, n):
    out = []
    for a, p in mono:
        if isinstance(a, Exp):
            out.append((Exp(a.arg * Fraction(n * p)), 1))
        else:
            out.append((a, p * n))
    out.sort(key=lambda ap: ap[0].skey())
    return tuple(out)


def powq(p, q):
    """p ** q for rational q."""
    q = Fraction(q)
    if q == 1:
        return p
    if q == 0:
        return ONE
    if q.denominator == 1:
        n = q.numerator
        at = p.single_atom()
        if at is not None and isinstance(at, App) and at.op == "sqrt" and n % 2 == 0:
            return powq(at.args[0], n // 2)
        if n > 0:
            r = ONE
            for _ in range(n):
                r = r * p
            return r
        return inv(powq(p, -n))
    # fractional power: only exponentials (and perfect-power constants) are split
    sm = p.single_mono()
    if sm is not None:
        mono, c = sm
        if all(isinstance(a, Exp) for a, _ in mono):
            cr = _rational_root(c, q)
            if cr is not None:
                m2 = tuple(sorted(((Exp(a.arg * (q * pw)), 1) for a, pw in mono), key=lambda ap: ap[0].skey()))
                return Poly({m2: cr}) if m2 or cr != 0 else ZERO
    if q == Fraction(1, 2):
        return P(App("sqrt", (p,)))
    return P(App("pow", (p, q)))


def _rational_root(c, q):
    if c == 1:
        return _F1
    if c <= 0:
        return None
    # try exact
    num = c.numerator ** float(q)
    den = c.denominator ** float(q)
    rn, rd = round(num), round(den)
    try:
        if Fraction(rn) ** q.denominator == Fraction(c.numerator) ** q.numerator and Fraction(rd) ** q.denominator == Fraction(c.denominator) ** q.numerator:
            return Fraction(rn, rd)
    except Exception:
        return None
    return None


# ---------------------------------------------------------------------------- functions
def exp(p):
    p = P(p)
    if p.is_zero():
        return ONE
    at = p.single_atom()
    if at is not None and isinstance(at, App) and at.op == "log":
        return at.args[0]
    return P(Exp(p))


def log(p):
    p = P(p)
    sm = p.single_mono()
    if sm is not None:
        mono, c = sm
        if c == 1 and len(mono) == 1 and isinstance(mono[0][0], Exp) and mono[0][1] == 1:
            return mono[0][0].arg
        if not mono and c == 1:
            return ZERO
        # log(sqrt(x)) = 0.5*log(x)
        if c == 1 and len(mono) == 1 and mono[0][1] == 1 and isinstance(mono[0][0], App) and mono[0][0].op == "sqrt":
            return Fraction(1, 2) * log(mono[0][0].args[0])
    # log(1 - sigmoid(x)) = -softplus(x) ; log(sigmoid(x)) = -softplus(-x)   (over the reals)
    if len(p.terms) == 2 and p.terms.get(()) == 1:
        for mono, c in p.terms.items():
            if mono and c == -1 and len(mono) == 1 and mono[0][1] == 1 and isinstance(mono[0][0], App) and mono[0][0].op == "sigmoid":
                return -P(App("softplus", (mono[0][0].args[0],)))
    sa_ = p.single_atom()
    if sa_ is not None and isinstance(sa_, App) and sa_.op == "sigmoid":
        return -P(App("softplus", (-P(sa_.args[0]),)))
    # log(1 + exp(x)) = softplus(x)
    if len(p.terms) == 2 and p.terms.get(()) == 1:
        for mono, c in p.terms.items():
            if mono and c == 1 and len(mono) == 1 and isinstance(mono[0][0], Exp):
                return P(App("softplus", (mono[0][0].arg,)))
    # log of the perfect square 1 + 2m + m^2 (m a positive exponential monomial) = 2 log(1 + m)
    if len(p.terms) == 3 and p.terms.get(()) == 1:
        for mono, c in p.terms.items():
            if mono and c == 2 and all(isinstance(a, Exp) for a, _ in mono):
                cand = ONE + Poly({mono: _F1})
                if cand * cand == p:
                    return 2 * log(cand)
    return P(App("log", (p,)))


def outer_normal(p):
    """x.unsqueeze(-1) * y.unsqueeze(-2) inside a monomial (also inside the components of a stack): the outer product over the last
    axes, in the normal form of einsum('...j,...k->...jk')."""
    if p is None:
        return None
    p = P(p)
    at = p.single_atom()
    if at is not None and isinstance(at, App) and at.op == "stack0":
        return stack0(*[outer_normal(c) for c in at.args])
    out = ZERO
    changed = False
    for mono, c in p.terms.items():
        left = [(a, pw) for a, pw in mono if isinstance(a, App) and a.op == "unsq" and len(a.args) == 3 and a.args[1] == -1 and pw == 1]
        right = [(a, pw) for a, pw in mono if isinstance(a, App) and a.op == "unsq" and len(a.args) == 3 and a.args[1] == -2 and pw == 1]
        if len(left) == 1 and len(right) == 1 and left[0][0].args[2] == right[0][0].args[2]:
            rest = tuple(x for x in mono if x not in (left[0], right[0]))
            out = out + Poly({rest: c}) * app("einsum2", "...j,...k->...jk", left[0][0].args[0], right[0][0].args[0]) if rest else out + c * app("einsum2", "...j,...k->...jk", left[0][0].args[0], right[0][0].args[0])
            changed = True
        else:
            out = out + Poly({mono: c})
    return out if changed else p


def complex_split(p):
    """(re, im) of a polynomial in which the imaginary unit is the literal symbol `lit:1j` (i^2 = -1)."""
    p = P(p)
    re, im = ZERO, ZERO
    for mono, c in p.terms.items():
        k = 0
        rest = []
        for a, pw in mono:
            if isinstance(a, Sym) and a.name == "lit:1j" and isinstance(pw, int):
                k += pw
            else:
                rest.append((a, pw))
        m = Poly({tuple(rest): c}) if rest else const(c)
        k %= 4
        if k == 0:
            re = re + m
        elif k == 1:
            im = im + m
        elif k == 2:
            re = re - m
        else:
            im = im - m
    return re, im


def has_imag_unit(p):
    return p is not None and hasattr(p, "syms") and "lit:1j" in P(p).syms()


def trig_normal(p):
    """sin(y)^2 -> 1 - cos(y)^2 in every monomial (a canonical form for polynomials in cos y, sin y: at most one sin(y) per
    monomial), applied to the atoms' own arguments as well."""
    p = P(p)
    out = ZERO
    for mono, c in p.terms.items():
        term = const(c)
        for a, pw in mono:
            if isinstance(a, App) and a.op == "sin" and isinstance(pw, int) and pw >= 2:
                cs = P(App("cos", a.args))
                term = term * powq(ONE - cs * cs, pw // 2) * (P(a) if pw % 2 else ONE)
            else:
                term = term * powq(P(a), pw)
        out = out + term
    return out


def is_positive(p):
    """Sufficient syntactic test for p > 0 everywhere: positive constants and exponentials only."""
    p = P(p)
    if not p.terms:
        return False
    for mono, c in p.terms.items():
        if c <= 0:
            return False
        for a, pw in mono:
            if not isinstance(a, Exp):
                if isinstance(a, App) and a.op in ("unsq", "sq", "expand") and is_positive(a.args[0]):
                    continue
                return False
    return True


def sqrt(p):
    p = P(p)
    # perfect square 1 + 2m + m^2 = (1+m)^2 with m a positive exponential monomial
    if len(p.terms) == 3 and p.terms.get(()) == 1:
        for mono, c in p.terms.items():
            if mono and c == 2 and all(isinstance(a, Exp) for a, _ in mono):
                cand = ONE + Poly({mono: _F1})
                if cand * cand == p:
                    return cand
    return powq(p, Fraction(1, 2))


def _neg_canonical(p):
    """Return (q, sign) with p == sign*q and q canonical among {p, -p}."""
    if p.is_zero():
        return p, 1
    n = -p
    if repr(n) < repr(p):
        return n, -1
    return p, 1


def cos(p):
    q, _ = _neg_canonical(P(p))
    if q.is_zero():
        return ONE
    return P(App("cos", (q,)))


def sin(p):
    q, s = _neg_canonical(P(p))
    if q.is_zero():
        return ZERO
    return s * P(App("sin", (q,)))


def absval(p):
    p = P(p)
    q, _ = _neg_canonical(p)
    cv = q.const_value()
    if cv is not None:
        return const(abs(cv))
    sm = q.single_mono()
    if sm is not None:
        mono, c = sm
        if all(isinstance(a, Exp) for a, _ in mono):
            return Poly({mono: abs(c)})
    return P(App("abs", (q,)))


def atan2(a, b):
    a, b = P(a), P(b)
    q, s = _neg_canonical(a)
    if q.is_zero():
        if is_positive(b):
            return ZERO  # atan2(0, b) = 0 for b > 0
        return P(App("atan2", (q, b)))
    return s * P(App("atan2", (q, b)))


def softplus(p):
    return P(App("softplus", (P(p),)))


def sigmoid(p):
    return P(App("sigmoid", (P(p),)))


# ops that are linear in the listed argument positions (other args are attributes)
LINEAR = {
    "matmul": (0, 1),
    "dot": (0, 1),
    "mv": (0, 1),
    "ger": (0, 1),
    "einsum2": (1, 2),  # einsum2(spec, a, b)
    "einsum1": (1,),
    "einsum3": (1, 2, 3),
    "sum": (0,),
    "mean": (0,),
    "unsq": (0,),
    "sq": (0,),
    "t": (0,),
    "transpose": (0,),
    "view": (0,),
    "expand": (0,),
    "index": (0,),
    "idx0": (0,),
    "roll": (0,),
    "repeat": (0,),
    "diagonal": (0,),
    "flatten_last2": (0,),
}

IDENTITY_OPS = {"clone", "detach", "to", "contiguous", "data", "cpu", "double", "float_t"}


def app(op, *args):
    """Build an application with linearity normalisation."""
    if op in IDENTITY_OPS:
        return P(args[0])
    if op == "upd":
        return upd(*args)
    if op in ("ceil", "floor", "trunc", "round") and len(args) == 1:
        # rounding an integer-valued quantity changes nothing: ceil(a // b) is a // b
        a0 = P(args[0])
        at0 = a0.single_atom()
        if a0.is_const() and a0.const_value() is not None and a0.const_value().denominator == 1:
            return a0
        if at0 is not None and isinstance(at0, App) and at0.op in ("floordiv", "ceil", "floor", "trunc", "round", "len"):
            return a0
    if op in ("min", "max") and len(args) >= 1 and all(isinstance(a_, (Poly, int, Fraction)) for a_ in args):
        # the least / greatest of a collection: nesting, repetition and order do not matter - min(min(a, b), b) is min(a, b)
        flat, seen_ = [], set()
        todo = [P(a_) for a_ in args]
        while todo:
            a_ = todo.pop(0)
            at_ = a_.single_atom()
            if isinstance(at_, App) and at_.op == op and all(isinstance(q_, Poly) for q_ in at_.args):
                todo = list(at_.args) + todo
                continue
            if repr(a_) not in seen_:
                seen_.add(repr(a_))
                flat.append(a_)
        if len(flat) == 1:
            return flat[0]
        consts = [a_ for a_ in flat if a_.is_const() and a_.const_value() is not None]
        if len(consts) > 1:
            best = (min if op == "min" else max)(consts, key=lambda q_: q_.const_value())
            flat = [a_ for a_ in flat if a_ not in consts or a_ is best]
        return P(App(op, tuple(sorted(flat, key=repr))))
    if op in ("npreal", "npimag") and len(args) == 1:
        r_ = _np_part(op, P(args[0]))
        if r_ is not None:
            return r_
    lin = LINEAR.get(op)
    if not lin:
        return P(App(op, tuple(args)))
    args = list(args)
    return _lin_expand(op, args, list(lin))


def _np_part(op, a):
    """Real / imaginary part of a LITERAL complex array - numbers, constant roots, the literal imaginary unit and stacks of
    such - entry by entry; None when the value is anything else (then the part stays an opaque operation)."""
    def numeric_atom(x_):
        return (isinstance(x_, Sym) and x_.name == "lit:1j") or (isinstance(x_, App) and x_.op in ("sqrt", "pow") and all(not hasattr(q_, "syms") or not q_.syms() for q_ in x_.args))

    if a.is_zero():
        return ZERO
    stacks = []
    for mono in a.terms:
        st_ = [x_ for x_, pw_ in mono if isinstance(x_, App) and x_.op == "stack0"]
        if any(not numeric_atom(x_) and not (isinstance(x_, App) and x_.op == "stack0") for x_, _pw in mono):
            return None
        if len(st_) > 1 or (st_ and dict(mono)[st_[0]] != 1):
            return None
        stacks.append(st_[0] if st_ else None)
    if all(s_ is None for s_ in stacks):
        re_, im_ = complex_split(a)
        return re_ if op == "npreal" else im_
    if any(s_ is None for s_ in stacks) or len({len(s_.args) for s_ in stacks}) != 1:
        return None
    n_ = len(stacks[0].args)
    comps = []
    for k_ in range(n_):
        tot = ZERO
        for (mono, c_), s_ in zip(a.terms.items(), stacks):
            rest = tuple((x_, pw_) for x_, pw_ in mono if x_ is not s_)
            tot = tot + (Poly({rest: c_}) if rest else const(c_)) * s_.args[k_]
        part = _np_part(op, P(tot))
        if part is None:
            return None
        comps.append(part)
    return stack0(*comps)


def _lin_expand(op, args, positions):
    if not positions:
        # pure structural simplifications
        return _structural(op, args)
    pos = positions[0]
    rest = positions[1:]
    a = P(args[pos])
    if a.is_zero():
        return ZERO
    total = ZERO
    for mono, c in a.terms.items():
        new = list(args)
        # literal scalars (the imaginary unit `lit:1j`, ...) are numbers: they factor out of a linear operation like the coefficient
        lits = tuple((a_, pw_) for a_, pw_ in mono if isinstance(a_, Sym) and a_.name.startswith("lit:") and a_.name[4:5] not in ("'", '"'))
        if lits and len(lits) < len(mono):
            new[pos] = Poly({tuple((a_, pw_) for a_, pw_ in mono if (a_, pw_) not in lits): _F1})
            total = total + c * Poly({lits: _F1}) * _lin_expand(op, new, rest)
            continue
        new[pos] = Poly({mono: _F1})
        total = total + c * _lin_expand(op, new, rest)
    return total


def _structural(op, args):
    if op == "matmul" and len(args) == 2 and isinstance(args[0], Poly):
        # a batch axis added in front of the last two commutes with a product from the right: (x[..., None, :]) @ M = (x @ M)[..., None, :]
        ua = args[0].single_atom()
        if isinstance(ua, App) and ua.op == "unsq" and len(ua.args) >= 3 and isinstance(ua.args[1], int) and ua.args[1] <= -2 and isinstance(ua.args[2], int) and ua.args[2] >= 3:
            return app("unsq", app("matmul", ua.args[0], args[1]), ua.args[1], ua.args[2])
    # unsq/sq/view of a pure constant stay constants (broadcast scalars)
    if op in ("unsq", "sq", "view", "expand", "t", "transpose", "roll", "repeat", "flatten_last2", "index"):
        a = P(args[0])
        if a.is_const():
            return a
    if op == "sq":
        # dropping a size-1 axis commutes with elementwise functions: sq(f(x)) = f(sq(x)); and with stacking along the leading
        # axis when the dropped axis is counted from the end
        a = P(args[0])
        at = a.single_atom()
        if isinstance(at, App) and at.op == "matmul" and len(args) >= 2 and args[1] == -2 and isinstance(at.args[0], Poly):
            # a vector made a one-row matrix, multiplied, and the row axis dropped again: the vector-matrix product
            ua = at.args[0].single_atom()
            if isinstance(ua, App) and ua.op == "unsq" and len(ua.args) >= 3 and ua.args[1] == -2 and ua.args[2] == 2:
                return app("matmul", ua.args[0], at.args[1])
        if isinstance(at, Exp):
            return exp(app("sq", at.arg, *args[1:]))
        if isinstance(at, App) and at.op in ("softplus", "sigmoid", "cos", "sin", "sqrt", "log", "abs", "tanh") and len(at.args) == 1:
            return rebuild(at.op, [app("sq", at.args[0], *args[1:])])
        if isinstance(at, App) and at.op == "stack0" and len(args) > 1 and isinstance(args[1], int) and args[1] < 0:
            return stack0(*[app("sq", c, *args[1:]) for c in at.args])
        _EW = ("softplus", "sigmoid", "cos", "sin", "sqrt", "log", "abs", "tanh")
        if at is None and len(a.terms) == 1:
            (mono, c), = a.terms.items()
            if len(mono) >= 1 and all(isinstance(x, Exp) or (isinstance(x, App) and x.op in _EW and len(x.args) == 1) for x, _ in mono):
                # a product of elementwise functions of tensors that all carry the dropped axis
                out = const(c)
                for x, pw in mono:
                    out = out * powq(app("sq", P(x), *args[1:]), pw)
                return out
    if op == "unsq" and len(args) == 3 and isinstance(args[1], int) and args[1] < 0 and isinstance(args[2], int) and args[2] + args[1] >= 1:
        # (the new axis must come after the stack's own leading axis: position rank + ax >= 1)
        # a new axis counted from the end goes through a stack along the leading axis: each component gets it (one rank lower)
        a = P(args[0])
        at = a.single_atom()
        if at is not None and isinstance(at, App) and at.op == "stack0":
            return stack0(*[app("unsq", c, args[1], args[2] - 1) for c in at.args])
    if op == "idx0":
        a = P(args[0])
        at = a.single_atom()
        if at is not None and isinstance(at, App) and at.op in ("where", "x:torch.where", "x:numpy.where") and len(at.args) == 3 and isinstance(args[1], int) \
                and all(as_stack0(b_) is not None and args[1] < len(as_stack0(b_)) for b_ in at.args[1:]):
            # a component of an elementwise selection between two stacks: the selection between their components
            return app(at.op, at.args[0], as_stack0(at.args[1])[args[1]], as_stack0(at.args[2])[args[1]])
        if at is not None and isinstance(at, App) and at.op == "stack0":
            k = args[1]
            if isinstance(k, int) and 0 <= k < len(at.args):
                return at.args[k]
        if a.is_const():
            return a
    if op == "index":
        a = P(args[0])
        at = a.single_atom()
        if at is not None and isinstance(at, App) and at.op == "upd" and at.args[1] == args[1]:
            return at.args[2]  # reading back the location just written
    if op == "t":
        a = P(args[0])
        at = a.single_atom()
        if at is not None and isinstance(at, App) and at.op == "t":
            return at.args[0]
    if op == "transpose":
        a = P(args[0])
        at = a.single_atom()
        if at is not None and isinstance(at, App) and at.op == "transpose" and at.args[1:] == tuple(args[1:]):
            return at.args[0]
    return P(App(op, tuple(args)))


def upd(base, spec, val):
    """Functional update base[spec] := val; a second write to the same location replaces the first."""
    base = P(base)
    at = base.single_atom()
    if at is not None and isinstance(at, App) and at.op == "upd" and at.args[1] == spec:
        base = at.args[0]
    return P(App("upd", (base, spec, P(val))))


def stack0(*comps):
    return P(App("stack0", tuple(P(c) for c in comps)))


def as_stack0(p):
    """If p is exactly one stack0 atom return its components, else None."""
    at = P(p).single_atom()
    if at is not None and isinstance(at, App) and at.op == "stack0":
        return at.args
    return None


def idx0(p, k):
    return app("idx0", P(p), k)


# ---------------------------------------------------------------------------- substitution
def subst(p, fn, _memo=None):
    """Rebuild term bottom-up; fn(atom_rebuilt) -> Poly|None replaces atoms (after their args were
    rebuilt).  All constructors are re-applied so the result is normalised."""
    if _memo is None:
        _memo = {}
    if not isinstance(p, Poly):
        if isinstance(p, tuple):
            return tuple(subst(x, fn, _memo) for x in p)
        return p
    if p in _memo:
        return _memo[p]
    total = ZERO
    for mono, c in p.terms.items():
        m = const(c)
        for a, pw in mono:
            m = m * powq(_subst_atom(a, fn, _memo), pw)
        total = total + m
    _memo[p] = total
    return total


def _subst_atom(a, fn, memo):
    if isinstance(a, Sym):
        r = fn(a)
        return P(a) if r is None else r
    if isinstance(a, Exp):
        na = exp(subst(a.arg, fn, memo))
        at = na.single_atom()
        r = fn(at) if at is not None else None
        return na if r is None else r
    # App: rebuild through the normalising constructors
    nargs = [subst(x, fn, memo) for x in a.args]
    na = rebuild(a.op, nargs)
    at = na.single_atom()
    r = fn(at) if at is not None else None
    return na if r is None else r


def rebuild(op, args):
    if op == "cos":
        return cos(args[0])
    if op == "sin":
        return sin(args[0])
    if op == "abs":
        return absval(args[0])
    if op == "atan2":
        return atan2(args[0], args[1])
    if op == "log":
        return log(args[0])
    if op == "sqrt":
        return sqrt(args[0])
    if op == "pow":
        if isinstance(args[1], Poly):
            c = args[1].const_value()
            if c is None:
                return app("pow", args[0], args[1])
            return powq(args[0], c)
        return powq(args[0], args[1])
    if op == "group":
        return args[0]
    return app(op, *args)


def rename_syms(p, mapping):
    def fn(a):
        if isinstance(a, Sym) and a.name in mapping:
            v = mapping[a.name]
            return sym(v) if isinstance(v, str) else v
        return None

    return subst(p, fn)


# ---------------------------------------------------------------------------- rational mode
def ratfun_equal(a, b):
    """Decide a == b as rational functions by clearing `group` denominators (complete for
    polynomial identities over the atoms)."""
    na, da = _num_den(P(a))
    nb, db = _num_den(P(b))
    return (na * db - nb * da).is_zero()


def _num_den(p):
    """Return (N, D) polys without negative powers such that p = N/D."""
    num, den = ZERO, ONE
    for mono, c in p.terms.items():
        n_i, d_i = const(c), ONE
        for a, pw in mono:
            if isinstance(a, App) and a.op == "group":
                gn, gd = _num_den(a.args[0])
                base_n, base_d = gn, gd
            else:
                base_n, base_d = P(a), ONE
            if pw > 0:
                n_i = n_i * powq(base_n, pw)
                d_i = d_i * powq(base_d, pw)
            else:
                n_i = n_i * powq(base_d, -pw)
                d_i = d_i * powq(base_n, -pw)
        num = num * d_i + n_i * den
        den = den * d_i
    return num, den
